"""C09 — reported statistics are consistent with the adjustment they describe."""
import copy
import math
import os
import random
import shutil
import statistics
import tempfile

from lib.core import *
from lib import gen_net

sys.path.insert(0, str(VERIF / "tools" / "gen"))
import c09_stats as tr_stats  # noqa: E402
import c09_cluster as tr_cluster  # noqa: E402

ID = "C09"
PROPS_FILES = ["Gama/Props/C09.lean", "Gama/Props/C09Solvers.lean", "Gama/Props/C09Net.lean", "Gama/Props/C09Cluster.lean",
               "Gama/Props/C09SvdDecompose.lean",
               "Gama/Props/C09NetScaling.lean", "Gama/Props/C09NetWitness.lean", "Gama/Props/C09InputGap.lean",
               "Gama/Props/C09Xml.lean", "Gama/Props/C09Correlated.lean", "Gama/Props/C09PeWitness.lean"]
LEAN_TARGETS = ["Gama.Props.C09", "Gama.Props.C09Solvers", "Gama.Props.C09Net", "Gama.Props.C09Cluster",
                "Gama.Props.C09SvdDecompose",
                "Gama.Props.C09NetScaling", "Gama.Props.C09NetWitness", "Gama.Props.C09InputGap",
                "Gama.Props.C09Xml", "Gama.Props.C09Correlated", "Gama.Props.C09PeWitness"]
DRIVERS = ["drv_stats"]
RULE = ("generated noisy networks (2D direction/distance fixed and free, small-dof intersections, levelling, "
        "correlated coordinate clusters) x sigma-act x conf-pr in (0,1) x sigma-apr in {0.1..100} x 4 algorithms; "
        "plus 60 seed-independent structured networks on the guards of the formulas (exactly diagonal 2x2 blocks with "
        "q_yy >, <, = q_xx x 4 algorithms; sigma-apr triples 1 / 1000 / 0.001 under gso and svd compared field by field "
        "with the scaling law; 6 networks x 4 algorithms with a PASSIVE observation in front of active ones with other "
        "standard deviations in the same cluster: lone direction, point without coordinates, gross blunder removed by "
        "remove_huge_abs_terms in an <obs>, a <height-differences>, a correlated <coordinates> and <vectors> cluster) and an "
        "8093-argument grid over the guard boundaries and over every activity pattern of clusters of 1..5 observations "
        "(regenerated formula vs reference model vs Python definition at Float); a random family of 2D networks with "
        "1..3 observations made passive by the same three mechanisms; "
        "one evaluation = one reported quantity (accessor value or XML field) recomputed from its inputs; "
        "distinct = (network, quantity index); non-trivial = adjusted network with at least one unknown")
TRUSTED = [
    "tools/gen/c09_stats.py (translator network.{h,cpp}/localnetworkxml.cpp -> Gama/Gen/StatsGen.lean), validated "
    "by executing its output next to the C++ on every run",
    "Scalar R / StatsTrig R instances of Lemmas/StatsReal.lean: sqrt = Real.sqrt, atan2 y x = Complex.arg (x + y i), pi",
    "hypotheses of the composed theorems of Props/C09Solvers.lean are those of the solver theorems they cite (C01/C03/C20: "
    "static well-formedness of the problem, 'rank numerically unambiguous' on the model's own trace; svd: no certificate - "
    "the factors Svd.decompose returns with unambiguous singular values, Props/C09SvdDecompose.lean); "
    "C09_sigma_apr_scaling is about uncorrelated observations (diagonal weights, whitening diag(sigma-apr/stdev)) and takes "
    "IsLSSolution of the two adjustments (the conclusion of the C01 theorems) as hypotheses; at the network level "
    "(Props/C09NetScaling.lean: C09_net_sigma_apr_scaling about NetFacade.netSolve for m_0_apr and s*m_0_apr, any two "
    "algorithms) nothing of this is assumed: the block Cholesky whitening of prepareProjectEquations scales exactly "
    "(W' = s W, correlated clusters included; C09_net_whitening_scales) and IsLSSolution comes from the C01 net theorems",
    "tools/gen/c09_stats.py also reads results/text/adjusted_{unknowns,observations}.h (every use of kki); the html and sql "
    "writers (html.cpp, localnetwork2sql.cpp) are outside the property (text/XML) and not read",
    "tools/gen/c09_cluster.py (translator obsdata.h Cluster<Observation>::update / Cluster::stdDev, observation.cpp "
    "Observation::stdDev -> Gama/Gen/ClusterUpdate.lean: statement order of the loop body incl. the position of "
    "`p->cluster_index = index++` relative to `if (p->active())`), validated by executing its output (drv_stats op `cidx`) "
    "next to the C++ on every adjusted observation",
    "tools/gen/c09_stats.py gen_xml_sites (localnetworkxml.cpp -> Gama/Gen/StatsXmlSites.lean; uses tools/gen/c12_sites.py "
    "parse_sites for the operand sites, resolves local variables textually by the nearest preceding definition in the writer "
    "function, `*= sc` is the only accepted modification) and the hand tables Stats.Xml.classifyTable / expected of "
    "Lemmas/StatsXml.lean (accessor expression -> formula, tag -> formula) and its hand-written evaluator Stats.Xml.value (the "
    "StatsGen formula of each tag on NetAnswer's accessors; what C09_xml_statistics_are_model_statistics is about - not a "
    "regenerated writer); validated end to end by the XML oracle, which recomputes every such field from the other fields",
]
MODELLED = [
    "values of GNU_gama::Normal / Student: the driver is given their values at the argument the code must use; in the "
    "theorems the coefficient functions are C17's models Statan.normal / Statan.student (same definitions C17's theorems and "
    "drv_statan are about)",
    "libm sqrt/atan2/fabs at Float; IEEE rounding (theorems are over R)",
    "LocalNetwork::stashed_ellipses (SVG-only cache in std_error_ellipse) is not modelled",
    "iostream formatting of the XML numbers (oracle tolerances follow the printed precision)",
    "which observations LocalNetwork::revision_observations / remove_huge_abs_terms make passive (C14/C06's subject): the "
    "cluster theorems hold for EVERY activity pattern; the harness reads the actual pattern from the real objects",
]
ASSUMPTIONS = ["q_xx, q_bb, v'Pv, defect delivered by the solver are those of the least-squares problem (C01-C03)"]
LEVEL_TEXT = ("Lean 4 theorems over the reals about every statistic formula of LocalNetwork (degrees of freedom, m0 "
              "selection, standard deviations, residual cofactors with their clamp, confidence-coefficient selection, "
              "error ellipse = eigen-decomposition of the 2x2 cofactor block via the atan2 half angle with the bearing "
              "unique unless the eigenvalues coincide, invariance under sigma-apr); every guard / clamp is inside a "
              "statement about the REGENERATED formula that quantifies over both sides of the guard and over every "
              "positive scale (no absolute threshold can hide in a guard); composed with the solver models "
              "(C01/C03/C20 at the shared Scalar R) and the LS layer: dof = m - rank A = m - n + dim ker A = sum of redundancy "
              "numbers, the 2x2 block of the returned cofactor matrix is PSD (derived) so the ellipse is its eigen-decomposition, "
              "standard deviations = actual reference deviation x sqrt(solver cofactor) with the residual clamp never active, "
              "confidence half-width = stdev x Student/Normal (C17's models) selected by sigma-act for every conf-pr in (0,1), "
              "and sigma-apr scaling derived from LS9 + uniqueness for two adjustments - for the solver models and, at the network level, "
              "as ONE theorem about the facade model netSolve for m_0_apr and s*m_0_apr (any two algorithms, correlated clusters "
              "included: the block Cholesky whitening scales exactly); the 18 formulas (incl. the XML writer's "
              "<aposteriori>, <ratio>, <err-obs>/<err-adj>, the text writers' half-width product and the table of its sites) are regenerated from the C++ text on every run and proved "
              "equal to the reference model; model executed at Float next to an in-process LocalNetwork; every numeric "
              "field of the XML result recomputed from the other fields; when a formula changes, the argument where it "
              "left the reference is found on a grid over the guard boundaries and realised as a network for gama-local. "
              "The standard deviation behind weight_obs (Observation::stdDev = cluster->stdDev(cluster_index)) is tied to the "
              "weights of the adjustment: the loop of Cluster::update() and Cluster::stdDev are regenerated from obsdata.h and "
              "proved to give every observation its position in the FULL list and its OWN variance for every activity pattern, "
              "equal entry by entry to the facade model's obsStdDev (index list of activeCov()); the harness feeds the model the "
              "own variance found by pointer search, independent of cluster_index. "
              "Round 9: the statistic fields of the XML writer are tied to the formulas - every numeric operand of "
              "equations_summary / std_dev_summary / std_error_ellipses / observations and <flt> is regenerated with its local "
              "variables resolved to LocalNetwork accessor calls (Gen/StatsXmlSites.lean), joined by a kernel-evaluated decide with "
              "C12's operand table (Gen/XmlSites.lean) and mapped to the StatsGen formula its tag names; "
              "C09_xml_statistics_are_model_statistics states the value of every field on netSolve's answer. "
              "Correlated clusters (finding C09-F1/C07-F2) are quantified: the coded sigma_L^2 = m0^2 B_nn C_nn equals the variance "
              "m0^2 (L B L')_nn of the adjusted observation for every hat matrix iff row n of the cluster's Cholesky factor is diagonal "
              "(iff the observation is uncorrelated with its predecessors), and |difference| <= m0^2 (2 l_nn sqrt(B_nn R) + R), R = squared "
              "norm of the strictly lower part of that row (Props/C09Correlated.lean, also at netSolve level). "
              "Round 8: at LocalNetwork level the solver premise is ONE input-side hypothesis (InputGap: thresholds + RankGap for "
              "envelope/cholesky/gso, SingGap for svd) in C09_stdev_of_net_gap / C09_net_sigma_apr_scaling_gap, the side conditions "
              "0 <= [pvv] and stdDev() > 0 are derived (C09_net_side_conditions; 0 < m_0_apr stays), and C09_stdev_of_net / "
              "C09_net_sigma_apr_scaling are applied over R to a correlated network with every hypothesis discharged "
              "(Props/C09NetWitness.lean: envelope vs cholesky on the scaled network).")
LEVEL_NOTE = ("Not covered by the theorems: the values of the Normal/Student quantiles beyond what C17 proves, IEEE rounding; "
              "the solver facts are cited from C01/C03/C20 under their hypotheses (svd: the factors Svd.decompose returns with unambiguous singular values - no certificate; "
              "convergence of its QR iteration is not proved). The absolute pivot tolerances of the envelope / cholesky kernels "
              "break the sigma-apr invariance on the real code for extreme weights: known finding C09-F2. sigma_L of observations in clusters with a non-diagonal "
              "covariance matrix uses the uncorrelated formula in the C++ (characterised and bounded in Props/C09Correlated.lean; known finding C09-F1). "
              "The guards under which <std-residual> (f >= 0.1) and <err-obs>/<err-adj> (bandWidth() == 0 and f >= 5 or outlying) are printed, "
              "and the chi-square bounds <lower>/<upper>, are not in the table. The correlated bound is two-sided (no one-sided "
              "inequality holds) and not shown attained; at netSolve level it is stated for every lower factor L with L L' = C, the "
              "identification of m0^2 (L B L')_kk with the variance of the adjusted observation is the generic identity "
              "C09_adjusted_obs_cofactor (L Ad = A), not instantiated with the factor prepareProjectEquations computes. In the "
              "sigma-apr theorem each run's solver premise is asked separately (not scale invariant under absolute tolerances). "
              "hdim / RowsOK of the network theorems are not discharged from project_equations inside C09; no svd instance at "
              "network level.")
TECHNIQUE = "Lean 4 proof (real analysis: Complex.arg half-angle, sqrt) + source-to-Lean translator + correspondence + XML oracle"

ALGS = ["gso", "svd", "cholesky", "envelope"]
SIGMAS = [0.001, 0.01, 0.1, 0.5, 1, 2, 7.5, 10, 33, 100, 1000, 10000]      # sigma-apr/stdev over 1e-4 .. 1e4


# ------------------------------------------------------------------------------------ translate

def translate(ctx):
    try:
        text = tr_stats.gen(ctx.repo)
    except tr_stats.Unreadable as e:
        raise TieBroken("c09_stats translator", str(e))
    except (OSError, IndexError, ValueError, KeyError) as e:
        raise TieBroken("c09_stats translator", repr(e))
    f = ctx.lean / "Gama" / "Gen" / "StatsGen.lean"
    if not f.exists() or f.read_text() != text:
        f.write_text(text)
    # round 9: the statistic sites of the XML writer, operands resolved to LocalNetwork accessor calls
    try:
        text = tr_stats.gen_xml_sites(ctx.repo)
    except tr_stats.Unreadable as e:
        raise TieBroken("c09_stats translator (xml statistic sites)", str(e))
    except (OSError, IndexError, ValueError, KeyError) as e:
        raise TieBroken("c09_stats translator (xml statistic sites)", repr(e))
    f = ctx.lean / "Gama" / "Gen" / "StatsXmlSites.lean"
    if not f.exists() or f.read_text() != text:
        f.write_text(text)
    # ... and C12's table of the same writer (Gen/XmlSites.lean, tools/gen/c12_sites.py: same generator and content as
    # c12.translate), so that the join in Props/C09Xml.lean compares two tables of the SAME tree
    try:
        import c12_sites
        text = c12_sites.generate(ctx.repo)[0]
    except c12_sites.SitesError as e:
        raise TieBroken("c12_sites (run by C09)", str(e))
    except OSError as e:
        raise TieBroken("c12_sites (run by C09)", repr(e))
    f = ctx.lean / "Gama" / "Gen" / "XmlSites.lean"
    if not f.exists() or f.read_text() != text:
        f.write_text(text)
    # Cluster<Observation>::update() (numbering of the observations of a cluster), Cluster::stdDev, Observation::stdDev
    try:
        text = tr_cluster.gen(ctx.repo)
    except tr_cluster.Unreadable as e:
        raise TieBroken("c09_cluster translator", str(e))
    except (OSError, IndexError, ValueError, KeyError) as e:
        raise TieBroken("c09_cluster translator", repr(e))
    f = ctx.lean / "Gama" / "Gen" / "ClusterUpdate.lean"
    if not f.exists() or f.read_text() != text:
        f.write_text(text)


# ------------------------------------------------------------------------------------ generators

def small_dof_network(rng, dof, with_dirs=False):
    """2D: fixed points + new points each fixed by exactly two distances, plus `dof` extra distances"""
    nfix, nnew = rng.randint(3, 4), rng.randint(1, 3)
    pts = gen_net.random_points(rng, nfix + nnew, 2, 1000.0)
    ids = list(pts)
    for k, pid in enumerate(ids):
        pts[pid]["status"] = "fix" if k < nfix else "adj"
        pts[pid]["approx"] = True
    fixed, new = ids[:nfix], ids[nfix:]
    pairs = []
    for n in new:
        good = []
        for i, a in enumerate(fixed):
            for b in fixed[i + 1:]:
                g = abs((gen_net.bearing(pts[n], pts[a]) - gen_net.bearing(pts[n], pts[b])) % math.pi)
                if math.radians(35) < g < math.radians(145):      # well-conditioned intersection
                    good.append((a, b))
        if not good:
            return None
        a, b = rng.choice(good)
        pairs += [(n, a), (n, b)]
    cand = [(n, f) for n in new for f in fixed if (n, f) not in pairs] + \
           [(a, b) for i, a in enumerate(new) for b in new[i + 1:]]
    rng.shuffle(cand)
    pairs += cand[:dof]
    if len(cand) < dof:
        return None
    by = {}
    for a, b in pairs:
        sd = rng.choice([2.0, 5.0, 10.0])
        by.setdefault(a, []).append({"t": "distance", "to": b, "stdev": sd,
                                     "val": gen_net.dist2(pts[a], pts[b]) + rng.gauss(0, sd / 1e3)})
    obs = [{"kind": "obs", "from": s, "orient": 0.0, "items": it} for s, it in by.items()]
    return {"dim": 2, "points": pts, "obs": obs,
            "params": {"sigma-apr": 10, "conf-pr": 0.95, "tol-abs": 1000, "sigma-act": "aposteriori"}}


def with_coords_cluster(rng, net, correlated):
    """adds a <coordinates> cluster observing the xy of two adjusted points (full covariance when correlated)"""
    adj = [p for p, d in net["points"].items() if d["status"] != "fix"][:2]
    items, n = [], 0
    for p in adj:
        items.append({"id": p, "x": net["points"][p]["x"] + rng.gauss(0, 0.004),
                      "y": net["points"][p]["y"] + rng.gauss(0, 0.004)})
        n += 2
    L = [[0.0] * n for _ in range(n)]
    for i in range(n):
        for j in range(i + 1):
            L[i][j] = rng.uniform(3, 6) if i == j else (rng.uniform(-2, 2) if correlated else 0.0)
    cov = [[sum(L[i][k] * L[j][k] for k in range(n)) for j in range(n)] for i in range(n)]
    net["obs"].append({"kind": "coords", "items": items, "cov": cov, "band": n - 1 if correlated else 0})
    return net


def spd_cov(rng, n, correlated, lo=2.0, hi=6.0):
    """exactly symmetric positive definite n x n matrix  L L'  (diagonal when not correlated)"""
    L = [[0.0] * n for _ in range(n)]
    for i in range(n):
        for j in range(i + 1):
            L[i][j] = rng.uniform(lo, hi) if i == j else (rng.uniform(-2, 2) if correlated else 0.0)
    return [[sum(L[i][k] * L[j][k] for k in range(n)) for j in range(n)] for i in range(n)]


def diag_block_network(rng):
    """BOUNDARY family for the ellipse: points whose 2x2 cofactor block is EXACTLY diagonal
    (q_xy == 0.0): q_yy > q_xx, q_yy < q_xx, q_yy == q_xx (circle, c == 0).  Such a point is determined only by
    <coordinates> clusters / <vectors> from a fixed point with diagonal covariance, or by one distance along the
    x axis and one along the y axis.  An ordinary trilaterated point is added so that the network is not trivial."""
    pts = {"F1": {"x": 1000.0, "y": 1000.0, "status": "fix", "approx": True},
           "F2": {"x": 1200.0, "y": 1050.0, "status": "fix", "approx": True},
           "F3": {"x": 1100.0, "y": 1300.0, "status": "fix", "approx": True}}
    obs = []
    if rng.random() < 0.7:
        q = {"x": 1090.0 + rng.uniform(-20, 20), "y": 1110.0 + rng.uniform(-20, 20), "status": "adj", "approx": True}
        pts["Q"] = q
        items = []
        for f in ("F1", "F2", "F3") + (("F1",) if rng.random() < 0.7 else ()):
            sd = rng.choice([1.0, 3.0, 5.0])
            items.append({"t": "distance", "to": f, "stdev": sd, "val": gen_net.dist2(q, pts[f]) + rng.gauss(0, sd / 1e3)})
        obs.append({"kind": "obs", "from": "Q", "orient": 0.0, "items": items})
    variants = []
    for k in range(rng.randint(1, 3)):
        pid = f"D{k + 1}"
        how = rng.choice(["coords", "coords", "coords2", "vector", "cross"])
        shape = rng.choice(["y>x", "y>x", "x>y", "circle"])
        sx = rng.choice([1.0, 2.0, 3.0])
        sy = sx if shape == "circle" else (sx * rng.choice([2.0, 3.0, 5.0]) if shape == "y>x" else sx / rng.choice([2.0, 4.0]))
        p = {"x": 1000.0 + 100.0 * rng.randint(0, 9), "y": 2000.0 + 100.0 * rng.randint(0, 9), "status": "adj", "approx": True}
        pts[pid] = p
        variants.append(f"{how}:{shape}")
        if how in ("coords", "coords2"):
            for rep in range(2 if how == "coords2" else 1):
                f = rng.choice([1.0, 2.0]) if rep else 1.0           # same ordering of the two variances in every cluster
                obs.append({"kind": "coords", "band": 0, "cov": [[(sx * f) ** 2, 0.0], [0.0, (sy * f) ** 2]],
                            "items": [{"id": pid, "x": p["x"] + rng.gauss(0, sx / 1e3), "y": p["y"] + rng.gauss(0, sy / 1e3)}]})
        elif how == "vector":                                        # 3D point tied to a fixed 3D point by one vector
            pts.setdefault("G", {"x": 900.0, "y": 1900.0, "z": 100.0, "status": "fix", "approx": True})
            p["z"] = 120.0
            g = pts["G"]
            cov = [[sx ** 2, 0, 0], [0, sy ** 2, 0], [0, 0, 4.0]]
            for rep in range(rng.randint(1, 2)):
                obs.append({"kind": "vectors", "band": 0, "cov": cov,
                            "items": [{"from": "G", "to": pid, "dx": p["x"] - g["x"] + rng.gauss(0, sx / 1e3),
                                       "dy": p["y"] - g["y"] + rng.gauss(0, sy / 1e3), "dz": p["z"] - g["z"] + rng.gauss(0, 2e-3)}]})
        else:                                                        # one distance along x, one along y (dof 0 or 1)
            ax, ay = f"{pid}x", f"{pid}y"
            pts[ax] = {"x": p["x"] + 300.0, "y": p["y"], "status": "fix", "approx": True}
            pts[ay] = {"x": p["x"], "y": p["y"] + 400.0, "status": "fix", "approx": True}
            items = [{"t": "distance", "to": ax, "stdev": sx, "val": 300.0}, {"t": "distance", "to": ay, "stdev": sy, "val": 400.0}]
            obs.append({"kind": "obs", "from": pid, "orient": 0.0, "items": items})
    net = {"dim": 2, "points": pts, "obs": obs,
           "params": {"sigma-apr": 10, "conf-pr": 0.95, "tol-abs": 1000, "sigma-act": "aposteriori"}}
    return "diagblock[" + ",".join(sorted(set(variants))) + "]", net


def net3d(rng):
    """3D networks: xyz unknowns, slope distances, zenith angles, height differences (optionally with a covariance
    matrix), vector clusters (identity / diagonal / banded / full covariance)"""
    kinds = rng.choice([("direction", "distance", "s-distance", "z-angle"), ("direction", "s-distance", "z-angle", "dh"),
                        ("direction", "distance", "z-angle", "vector"), ("s-distance", "z-angle", "dh", "vector"),
                        ("direction", "distance", "dh", "vector")])
    net = gen_net.make_network(rng, npts=rng.randint(4, 6), dim=3, nfixed=2, kinds=kinds, noise=1.0,
                               density=rng.uniform(0.6, 0.95), heights=rng.random() < 0.4,
                               stdev_dir=rng.choice([5.0, 10.0, 20.0]), stdev_dist=rng.choice([2.0, 5.0, 8.0]))
    fam = "net3d"
    for o in net["obs"]:
        if o["kind"] == "vectors":
            n = 3 * len(o["items"])
            mode = rng.choice(["identity", "diag", "band", "full"])
            if mode != "identity":
                o["cov"] = spd_cov(rng, n, mode in ("band", "full"), 1.0, 3.0)
                o["band"] = 0 if mode == "diag" else (2 if mode == "band" else n - 1)
                if mode == "band":
                    for i in range(n):
                        for j in range(n):
                            if abs(i - j) > 2:
                                o["cov"][i][j] = 0.0
                    for i in range(n):                      # keep it diagonally dominant => positive definite
                        o["cov"][i][i] = 1.0 + sum(abs(o["cov"][i][j]) for j in range(n) if j != i)
            fam += "-vec:" + mode
        if o["kind"] == "hdiffs":
            n = len(o["items"])
            mode = rng.choice(["plain", "diag", "full"])
            if mode != "plain":
                o["cov"] = spd_cov(rng, n, mode == "full", 0.8, 2.0)
                o["band"] = 0 if mode == "diag" else n - 1
                for it in o["items"]:
                    it.pop("stdev", None)
            fam += "-dh:" + mode
    return fam, net


def spread_stdevs(rng, net):
    """one or two observations much more / much less precise than the rest (stdev x 1e-2 .. 1e2)"""
    items = [it for o in net["obs"] if o["kind"] in ("obs", "hdiffs") for it in o["items"] if "stdev" in it]
    for it in rng.sample(items, min(len(items), rng.randint(1, 2))):
        it["stdev"] = round(it["stdev"] * rng.choice([0.01, 0.1, 10.0, 100.0]), 6)


# ---- clusters with a PASSIVE observation followed by active ones with other standard deviations
#
# `Observation::stdDev()` reads the FULL covariance matrix of the cluster at `cluster_index`, the adjustment takes the
# sub-matrix of the active observations (`activeCov()`); the two agree only if `cluster_index` counts ALL observations
# (C09_weight_obs_is_own_variance).  An observation becomes passive in LocalNetwork::revision_observations():
#   (a) "lone-dir"   a station <obs> with a single direction in front of its distances (nothing to orient: dropped),
#   (b) "no-coords"  an observation to a point without coordinates that cannot be computed,
#   (c) "blunder"    an absolute term larger than tol-abs, removed by remove_huge_abs_terms().

def _dist_item(pts, a, b, sd, rng, off=0.0):
    return {"t": "distance", "to": b, "stdev": sd, "val": gen_net.dist2(pts[a], pts[b]) + rng.gauss(0, sd / 1e3) + off}


def passive_net(rng, mech, sds=(5.0, 3.0, 7.0, 2.0, 4.0, 9.0)):
    """two adjusted points Q, R trilaterated from F1..F3; `mech` puts a passive observation IN FRONT of active ones"""
    pts = _fixed_frame()
    pts["Q"] = {"x": 1090.0, "y": 1110.0, "status": "adj", "approx": True}
    pts["R"] = {"x": 1150.0, "y": 1180.0, "status": "adj", "approx": True}
    sd = lambda k: sds[k % len(sds)]
    st = {f: [] for f in ("F1", "F2", "F3")}
    k = 0
    for f in ("F1", "F2", "F3"):
        for t in ("Q", "R"):
            st[f].append(_dist_item(pts, f, t, sd(k), rng))
            k += 1
    extra = []
    if mech == "lone-dir":
        for f, t, sdd in (("F1", "Q", 10.0), ("F2", "R", 8.0)):
            st[f].insert(0, {"t": "direction", "to": t, "stdev": sdd,
                             "val": (gen_net.bearing(pts[f], pts[t]) * 200.0 / math.pi) % 400.0})
    elif mech == "no-coords":
        # one distance each to two points without coordinates: neither can be computed, both observations are dropped
        pts["X"] = {"status": "adj", "approx": False, "x": 0.0, "y": 0.0}
        pts["Y"] = {"status": "adj", "approx": False, "x": 0.0, "y": 0.0}
        st["F3"].insert(0, {"t": "distance", "to": "X", "stdev": 20.0, "val": 33.333})
        st["F1"].insert(1, {"t": "distance", "to": "Y", "stdev": 11.0, "val": 44.444})
    elif mech == "blunder":
        # the sound measurement of the same distance is taken from the other end, so that the reported observations
        # can be matched with the input in one way only (type + from + to)
        st["F3"] = [_dist_item(pts, "F3", "R", 20.0, rng, off=5.0)] + [it for it in st["F3"] if it["to"] != "R"]   # 5 m > tol-abs = 1 m
        st["F2"] = [_dist_item(pts, "F2", "Q", 15.0, rng, off=-7.5)] + [it for it in st["F2"] if it["to"] != "Q"]
        extra.append({"kind": "obs", "from": "R", "orient": 0.0, "items": [_dist_item(pts, "R", "F3", 6.0, rng)]})
        extra.append({"kind": "obs", "from": "Q", "orient": 0.0, "items": [_dist_item(pts, "Q", "F2", 2.5, rng)]})
    elif mech == "blunder-dh":
        for q, z in (("F1", 100.0), ("F2", 101.5), ("Q", 103.0), ("R", 99.0)):
            pts[q]["z"] = z
        pts["F1"]["status"] = "fix"
        its = [{"from": "F1", "to": "Q", "val": 3.0 + 5.0, "stdev": 12.0},          # blunder: passive, first
               {"from": "Q", "to": "F1", "val": -3.0005, "stdev": 1.0}, {"from": "Q", "to": "R", "val": -4.0007, "stdev": 2.0},
               {"from": "R", "to": "F2", "val": 2.5004, "stdev": 3.0}, {"from": "F2", "to": "Q", "val": 1.4996, "stdev": 1.5}]
        extra.append({"kind": "hdiffs", "items": its})
    elif mech in ("blunder-coords", "blunder-vectors"):
        corr = True
        if mech == "blunder-coords":
            n = 4
            cov = spd_cov(rng, n, corr, 3.0, 6.0)
            items = [{"id": "R", "x": pts["R"]["x"] + 5.0, "y": pts["R"]["y"] + 0.003},      # x of R: blunder, passive, first
                     {"id": "Q", "x": pts["Q"]["x"] - 0.002, "y": pts["Q"]["y"] + 0.004}]
            extra.append({"kind": "coords", "items": items, "cov": cov, "band": n - 1})
        else:
            for q, z in (("F1", 100.0), ("F2", 101.5), ("F3", 98.0), ("Q", 103.0), ("R", 99.0)):
                pts[q]["z"] = z
            n = 6
            cov = spd_cov(rng, n, corr, 2.0, 5.0)
            vec = lambda a, b, off=0.0: {"from": a, "to": b, "dx": pts[b]["x"] - pts[a]["x"] + off + rng.gauss(0, 2e-3),
                                         "dy": pts[b]["y"] - pts[a]["y"] + rng.gauss(0, 2e-3),
                                         "dz": pts[b]["z"] - pts[a]["z"] + rng.gauss(0, 2e-3)}
            extra.append({"kind": "vectors", "items": [vec("F1", "Q", off=6.0), vec("F2", "R")], "cov": cov, "band": n - 1})
            extra.append({"kind": "vectors", "items": [vec("F3", "Q"), vec("F3", "R")], "cov": spd_cov(rng, n, False, 2.0, 5.0), "band": 0})
    else:
        raise ValueError(mech)
    obs = [{"kind": "obs", "from": f, "orient": 0.0, "items": it} for f, it in st.items()] + extra
    return {"dim": 2, "points": pts, "obs": obs,
            "params": {"sigma-apr": 10, "conf-pr": 0.95, "tol-abs": 1000, "sigma-act": "aposteriori"}}


PASSIVE_MECHS = ("lone-dir", "no-coords", "blunder", "blunder-dh", "blunder-coords", "blunder-vectors")


def passive_random(rng):
    """a generated fixed 2D network (directions + distances) in which 1..3 observations are made passive by one of the
    three mechanisms, each IN FRONT of other observations of its <obs> cluster; every stdev of such a cluster differs"""
    npts = rng.randint(4, 6)
    net = gen_net.make_network(rng, npts=npts, nfixed=rng.randint(2, 3), noise=1.0, kinds=("direction", "distance"),
                               density=rng.uniform(0.7, 0.95), stdev_dir=rng.choice([5.0, 10.0, 20.0]),
                               stdev_dist=rng.choice([2.0, 5.0, 8.0]))
    pts = net["points"]
    mech = rng.choice(["lone-dir", "no-coords", "blunder", "blunder", "mixed"])
    blocks = [o for o in net["obs"] if o["kind"] == "obs" and sum(1 for it in o["items"] if it["t"] == "distance") >= 2]
    rng.shuffle(blocks)
    for o in blocks[:rng.randint(1, 3)]:
        m = rng.choice(["lone-dir", "no-coords", "blunder"]) if mech == "mixed" else mech
        for j, it in enumerate(o["items"]):                     # all standard deviations of the cluster different
            it["stdev"] = round(it["stdev"] * (1.0 + 0.37 * j), 4)
        if m == "lone-dir":
            dirs = [it for it in o["items"] if it["t"] == "direction"]
            keep = rng.choice(dirs) if dirs else None
            o["items"] = ([keep] if keep else []) + [it for it in o["items"] if it["t"] != "direction"]
            if keep is None:
                m = "blunder"
        if m == "no-coords":
            xid = "X" + o["from"]
            pts[xid] = {"status": "adj", "approx": False, "x": 0.0, "y": 0.0}
            o["items"].insert(rng.randint(0, max(0, len(o["items"]) - 2)),
                              {"t": "distance", "to": xid, "stdev": round(rng.uniform(11, 30), 3), "val": rng.uniform(20, 90)})
        if m == "blunder":
            cand = [j for j, it in enumerate(o["items"][:-1]) if it["t"] == "distance"]
            if cand:
                o["items"][rng.choice(cand)]["val"] += rng.choice([-1, 1]) * rng.uniform(3.0, 30.0)
                # Once ONE absolute term is huge, remove_huge_abs_terms() re-tests every observation -- directions and
                # angles on the vector b that prepareProjectEquations() has meanwhile homogenised in place (x sigma-apr/stdev),
                # so with sigma-apr/stdev >~ 100 ordinary directions are removed as well and the set of adjusted
                # observations depends on sigma-apr (candidate finding, see notes/reports/C09.md round 5).  That is not
                # the subject of this family: sigma-apr stays where the re-test of a 1-sigma direction cannot trip.
                # (registered as known finding C09-F3; sigma-apr is no longer capped for this family)
                net["blunder"] = True
    return "passive:" + mech, net


def gen_network(rng, quick=True, boundary=False):
    """returns (family, net) ; family names the generator branch"""
    r = rng.random()
    if boundary or r < 0.08:
        fam, net = diag_block_network(rng)
    elif r < 0.14:
        fam, net = passive_random(rng)
    elif r < 0.18:
        fam, net = net3d(rng)
    elif r < 0.32:
        dof = rng.choice([0, 0, 1, 1, 2, 3])
        net = small_dof_network(rng, dof)
        fam = f"smalldof{dof}"
        if net is None:
            return gen_network(rng, quick)
    elif r < 0.40:
        extra = rng.choice([0, 1, 2, 4])
        net = gen_net.levelling_network(rng, npts=rng.randint(3, 6), nfixed=1, extra=extra, noise=1.0,
                                        free=rng.random() < 0.3)
        for it in net["obs"][0]["items"]:
            it["stdev"] = round(math.sqrt(it.pop("dist")) * rng.choice([1.0, 2.0]), 4)
        fam = "level"
    elif r < 0.58:
        net = gen_net.make_network(rng, npts=rng.randint(4, 6), nfixed=0, free=True, noise=1.0,
                                   kinds=rng.choice([("direction", "distance"), ("distance",), ("direction", "distance", "angle")]),
                                   density=rng.uniform(0.5, 0.9),
                                   stdev_dir=rng.choice([5.0, 10.0, 20.0]), stdev_dist=rng.choice([2.0, 5.0, 8.0]))
        if rng.random() < 0.4:                      # constrain only a subset
            ids = list(net["points"])
            keep = set(rng.sample(ids, rng.randint(2, len(ids))))
            for p in ids:
                net["points"][p]["status"] = "con" if p in keep else "adj"
        fam = "free2d"
    elif r < 0.64:
        net = gen_net.make_network(rng, npts=rng.randint(4, 6), nfixed=2, noise=1.0, density=rng.uniform(0.5, 0.9))
        net = with_coords_cluster(rng, net, correlated=False)
        fam = "coords-diag"
    elif r < 0.67:
        net = gen_net.make_network(rng, npts=rng.randint(4, 6), nfixed=2, noise=1.0, density=rng.uniform(0.5, 0.9))
        net = with_coords_cluster(rng, net, correlated=True)
        fam = "coords-corr"
    else:
        kinds = rng.choice([("direction", "distance"), ("distance",), ("direction", "distance", "angle"),
                            ("direction", "distance", "azimuth")])
        npts = rng.randint(3, 7)
        net = gen_net.make_network(rng, npts=npts, nfixed=min(npts - 1, rng.randint(1 if "azimuth" in kinds else 2, 3)),
                                   noise=1.0, kinds=kinds,
                                   density=rng.uniform(0.4, 0.9),
                                   stdev_dir=rng.choice([5.0, 10.0, 20.0]), stdev_dist=rng.choice([2.0, 5.0, 8.0]))
        fam = "fixed2d"
    if rng.random() < 0.15:
        spread_stdevs(rng, net)
    net["params"]["sigma-apr"] = rng.choice(sigma_choices(net))
    net["params"]["conf-pr"] = rng.choice([0.5, 0.9, 0.95, 0.99, round(rng.uniform(0.02, 0.995), 3)])
    net["params"]["sigma-act"] = rng.choice(["apriori", "aposteriori"])
    return fam, net


def sigma_choices(net, lo=1e-3, hi=1e4):
    """values of sigma-apr with lo <= sigma-apr/stdev <= hi for every observation (the weights (sigma-apr/stdev)^2
    then span 1e-6 .. 1e8).  Below ~1.2e-4 envelope/cholesky refuse regular networks (finding C09-F2)."""
    fs = flat_stdevs(net) or []
    sds = [sd for sd, _ in fs if sd] or [1.0]
    ok = [s for s in SIGMAS if s / max(sds) >= lo and s / min(sds) <= hi and s <= net.get("sigma_max", float("inf"))]
    return ok or [10]


def flat_stdevs(net):
    """a priori standard deviations in the order gama numbers the observations, with band flag; None if unknown"""
    out = []
    for o in net["obs"]:
        if o["kind"] == "obs" or (o["kind"] == "hdiffs" and not o.get("cov")):
            for it in o["items"]:
                out.append((it.get("stdev"), 0))
        elif o["kind"] == "hdiffs":
            cov = o["cov"]
            for k in range(len(o["items"])):
                out.append((math.sqrt(cov[k][k]), o.get("band", len(cov) - 1)))
        elif o["kind"] == "vectors":
            cov = o.get("cov")
            for k in range(3 * len(o["items"])):
                out.append((math.sqrt(cov[k][k]) if cov else 1.0, (o.get("band", len(cov) - 1) if cov else 0)))
        elif o["kind"] == "coords":
            cov, k = o["cov"], 0
            for it in o["items"]:
                for c in ("x", "y", "z"):
                    if c in it:
                        out.append((math.sqrt(cov[k][k]), o.get("band", len(cov) - 1)))
                        k += 1
        else:
            return None
    return out


OBS_TAG = {"direction": "direction", "distance": "distance", "angle": "angle", "s-distance": "slope-distance",
           "z-angle": "zenith-angle", "azimuth": "azimuth"}


def flat_keys(net):
    """(result tag, from, to / id) of every observation of the input, parallel to flat_stdevs(net); None if unknown"""
    out = []
    for o in net["obs"]:
        if o["kind"] == "obs":
            for it in o["items"]:
                if it["t"] not in OBS_TAG:
                    return None
                out.append((OBS_TAG[it["t"]], o["from"], it.get("to")))
        elif o["kind"] == "hdiffs":
            for it in o["items"]:
                out.append(("height-diff", it["from"], it["to"]))
        elif o["kind"] == "vectors":
            for it in o["items"]:
                for c in ("dx", "dy", "dz"):
                    out.append((c, it["from"], it["to"]))
        elif o["kind"] == "coords":
            for it in o["items"]:
                for c in ("x", "y", "z"):
                    if c in it:
                        out.append(("coordinate-" + c, None, it["id"]))
        else:
            return None
    return out


def align_reported(net, stdevs, robs):
    """The reported observations are the ACTIVE ones, a subsequence (in input order) of the observations of the input.
    Returns (stdevs of the reported observations, None) when there is exactly one way to embed the reported list
    (type + from + to/id) into the input list, else (None, 'failed' | 'ambiguous')."""
    keys = flat_keys(net)
    if keys is None or stdevs is None or len(keys) != len(stdevs):
        return None, "failed"

    def match(k, o):
        if k[0] != o["t"]:
            return False
        rt = o.get("to") if o.get("to") is not None else o.get("id")
        return (k[1] is None or o.get("from") is None or k[1] == o.get("from")) and (k[2] is None or rt is None or k[2] == rt)

    left, i = [], 0
    for o in robs:
        while i < len(keys) and not match(keys[i], o):
            i += 1
        if i == len(keys):
            return None, "failed"
        left.append(i)
        i += 1
    right, i = [], len(keys) - 1
    for o in reversed(robs):
        while i >= 0 and not match(keys[i], o):
            i -= 1
        if i < 0:
            return None, "failed"
        right.append(i)
        i -= 1
    right.reverse()
    if left != right:
        return None, "ambiguous"
    return [stdevs[i] for i in left], None


# ------------------------------------------------------------------------------------ quantiles (oracle side)

def _betacf(a, b, x):
    qab, qap, qam = a + b, a + 1.0, a - 1.0
    c, d = 1.0, 1.0 - qab * x / qap
    d = 1.0 / (d if abs(d) > 1e-300 else 1e-300)
    h = d
    for m in range(1, 400):
        m2 = 2 * m
        aa = m * (b - m) * x / ((qam + m2) * (a + m2))
        d = 1.0 + aa * d
        d = 1.0 / (d if abs(d) > 1e-300 else 1e-300)
        c = 1.0 + aa / c
        c = c if abs(c) > 1e-300 else 1e-300
        h *= d * c
        aa = -(a + m) * (qab + m) * x / ((a + m2) * (qap + m2))
        d = 1.0 + aa * d
        d = 1.0 / (d if abs(d) > 1e-300 else 1e-300)
        c = 1.0 + aa / c
        c = c if abs(c) > 1e-300 else 1e-300
        de = d * c
        h *= de
        if abs(de - 1.0) < 1e-15:
            break
    return h


def _betai(a, b, x):
    if x <= 0:
        return 0.0
    if x >= 1:
        return 1.0
    bt = math.exp(math.lgamma(a + b) - math.lgamma(a) - math.lgamma(b) + a * math.log(x) + b * math.log(1 - x))
    if x < (a + 1) / (a + b + 2):
        return bt * _betacf(a, b, x) / a
    return 1.0 - bt * _betacf(b, a, 1 - x) / b


def student_upper(alpha, n):
    """t with P(T > t) = alpha, n degrees of freedom (0 < alpha < 0.5)"""
    lo, hi = 0.0, 1.0
    tail = lambda t: 0.5 * _betai(n / 2.0, 0.5, n / (n + t * t))
    while tail(hi) > alpha:
        hi *= 2
        if hi > 1e300:
            return float("inf")
    for _ in range(200):
        mid = (lo + hi) / 2
        if tail(mid) > alpha:
            lo = mid
        else:
            hi = mid
    return (lo + hi) / 2


def normal_upper(alpha):
    return -statistics.NormalDist().inv_cdf(alpha)


# ------------------------------------------------------------------------------------ XML result

def parse_xml(text):
    R = {}

    def num(tag, blk=text, conv=float):
        m = re.search(rf"<{tag}>\s*([^<\s]+)\s*</{tag}>", blk)
        return conv(m.group(1)) if m else None

    R["eq"], R["unk"] = num("equations", conv=int), num("unknowns", conv=int)
    R["dof"], R["defect"] = num("degrees-of-freedom", conv=int), num("defect", conv=int)
    R["ss"] = num("sum-of-squares")
    sd = re.search(r"<standard-deviation>(.*?)</standard-deviation>", text, re.S)
    if not sd or R["eq"] is None:
        return None
    sd = sd.group(1)
    R["apriori"], R["aposteriori"] = num("apriori", sd), num("aposteriori", sd)
    R["used"] = re.search(r"<used>(\w+)</used>", sd).group(1)
    R["prob"], R["ratio"], R["kki"] = num("probability", sd), num("ratio", sd), num("confidence-scale", sd)
    R["lower"], R["upper"] = num("lower", sd), num("upper", sd)
    adj = re.search(r"<adjusted>(.*?)</adjusted>", text, re.S).group(1)
    R["adj"], order = {}, []
    for pm in re.finditer(r"<point>(.*?)</point>", adj, re.S):
        blk = pm.group(1)
        pid = re.search(r"<id>(.*?)</id>", blk, re.S).group(1).strip()
        d = {}
        for c in ("x", "y", "z"):
            v = num(c, blk)
            if v is None:
                v = num(c.upper(), blk)
            if v is not None:
                d[c] = v
        R["adj"][pid] = d
        if "x" in d:
            order += [(pid, "x"), (pid, "y")]
        if "z" in d:
            order.append((pid, "z"))
    R["order"] = order
    R["ell"] = {}
    for em in re.finditer(r"<ellipse>\s*<id>(.*?)</id>\s*<major>(.*?)</major>\s*<minor>(.*?)</minor>\s*<alpha>(.*?)</alpha>", text, re.S):
        R["ell"][em.group(1).strip()] = tuple(float(em.group(k)) for k in (2, 3, 4))
    cm = re.search(r"<cov-mat>\s*<dim>(\d+)</dim>\s*<band>(\d+)</band>(.*?)</cov-mat>", text, re.S)
    dim, band = int(cm.group(1)), int(cm.group(2))
    flt = [float(x) for x in re.findall(r"<flt>(.*?)</flt>", cm.group(3))]
    cov, k = {}, 0
    for i in range(dim):
        for j in range(i, min(dim, i + band + 1)):
            cov[(i, j)] = cov[(j, i)] = flt[k]
            k += 1
    R["cov"], R["dim"], R["band"], R["nflt"] = cov, dim, band, (k, len(flt))
    R["ind"] = [int(x) for x in re.findall(r"<ind>(\d+)</ind>", text)]
    R["obs"] = []
    ob = re.search(r"<observations>(.*?)</observations>", text, re.S).group(1)
    for om in re.finditer(r"<(direction|distance|angle|height-diff|slope-distance|zenith-angle|azimuth|dx|dy|dz|coordinate-x|coordinate-y|coordinate-z)(?:\s[^>]*)?>(.*?)</\1>", ob, re.S):
        blk = om.group(2)
        d = {"t": om.group(1)}
        for k2 in ("obs", "adj", "stdev", "qrr", "f", "std-residual", "err-obs", "err-adj"):
            d[k2] = num(k2, blk)
        for k3 in ("id", "from", "to"):
            m = re.search(rf"<{k3}>(.*?)</{k3}>", blk)
            if m:
                d[k3] = m.group(1).strip()
        R["obs"].append(d)
    return R


ANGULAR = {"direction", "angle", "zenith-angle", "azimuth"}


def eig2(cxx, cxy, cyy):
    c = math.hypot(cxx - cyy, 2 * cxy)
    return (cxx + cyy + c) / 2, (cxx + cyy - c) / 2, c


def oracle_accessor(op, rep):
    """One harness line `kind inputs => reported` recomputed in Python from the definition (independent of the Lean
    model and of the translator).  Returns a list of (what, detail)."""
    t = op.split()
    kind, bad = t[0], []
    F = hex2float

    def close(what, got, want, rtol=1e-11, atol=0.0):
        if got != got and want != want:
            return
        if got == want:
            return
        if got != got or want != want or abs(got - want) > atol + rtol * max(abs(got), abs(want)):
            bad.append((what, f"reported={got!r} definition={want!r}"))

    try:
        if kind == "dof":
            r, c, d = int(t[1]), int(t[2]), int(t[3])
            if int(rep[0]) != r - c + d:
                bad.append(("accessor degrees_of_freedom = rows - cols + defect", f"reported={rep[0]} rows={r} cols={c} defect={d}"))
        elif kind == "m0":
            act, sapr, phi, dof = t[1], F(t[2]), F(t[3]), int(t[4])
            ap = math.sqrt(phi / dof) if dof > 0 and phi >= 0 else 0.0
            close("accessor m_0_aposteriori_value = sqrt(v'Pv/dof)", F(rep[1]), ap)
            close("accessor m_0 (selection by sigma-act)", F(rep[0]), sapr if act == "apriori" else ap)
        elif kind == "conf":
            act, dof, nv, sv = t[1], int(t[3]), F(t[5]), F(t[6])
            want = nv if act == "apriori" else (sv if dof > 0 else 0.0)
            close("accessor conf_int_coef = Normal | Student by sigma-act", F(rep[0]), want, rtol=0.0)
        elif kind == "unk":
            m0, q = F(t[1]), F(t[2])
            if q >= 0:
                close("accessor unknown_stdev = m0 sqrt(q_xx)", F(rep[0]), m0 * math.sqrt(q))
        elif kind == "obs":
            m0, sapr, qbb, sd, r = (F(x) for x in t[1:6])
            w, sl, qvv, sres, stud, f = (F(x) for x in rep[:6])
            p = (sapr / sd) ** 2
            close("accessor weight_obs = (sigma_apr/stdev)^2", w, p)
            if qbb >= 0:
                close("accessor stdev_obs = m0 sqrt(q_bb) stdev / sigma_apr", sl, m0 / sapr * math.sqrt(qbb) * sd)
                close("accessor obs_control = 100|1-sqrt(q_bb)|", f, 100 * abs(1 - math.sqrt(qbb)), atol=1e-12)
            qd = (1 - qbb) / p
            # q_vv = 1/p - q_L exactly as a relative statement: no absolute threshold may enter
            close("accessor wcoef_res = 1/p - q_L (clamped at 0 only when negative)", qvv, qd if qd >= 0 else 0.0)
            sr = m0 * math.sqrt(abs(qvv))
            close("accessor stdev_res = m0 sqrt(|q_vv|)", sres, sr)
            close("accessor studentized_residual = r/stdev_res", stud, (r / sres) if sres > 0 else 0.0)
        elif kind == "ell":
            cyy, cyx, cxx, m0 = (F(x) for x in t[1:5])
            a, b, al = (F(x) for x in rep[:3])
            l1, l2, c = eig2(cxx, cyx, cyy)
            tr = cxx + cyy
            if tr > 0 and cxx >= 0 and cyy >= 0:
                close("accessor ellipse a = m0 sqrt(larger eigenvalue)", a, m0 * math.sqrt(max(l1, 0.0)), rtol=1e-9)
                close("accessor ellipse b = m0 sqrt(smaller eigenvalue)", b * b, m0 * m0 * max(l2, 0.0), atol=1e-9 * m0 * m0 * tr, rtol=1e-9)
                u = (math.cos(al), math.sin(al))
                res = math.hypot(cxx * u[0] + cyx * u[1] - l1 * u[0], cyx * u[0] + cyy * u[1] - l1 * u[1])
                if res > 1e-9 * tr:
                    bad.append(("accessor ellipse: (cos alfa, sin alfa) is an eigenvector for the major axis",
                                f"alfa={al!r} cxx={cxx!r} cxy={cyx!r} cyy={cyy!r} |(C - l1 I)u|={res:.3e} trace={tr:.3e}"))
            if not (0 <= al <= math.pi):
                bad.append(("accessor ellipse alfa in [0, pi)", repr(al)))
        elif kind == "cidx":
            # the observation at position k of its cluster's list (found by pointer search, counting ALL observations):
            # cluster_index is that position and Observation::stdDev() the square root of ITS OWN variance,
            # whatever the activity of the other observations of the cluster
            k, flags, diag = int(t[1]), t[2], [F(x) for x in t[3:]]
            if not (0 <= k < len(flags)) or len(diag) != len(flags):
                bad.append(("observation not found in its cluster's list / covariance dimension differs from the list",
                            f"position={k} observations={len(flags)} cov-dim={len(diag)}"))
            else:
                if rep[0] != str(k):
                    bad.append(("cluster_index = position of the observation in the full list of its cluster",
                                f"reported={rep[0]} position={k} active flags={flags}"))
                close("Observation::stdDev() = sqrt(own variance), independent of passive observations in the cluster",
                      F(rep[1]), math.sqrt(diag[k]) if diag[k] >= 0 else float("nan"), rtol=1e-15)
    except (ValueError, IndexError, ZeroDivisionError, OverflowError) as e:
        bad.append(("accessor line unreadable", f"{op} => {rep}: {e!r}"))
    return bad


def seeded_rule_differs(op):
    """a `cidx` line on which an index that counts ACTIVE observations only (seeded change C09-seed4) would read another
    variance: some earlier observation of the cluster is passive and the variance at (number of active before k) differs"""
    t = op.split()
    try:
        k, flags, diag = int(t[1]), t[2], [hex2float(x) for x in t[3:]]
        a = flags[:k].count("1")
        return a != k and 0 <= k < len(diag) and diag[a] != diag[k]
    except (ValueError, IndexError):
        return False


def oracle_xml(R, net, stdevs):
    """every numeric field of the result recomputed from the other fields; returns (list of (what, detail), nchecks, maxima)"""
    bad, n, mx = [], 0, {}

    def chk(what, got, want, atol=0.0, rtol=0.0, key=None):
        nonlocal n
        n += 1
        if got is None or want is None or got != got:
            bad.append((what, f"missing/NaN got={got} want={want}"))
            return
        err = abs(got - want)
        lim = atol + rtol * max(abs(got), abs(want))
        if key:
            mx[key] = max(mx.get(key, 0.0), err / lim if lim > 0 else (0.0 if err == 0 else float("inf")))
        if err > lim:
            bad.append((what, f"reported={got!r} recomputed={want!r} |diff|={err:.3e} allowed={lim:.3e}"))

    par = net["params"]
    sapr = float(par["sigma-apr"])
    chk("apriori = sigma-apr of the input", R["apriori"], sapr, rtol=2e-7)
    n += 1
    if R["used"] != par["sigma-act"]:
        bad.append(("used", f"{R['used']} != {par['sigma-act']}"))
    n += 1
    if R["dof"] != R["eq"] - R["unk"] + R["defect"]:
        bad.append(("degrees-of-freedom", f"dof={R['dof']} equations={R['eq']} unknowns={R['unk']} defect={R['defect']}"))
    dof = R["dof"]
    want = math.sqrt(R["ss"] / dof) if dof > 0 else 0.0
    chk("aposteriori = sqrt(sum-of-squares/dof)", R["aposteriori"], want, rtol=3e-7, atol=1e-12, key="m0")
    chk("ratio = aposteriori/apriori", R["ratio"], (R["aposteriori"] / R["apriori"]) if dof != 0 else 0.0,
        atol=6e-4, rtol=2e-7, key="ratio")
    chk("probability = conf-pr", R["prob"], float(par["conf-pr"]), atol=6e-4)
    alpha = (1 - float(par["conf-pr"])) / 2
    if R["used"] == "apriori":
        kk = normal_upper(alpha)
    else:
        kk = student_upper(alpha, dof) if dof > 0 else 0.0
    # accuracy of the quantile VALUES is C17's subject; this tolerance separates Normal from Student(dof)
    # and Student(dof) from Student(dof +- 1) for the dof generated here
    chk(f"confidence-scale = {'Normal' if R['used'] == 'apriori' else 'Student'}((1-p)/2{'' if R['used'] == 'apriori' else ',dof'})",
        R["kki"], kk, rtol=2e-4, atol=1e-9, key="kki")
    m0 = R["apriori"] if R["used"] == "apriori" else R["aposteriori"]
    m0x = sapr if R["used"] == "apriori" else want           # better precision than the printed 8 digits
    n += 1
    if R["nflt"][0] != R["nflt"][1] or R["dim"] != R["unk"]:
        bad.append(("cov-mat shape", f"dim={R['dim']} unknowns={R['unk']} flt={R['nflt']}"))
        return bad, n, mx
    cov, idx = R["cov"], {k: i for i, k in enumerate(R["order"])}
    for i in range(R["dim"]):
        n += 1
        if cov[(i, i)] < 0:
            bad.append(("cov-mat diagonal", f"{i}: {cov[(i, i)]}"))
    # ellipses <- cov-mat
    for pid, (a, b, al) in R["ell"].items():
        if (pid, "x") not in idx:
            bad.append(("ellipse of a point without adjusted xy", pid))
            continue
        ix, iy = idx[(pid, "x")], idx[(pid, "y")]
        if (ix, iy) not in cov:
            continue
        cxx, cxy, cyy = cov[(ix, ix)], cov[(ix, iy)], cov[(iy, iy)]
        l1, l2, c = eig2(cxx, cxy, cyy)
        tr = cxx + cyy
        chk(f"ellipse {pid} major^2 = larger eigenvalue of cov", a * a, l1, rtol=4e-7, atol=1e-300, key="ell")
        chk(f"ellipse {pid} minor^2 = smaller eigenvalue of cov", b * b, max(l2, 0.0), atol=4e-7 * tr + 1e-300, key="ell")
        n += 1
        # over the reals 0 <= alpha < pi (C09_ellipse_eigen); in double, atan2(..)/2 = -tiny gives -tiny + M_PI == M_PI
        if not (0 <= al <= math.pi):
            bad.append((f"ellipse {pid} alpha range", repr(al)))
        if al == math.pi:
            mx["alpha_rounded_to_pi"] = mx.get("alpha_rounded_to_pi", 0) + 1
        if tr > 0:
            u = (math.cos(al), math.sin(al))
            r0 = cxx * u[0] + cxy * u[1] - l1 * u[0]
            r1 = cxy * u[0] + cyy * u[1] - l1 * u[1]
            chk(f"ellipse {pid}: (cos alpha, sin alpha) eigenvector of cov for the major axis", math.hypot(r0, r1), 0.0,
                atol=1e-6 * tr, key="ell")
        n += 1
        if not (b <= a * (1 + 1e-12)) or b < 0:
            bad.append((f"ellipse {pid} a >= b >= 0", f"{a} {b}"))
    n += 1
    if len(R["ell"]) != sum(1 for k in R["order"] if k[1] == "x"):
        bad.append(("ellipse count", f"{len(R['ell'])} ellipses, {sum(1 for k in R['order'] if k[1] == 'x')} xy points"))
    # observations: when some are passive (not reported) the input standard deviations are aligned with the reported list
    if stdevs is not None and len(stdevs) != len(R["obs"]) and len(R["obs"]) == R["eq"]:
        stdevs, why = align_reported(net, stdevs, R["obs"])
        mx["obs_align_" + (why or "ok")] = mx.get("obs_align_" + (why or "ok"), 0) + 1
    if stdevs is None or len(stdevs) != len(R["obs"]) or len(R["obs"]) != R["eq"]:
        mx["obs_skipped"] = mx.get("obs_skipped", 0) + 1
        return bad, n, mx
    for k, (o, (sd, band)) in enumerate(zip(R["obs"], stdevs)):
        if sd is None:
            continue
        unit = 10000.0 if o["t"] in ANGULAR else 1000.0
        v = o["adj"] - o["obs"]
        if o["t"] in ANGULAR:
            v = (v + 200.0) % 400.0 - 200.0
        v *= unit
        p = (sapr / sd) ** 2
        tag = f"obs {k + 1} <{o['t']}>"
        # adjusted coordinate observation == adjusted coordinate: same standard deviation as the unknown
        if o["t"].startswith("coordinate-") and "id" in o and (o["id"], o["t"][-1]) in idx:
            i = idx[(o["id"], o["t"][-1])]
            chk(f"{tag} stdev of adjusted coordinate observation = sqrt(cov-mat diagonal) (band={band})",
                o["stdev"], math.sqrt(max(cov[(i, i)], 0.0)), rtol=2e-7, atol=1e-9, key="sigmaL_coord")
        # dx, dy, dz, height-diff are exactly linear: adjusted value = unknown(to) - unknown(from)
        comp = {"dx": "x", "dy": "y", "dz": "z", "height-diff": "z"}.get(o["t"])
        if comp and "from" in o and "to" in o:
            ks = [(idx.get((o["to"], comp)), 1.0), (idx.get((o["from"], comp)), -1.0)]
            ks = [(i, a) for i, a in ks if i is not None]
            if all((i, j) in cov for i, _ in ks for j, _ in ks):
                var = sum(a * b * cov[(i, j)] for i, a in ks for j, b in ks)
                sc = sum(cov[(i, i)] for i, _ in ks)
                chk(f"{tag} stdev of adjusted linear observation = sqrt(a' cov-mat a) (band={band})",
                    o["stdev"] ** 2, max(var, 0.0), rtol=1e-6, atol=1e-6 * sc + 1e-12, key="sigmaL_linear")
        if band != 0:
            continue
        if m0x > 0:
            qL = (o["stdev"] / m0x) ** 2
            qbb = qL * p
            chk(f"{tag} qrr = 1/p - q_L", o["qrr"], max(1 / p - qL, 0.0), atol=6e-4 + 1e-6 / p, key="qrr")
            chk(f"{tag} f = 100|1-sqrt(q_L p)|", o["f"], 100 * abs(1 - math.sqrt(qbb)), atol=6e-4 + 1e-4, key="f")
            qvv = max(1 / p - qL, 0.0)
            if o["std-residual"] is not None and qvv > 1e-9 / p:
                sres = m0x * math.sqrt(qvv)
                rel = 1e-6 + 2e-6 / (p * qvv)
                chk(f"{tag} std-residual = |v|/(m0 sqrt(qrr))", o["std-residual"], abs(v) / sres,
                    atol=6e-4 + 1e-9 / sres, rtol=rel, key="stdres")
                if o["err-obs"] is not None:
                    em = v / (qvv * p)
                    chk(f"{tag} err-obs = v/(qrr p)", o["err-obs"], em, atol=6e-4 + 1e-9 / (qvv * p), rtol=rel, key="err")
                    chk(f"{tag} err-adj = err-obs - v", o["err-adj"], em - v, atol=1.2e-3 + 1e-9 / (qvv * p), rtol=rel, key="err")
            n += 1
            # f is printed with 3 decimals: 0.0996 is printed as 0.100 (seen once in 12 000 networks)
            if abs(o["f"] - 0.1) > 5.01e-4 and (o["std-residual"] is None) != (o["f"] < 0.1):
                bad.append((f"{tag} std-residual present iff f >= 0.1", f"f={o['f']}"))
        else:
            chk(f"{tag} stdev with m0 = 0", o["stdev"], 0.0)
    return bad, n, mx


def oracle_text(R, text):
    """confidence half-widths of the text listing = standard deviation x confidence-scale (1 decimal printed)"""
    bad, n = [], 0
    pos = {orig: k for k, orig in enumerate(R["ind"])}
    kki = R["kki"]
    num = r"(-?\d+\.\d+(?:e[-+]?\d+)?)"

    def cmp(what, sd_txt, ci_txt, sd):
        nonlocal n
        n += 2
        if sd >= 999 or sd * kki >= 999:
            return
        if abs(sd_txt - sd) > 0.0501 + 1e-6 * sd:
            bad.append((what + " std.dev", f"printed={sd_txt} xml={sd!r}"))
        if abs(ci_txt - sd * kki) > 0.0501 + 1e-6 * sd * kki:
            bad.append((what + " conf.i. = std.dev x confidence-scale", f"printed={ci_txt} std.dev={sd!r} scale={kki!r} product={sd * kki!r}"))

    sec = re.search(r"\nAdjusted coordinates\n\*+\n(.*?)\n\n\n", text, re.S)
    if sec and len(R["ind"]) == R["dim"]:
        for m in re.finditer(rf"^\s*(\d+)\s+[xyzXYZ*]+\s+{num}\s+{num}\s+{num}\s+{num}\s+{num}\s*$", sec.group(1), re.M):
            i = int(m.group(1))
            if i in pos:
                cmp(f"text: unknown {i}", float(m.group(5)), float(m.group(6)), math.sqrt(max(R["cov"][(pos[i], pos[i])], 0.0)))
    sec = re.search(r"\nAdjusted observations\n\*+\n(.*?)\n\n\n", text, re.S)
    if sec:
        for m in re.finditer(rf"^\s*(\d+)\s.*?\s{num}\s+{num}\s*$", sec.group(1), re.M):
            i = int(m.group(1))
            if 1 <= i <= len(R["obs"]) and R["obs"][i - 1]["stdev"] is not None:
                cmp(f"text: adjusted observation {i}", float(m.group(2)), float(m.group(3)), R["obs"][i - 1]["stdev"])
    return bad, n


def oracle_pair(R1, R2, s1, s2):
    """same network, sigma-apr s1 vs s2: only v'Pv and the quantities relative to sigma-apr change"""
    bad, n = [], 0

    def chk(what, a, b, atol=0.0, rtol=0.0):
        nonlocal n
        n += 1
        if a is None or b is None:
            if a is not b:
                bad.append((what, f"{a} vs {b}"))
            return
        if abs(a - b) > atol + rtol * max(abs(a), abs(b)):
            bad.append((what, f"sigma-apr={s1}: {a!r}   sigma-apr={s2}: {b!r}"))

    k = (s2 / s1) ** 2
    for f in ("eq", "unk", "dof", "defect"):
        chk(f, R1[f], R2[f])
    chk("sum-of-squares scales with sigma-apr^2", R1["ss"] * k, R2["ss"], rtol=1e-6, atol=1e-15)
    chk("aposteriori scales with sigma-apr", R1["aposteriori"] * s2 / s1, R2["aposteriori"], rtol=1e-6, atol=1e-12)
    chk("ratio", R1["ratio"], R2["ratio"], atol=1.1e-3)
    chk("confidence-scale", R1["kki"], R2["kki"], rtol=1e-6)
    for pid, d in R1["adj"].items():
        for c, v in d.items():
            chk(f"adjusted {pid}.{c}", v, R2["adj"].get(pid, {}).get(c), atol=1e-9)
    for pid, e in R1["ell"].items():
        e2 = R2["ell"].get(pid)
        if e2 is None:
            bad.append(("ellipse missing", pid))
            continue
        chk(f"ellipse {pid} major", e[0], e2[0], rtol=1e-6, atol=1e-12)
        chk(f"ellipse {pid} minor", e[1], e2[1], rtol=1e-5, atol=1e-7 * e[0] + 1e-12)
        if e[0] - e[1] > 1e-3 * e[0]:
            d = abs(e[2] - e2[2])
            chk(f"ellipse {pid} alpha", min(d, math.pi - d), 0.0, atol=1e-5 * e[0] / (e[0] - e[1]))
    if R1["dim"] == R2["dim"]:
        sc = max([abs(v) for v in R1["cov"].values()] + [1e-300])
        for key, v in R1["cov"].items():
            if key[0] <= key[1]:
                chk(f"cov-mat {key}", v, R2["cov"].get(key), rtol=1e-6, atol=1e-7 * sc)
    if len(R1["obs"]) == len(R2["obs"]):
        for i, (a, b) in enumerate(zip(R1["obs"], R2["obs"])):
            chk(f"obs {i + 1} adj", a["adj"], b["adj"], atol=1e-9)
            chk(f"obs {i + 1} stdev", a["stdev"], b["stdev"], rtol=1e-6, atol=1e-9)
            chk(f"obs {i + 1} qrr scales with 1/sigma-apr^2", a["qrr"] / k, b["qrr"], atol=6e-4 * (1 + 1 / k), rtol=1e-6)
            chk(f"obs {i + 1} f", a["f"], b["f"], atol=2e-3)
            if a["std-residual"] is not None and b["std-residual"] is not None:
                chk(f"obs {i + 1} std-residual", a["std-residual"], b["std-residual"], atol=1.1e-3, rtol=1e-5)
    else:
        bad.append(("observation count", f"{len(R1['obs'])} vs {len(R2['obs'])}"))
    return bad, n


# ------------------------------------------------------------------------------------ running

def libgama_objects(ctx):
    d = ctx.build_gama(sanitize=False)
    objs = sorted(str(p) for p in (d / "CMakeFiles" / "libgama.dir").rglob("*.o"))
    if not objs:
        raise BuildError("libgama objects", f"no object files under {d}")
    return d, objs


def run_gama(gama, gkf_path, xml_path, text_path="/dev/null"):
    rc, out, err = sh([str(gama), str(gkf_path), "--xml", str(xml_path), "--text", str(text_path)], timeout=120)
    if rc != 0 or not Path(xml_path).exists():
        return None, rc, (out + err)[-400:]
    t = Path(xml_path).read_text(errors="replace")
    return (parse_xml(t) if "<network-processing-summary>" in t else None), rc, t[-300:]


def split_harness(lines):
    """harness lines -> (driver op lines, expected token lists, comments)"""
    ops, exp, com = [], [], []
    for l in lines:
        body, _, c = l.partition("#")
        if "=>" not in body:
            continue
        a, b = body.split("=>")
        ops.append(a.strip())
        exp.append(b.split())
        com.append(c.strip())
    return ops, exp, com


def build_cases(ctx, tmp, count):
    """list of dicts: family, net, alg, path"""
    cases = []
    corpus = ctx.verif / "corpus" / "C09"
    for f in sorted(corpus.glob("*.json")):
        j = json.loads(f.read_text())
        cases.append({"fam": "corpus:" + f.stem, "net": j["net"], "alg": j.get("alg", "gso"), "sigma_apr_2": j.get("sigma_apr_2")})
    while len(cases) < count:
        fam, net = gen_network(ctx.rng)
        cases.append({"fam": fam, "net": net, "alg": ctx.rng.choice(ALGS)})
    for i, c in enumerate(cases):
        c["path"] = tmp / f"n{i}.gkf"
        c["path"].write_text(gen_net.to_gkf(c["net"], algorithm=c["alg"], nd=10))
    return cases


def payload(c, extra=None):
    p = {"net": c["net"], "alg": c["alg"], "family": c["fam"]}
    if extra:
        p.update(extra)
    return p


def check_cases(ctx, corr, cases, exe, gama, tmp, do_pairs=True, prefix="n"):
    # ---- correspondence: in-process accessors vs model at Float
    impl, crashes = run_cases(exe, [[f"load {c['path']} -"] for c in cases], timeout=900)
    drv_cases, meta = [], []
    for i, c in enumerate(cases):
        if i in crashes:
            corr.fail("c09 harness crashed (sanitizer / abort) while adjusting a generated network",
                      payload(c), "LocalNetwork", crashes[i][1])
            continue
        if not impl[i] or impl[i][0].startswith("fail"):
            corr.count("harness_refused:" + (impl[i][0] if impl[i] else "no-output"))
            c["refused"] = True
            continue
        ops, exp, com = split_harness(impl[i])
        c["lines"] = (ops, exp)
        drv_cases.append(ops)
        meta.append((i, exp, com))
        abad = []
        for op, e in zip(ops, exp):
            abad += [(w, d + "   [" + op.split()[0] + " line of the in-process LocalNetwork]") for w, d in oracle_accessor(op, e)]
            if op.startswith("ell "):
                cyy, cyx, cxx = (hex2float(x) for x in op.split()[1:4])
                corr.count("ellipse_block_" + ("exact_diag_" + ("circle" if cyy == cxx else "y>x" if cyy > cxx else "x>y")
                                               if cyx == 0.0 else "general"))
            if op.startswith("cidx "):
                tt = op.split()
                if "0" in tt[2]:
                    corr.count("obs_in_cluster_with_passive")
                if "0" in tt[2][:int(tt[1])] if tt[1].isdigit() else False:
                    corr.count("obs_after_passive_in_cluster")
                if seeded_rule_differs(op):
                    corr.count("obs_after_passive_with_other_variance")
                    c["sensitive"] = True
            if op.startswith("obs "):
                tt = op.split()
                q = abs(hex2float(e[2]))
                corr.count("qvv_decade_" + ("0" if q == 0 else "<1e-9" if q < 1e-9 else "<1e-6" if q < 1e-6 else "<1e-3" if q < 1e-3
                                            else "<1" if q < 1 else "<1e3" if q < 1e3 else ">=1e3"))
        corr.count("accessor_definitions_checked", len(ops))
        if abad:
            corr.fail("LocalNetwork accessor differs from its definition: " + abad[0][0],
                      payload(c, {"violations": [list(b) for b in abad[:8]], "oracle": "accessor"}),
                      "LocalNetwork statistics accessors", "\n".join(f"{a}: {b}" for a, b in abad[:8]))
    model, mcr = run_cases(ctx.driver("drv_stats"), drv_cases)
    maxdev = 0.0
    for k, (i, exp, com) in enumerate(meta):
        c = cases[i]
        ops = drv_cases[k]
        if k in mcr or len(model[k]) != len(ops):
            corr.disagree("stats", ops[:5], ["<%d lines>" % len(exp)], model[k][:5], "driver crashed / line count")
            continue
        kinds = {}
        for j, (op, e, mline) in enumerate(zip(ops, exp, model[k])):
            kind = op.split()[0]
            kinds[kind] = kinds.get(kind, 0) + 1
            mt = mline.split()
            corr.case(key=(i, j) if kind != "dof" or True else None,
                      sample={"op": op, "impl": e, "model": mline, "family": c["fam"], "alg": c["alg"]}
                      if (len(corr.samples) < 4 and kind in ("ell", "obs", "m0", "conf") and kind not in
                          [s.get("op", "").split()[0] for s in corr.samples]) else None)
            ok = len(mt) == len(e) + 1 and mt[0] in ("ok", "int")
            if ok:
                for x, y in zip(e, mt[1:]):
                    if is_hex(x) and is_hex(y):
                        a, b = hex2float(x), hex2float(y)
                        if a == b or (a != a and b != b):
                            continue
                        d = abs(a - b) / max(abs(a), abs(b))
                        maxdev = max(maxdev, d)
                        if not d <= 1e-12:
                            ok = False
                    elif x != y:
                        ok = False
            if not ok:
                corr.disagree("stats:" + kind, [op], [" ".join(e)], [mline],
                              f"family={c['fam']} alg={c['alg']} sigma-act={c['net']['params']['sigma-act']}")
                c.setdefault("disagree", []).append(op)
            if kind == "obs" and len(e) == 6:
                qv = hex2float(e[2])
                if qv == 0.0:
                    corr.count("qvv_zero_or_clamped")
            if kind == "ell":
                corr.count("ellipses")
        for kd, v in kinds.items():
            corr.count("accessor_" + kd, v)
        c["dof_line"] = impl[i][0]
    corr.maxstat("max_rel_dev_model_vs_impl", maxdev)
    corr.stats.setdefault("max_rel_dev_model_vs_impl", 0.0)

    # ---- conf_pr(double) guard: accepted exactly on (0,1)
    ps = [0.0, 1.0, -0.0, -1e-300, 5e-324, 1 - 2 ** -53, 1 + 2 ** -52, 0.5, 0.95, 2.0, -3.0, float("inf"), float("-inf"), float("nan")]
    ps += [ctx.rng.uniform(-0.5, 1.5) for _ in range(40)]
    acc = [[f"accept {float2hex(p)}" for p in ps]]
    ai, acr = run_cases(exe, acc)
    am, _ = run_cases(ctx.driver("drv_stats"), acc)
    for p, a, b in zip(ps, ai[0], am[0]):
        corr.case(key=("accept", float2hex(p)))
        if a != b:
            corr.disagree("stats:conf_pr-guard", [f"accept {p!r}"], [a], [b])
        if p == p and (a == "flag 1") != (0 < p < 1):     # NaN: not a real number, outside the property (model and C++ both store it)
            corr.fail("conf_pr(double) accepts a probability outside (0,1) or refuses one inside", {"conf_pr": repr(p), "impl": a},
                      "LocalNetwork::conf_pr")
    if acr or len(ai[0]) != len(ps):
        corr.disagree("stats:conf_pr-guard", acc[0][:3], ai[0][:3], am[0][:3], "harness crashed / line count")

    # ---- oracle on the XML result of gama-local
    for i, c in enumerate(cases):
        xmlp = tmp / f"{prefix}{i}.xml"
        txtp = tmp / f"{prefix}{i}.txt"
        R, rc, tail = run_gama(gama, c["path"], xmlp, txtp)
        c["R"] = R
        par = c["net"]["params"]
        if R is None:
            corr.count("gama_no_result")
            if not c.get("refused"):
                corr.count("gama_refused_but_harness_adjusted")
            continue
        corr.count("family_" + c["fam"].split(":")[0])
        corr.count("alg_" + c["alg"])
        corr.count("act_" + par["sigma-act"])
        corr.count("dof_%s" % (R["dof"] if R["dof"] < 3 else "3+"))
        corr.count("defect_%d" % R["defect"])
        bad, n, mx = oracle_xml(R, c["net"], flat_stdevs(c["net"]))
        for _ in range(n):
            corr.case(key=None)
        corr.nontrivial.add(("xml", i, n))
        corr.count("xml_fields_checked", n)
        for kx, vx in mx.items():
            if kx == "obs_skipped":
                corr.count("xml_obs_checks_skipped", vx)
            elif kx.startswith("obs_align_"):
                corr.count("xml_passive_networks_" + kx[4:], vx)
            elif kx == "alpha_rounded_to_pi":
                corr.count("ellipse_alpha_rounded_to_M_PI", vx)
            else:
                corr.maxstat("max_err_over_allowed_" + kx, round(vx, 4))
        if txtp.exists():
            bt, nt = oracle_text(R, txtp.read_text(errors="replace"))
            bad += bt
            n += nt
            corr.count("text_halfwidths_checked", nt // 2)
            for _ in range(nt):
                corr.case(key=None)
        if bad:
            corr.fail("result field inconsistent with the other fields: " + bad[0][0],
                      payload(c, {"violations": [list(b) for b in bad[:8]], "oracle": "xml"}),
                      "LocalNetworkXML / LocalNetwork statistics", "\n".join(f"{a}: {b}" for a, b in bad[:8]))
    # ---- metamorphic pair: same network, another sigma-apr
    if do_pairs:
        npairs = 0
        for i, c in enumerate(cases):
            if c.get("R") is None or npairs >= ctx.size(150, 3000):
                continue
            s1 = float(c["net"]["params"]["sigma-apr"])
            s2 = c.get("sigma_apr_2") or ctx.rng.choice([s for s in sigma_choices(c["net"]) if s != s1] or [s1 * 3])
            net2 = copy.deepcopy(c["net"])
            net2["params"]["sigma-apr"] = s2
            p2 = tmp / f"{prefix}{i}b.gkf"
            p2.write_text(gen_net.to_gkf(net2, algorithm=c["alg"], nd=10))
            R2, rc, tail = run_gama(gama, p2, tmp / f"{prefix}{i}b.xml")
            npairs += 1
            if R2 is None:
                corr.fail("changing only sigma-apr turns an adjustable network into a refused one",
                          payload(c, {"sigma_apr_2": s2, "oracle": "pair"}), "gama-local", tail)
                continue
            bad, n = oracle_pair(c["R"], R2, s1, s2)
            for _ in range(n):
                corr.case(key=None)
            corr.nontrivial.add(("pair", i, n))
            corr.count("sigma_apr_pairs")
            corr.count("pair_fields_checked", n)
            if bad:
                corr.fail("changing only sigma-apr changes more than v'Pv: " + bad[0][0],
                          payload(c, {"sigma_apr_2": s2, "violations": [list(b) for b in bad[:8]], "oracle": "pair"}),
                          "LocalNetwork (sigma-apr scaling)", "\n".join(f"{a}: {b}" for a, b in bad[:8]))


# ------------------------------------------------------------------------------------ structured networks (always on)
#
# Deterministic networks that sit ON the guards of the formulas (they do not depend on the seed):
#   * points whose 2x2 cofactor block is exactly diagonal with q_yy > q_xx, q_xx > q_yy, q_xx == q_yy
#     (C09_ellipse_is_eigen_full / C09_ellipse_guard_boundary: bearing pi/2, 0, 0), all four algorithms;
#   * the same network adjusted with sigma-apr 1, 1000 and 0.001 (weights x 1e6, x 1e-6), every accessor and every
#     XML field compared with the exact scaling law of C09_residual_cofactor_scale_free / C09_m0_guard_full /
#     C09_ellipse_scale_free (gso and svd only: envelope / cholesky test pivots against an absolute tolerance,
#     known finding C09-F2).

def _fixed_frame():
    return {"F1": {"x": 1000.0, "y": 1000.0, "status": "fix", "approx": True},
            "F2": {"x": 1200.0, "y": 1050.0, "status": "fix", "approx": True},
            "F3": {"x": 1100.0, "y": 1300.0, "status": "fix", "approx": True}}


def _trilaterated(rng, pts, pid, xy, sds, extra=1):
    """point `pid` at `xy` fixed by distances to F1..F3 (+ `extra` repeated ones) with standard deviations from `sds`"""
    q = {"x": xy[0], "y": xy[1], "status": "adj", "approx": True}
    pts[pid] = q
    items = []
    for k, f in enumerate(("F1", "F2", "F3", "F1", "F2")[:3 + extra]):
        sd = sds[k % len(sds)]
        items.append({"t": "distance", "to": f, "stdev": sd, "val": gen_net.dist2(q, pts[f]) + rng.gauss(0, sd / 1e3)})
    return {"kind": "obs", "from": pid, "orient": 0.0, "items": items}


def diag_block_fixed(rng, shape, how, sx=2.0, ratio=3.0, cov2=None, q_scale=1.0):
    """one trilaterated point Q (so that dof > 0) and one point D whose 2x2 block is determined only by
    <coordinates> / <vectors> with the covariance `cov2` (default: diagonal, variances ordered by `shape`)"""
    pts = _fixed_frame()
    obs = [_trilaterated(rng, pts, "Q", (1090.0, 1110.0), (1.0 * q_scale, 3.0 * q_scale, 5.0 * q_scale))] if q_scale else []
    sy = sx if shape == "circle" else (sx * ratio if shape == "y>x" else sx / ratio)
    cov = cov2 or [[sx ** 2, 0.0], [0.0, sy ** 2]]
    band = 0 if cov[0][1] == 0.0 else 1
    p = {"x": 1500.0, "y": 2400.0, "status": "adj", "approx": True}
    pts["D"] = p
    ex, ey = math.sqrt(cov[0][0]) / 1e3, math.sqrt(cov[1][1]) / 1e3
    if how in ("coords", "coords2"):
        for rep in range(2 if how == "coords2" else 1):
            obs.append({"kind": "coords", "band": band, "cov": [list(cov[0]), list(cov[1])],
                        "items": [{"id": "D", "x": p["x"] + rng.gauss(0, ex), "y": p["y"] + rng.gauss(0, ey)}]})
    else:                                                            # "vector": 3D point tied to a fixed 3D point
        pts["G"] = {"x": 900.0, "y": 1900.0, "z": 100.0, "status": "fix", "approx": True}
        p["z"] = 120.0
        g = pts["G"]
        c3 = [[cov[0][0], cov[0][1], 0.0], [cov[1][0], cov[1][1], 0.0], [0.0, 0.0, 4.0]]
        for rep in range(2):
            obs.append({"kind": "vectors", "band": 0 if band == 0 else 2, "cov": c3,
                        "items": [{"from": "G", "to": "D", "dx": p["x"] - g["x"] + rng.gauss(0, ex),
                                   "dy": p["y"] - g["y"] + rng.gauss(0, ey), "dz": p["z"] - g["z"] + rng.gauss(0, 2e-3)}]})
    return {"dim": 2, "points": pts, "obs": obs,
            "params": {"sigma-apr": 10, "conf-pr": 0.95, "tol-abs": 1000, "sigma-act": "aposteriori"}}


def trilat_pair_network(rng, sds=(1.0,), dof_extra=2):
    """two unknown points, distances to three fixed points and between them (all standard deviations from `sds`)"""
    pts = _fixed_frame()
    obs = [_trilaterated(rng, pts, "Q", (1090.0, 1110.0), sds, extra=dof_extra),
           _trilaterated(rng, pts, "R", (1150.0, 1180.0), sds[::-1], extra=1)]
    sd = sds[0]
    obs[0]["items"].append({"t": "distance", "to": "R", "stdev": sd,
                            "val": gen_net.dist2(pts["Q"], pts["R"]) + rng.gauss(0, sd / 1e3)})
    return {"dim": 2, "points": pts, "obs": obs,
            "params": {"sigma-apr": 10, "conf-pr": 0.95, "tol-abs": 1000, "sigma-act": "aposteriori"}}


TRIPLE_SIGMAS = (1.0, 1000.0, 0.001)


def structured_nets():
    """[(family, net, algorithms, sigma-apr tuple or None)] -- independent of the seed"""
    rng = random.Random("C09-structured")
    out = []
    k = 0
    for shape in ("y>x", "x>y", "circle"):
        for how in ("coords", "coords2", "vector"):
            net = diag_block_fixed(rng, shape, how, sx=(1.0, 2.0, 3.0)[k % 3], ratio=(2.0, 3.0, 5.0)[(k // 3) % 3])
            net["params"]["sigma-act"] = ("apriori", "aposteriori")[k % 2]
            net["params"]["sigma-apr"] = (1, 10, 2)[k % 3]
            out.append((f"structured:diag[{how}:{shape}]", net, ALGS, None))
            k += 1
    # sigma-apr triples: every standard deviation is 1 (mm, cc), so the weights are 1, 1e6, 1e-6
    t1 = trilat_pair_network(rng, sds=(1.0,))
    t2 = diag_block_fixed(rng, "y>x", "coords2", sx=1.0, ratio=2.0)
    for it in t2["obs"][0]["items"]:
        it["stdev"] = 1.0
    t3 = trilat_pair_network(rng, sds=(1.0,), dof_extra=0)           # small redundancy: dof 2
    t4 = gen_net.levelling_network(rng, npts=5, nfixed=1, extra=3, noise=1.0)
    for it in t4["obs"][0]["items"]:
        it.pop("dist", None)
        it["stdev"] = 1.0
    for j, (nm, net) in enumerate((("trilat", t1), ("diag", t2), ("trilat-dof2", t3), ("level", t4))):
        net["params"]["sigma-act"] = ("aposteriori", "apriori")[j % 2]
        out.append((f"structured:triple[{nm}]", net, ["gso", "svd"], TRIPLE_SIGMAS))
    # a passive observation in front of active ones with other standard deviations, every mechanism / cluster kind
    for j, mech in enumerate(PASSIVE_MECHS):
        net = passive_net(rng, mech)
        net["params"]["sigma-act"] = ("aposteriori", "apriori")[j % 2]
        net["params"]["sigma-apr"] = (10, 2, 5)[j % 3]
        out.append((f"structured:passive[{mech}]", net, ALGS, None))
    return out


def oracle_scale_lines(opsA, expA, opsB, expB, sA, sB):
    """the accessor lines of the same network adjusted with sigma-apr sA and sB, field by field against the scaling law
    (weights x k = (sB/sA)^2): q_vv x 1/k, v'Pv x k, m0 (a posteriori) x sB/sA, everything else unchanged"""
    bad, n = [], 0
    F = hex2float
    k, s = (sB / sA) ** 2, sB / sA

    def chk(what, a, b, rtol=1e-6, atol=0.0):
        nonlocal n
        n += 1
        if a != a or b != b or abs(a - b) > atol + rtol * max(abs(a), abs(b)):
            bad.append((what, f"sigma-apr={sA:g}: {a!r} (rescaled)   sigma-apr={sB:g}: {b!r}"))

    if [o.split()[0] for o in opsA] != [o.split()[0] for o in opsB]:
        return [("accessor lines differ in number / kind when only sigma-apr changes",
                 f"{len(opsA)} lines vs {len(opsB)} lines")], 1
    io = 0
    for opA, eA, opB, eB in zip(opsA, expA, opsB, expB):
        ta, tb = opA.split(), opB.split()
        kind = ta[0]
        if kind == "dof":
            n += 1
            if ta[1:] != tb[1:] or eA != eB:
                bad.append(("scale: rows / cols / defect / dof", f"{opA} => {eA}   vs   {opB} => {eB}"))
        elif kind == "m0":
            phiA, phiB = F(ta[3]), F(tb[3])
            chk("scale: v'Pv x sigma-apr^2", phiA * k, phiB, atol=1e-20)
            chk("scale: m_0_aposteriori_value x sigma-apr", F(eA[1]) * s, F(eB[1]), atol=1e-14)
            chk("scale: m_0 x sigma-apr (both modes)", F(eA[0]) * s, F(eB[0]), atol=1e-14)
        elif kind == "conf":
            chk("scale: conf_int_coef unchanged", F(eA[0]), F(eB[0]), rtol=1e-12)
        elif kind == "unk":
            chk("scale: unknown_stdev unchanged", F(eA[0]), F(eB[0]), atol=1e-12)
        elif kind == "obs":
            io += 1
            m0A = F(ta[1])
            wA, slA, qA, srA, stA, fA = (F(x) for x in eA[:6])
            wB, slB, qB, srB, stB, fB = (F(x) for x in eB[:6])
            chk(f"scale: obs {io} weight x sigma-apr^2", wA * k, wB, rtol=1e-12)
            chk(f"scale: obs {io} stdev_obs unchanged", slA, slB, atol=1e-12)
            chk(f"scale: obs {io} wcoef_res x 1/sigma-apr^2 (no absolute threshold in the clamp)", qA, qB * k, atol=1e-7 / wA)
            chk(f"scale: obs {io} stdev_res unchanged", srA * srA, srB * srB, atol=1e-6 * m0A * m0A / wA)
            chk(f"scale: obs {io} obs_control unchanged", fA, fB, atol=1e-5)
            if min(fA, fB) >= 0.1:                       # below: residual cofactor is rounding noise
                chk(f"scale: obs {io} studentized_residual unchanged", stA, stB, rtol=1e-4, atol=1e-6)
        elif kind == "ell":
            aA, bA, alA = (F(x) for x in eA[:3])
            aB, bB, alB = (F(x) for x in eB[:3])
            chk("scale: ellipse a unchanged", aA, aB, atol=1e-12)
            chk("scale: ellipse b unchanged", bA, bB, rtol=1e-5, atol=1e-7 * aA + 1e-12)
            if aA - bA > 1e-3 * aA:
                d = abs(alA - alB)
                chk("scale: ellipse bearing unchanged", min(d, math.pi - d), 0.0, atol=1e-5 * aA / (aA - bA))
    return bad, n


def check_structured(ctx, corr, exe, gama, tmp):
    """the structured networks through the ordinary oracles (check_cases) and, for the sigma-apr triples, the scaling
    law on the accessor lines and on the XML fields"""
    cases, triples = [], []
    for fam, net, algs, sigmas in structured_nets():
        for alg in algs:
            if sigmas is None:
                cases.append({"fam": fam, "net": net, "alg": alg})
            else:
                grp = []
                for sg in sigmas:
                    n2 = copy.deepcopy(net)
                    n2["params"]["sigma-apr"] = sg
                    grp.append({"fam": fam, "net": n2, "alg": alg})
                cases += grp
                triples.append(grp)
    for i, c in enumerate(cases):
        c["path"] = tmp / f"s{i}.gkf"
        c["path"].write_text(gen_net.to_gkf(c["net"], algorithm=c["alg"], nd=10))
    check_cases(ctx, corr, cases, exe, gama, tmp, do_pairs=False, prefix="s")
    corr.count("structured_networks", len(cases))
    for grp in triples:
        a = grp[0]
        sA = float(a["net"]["params"]["sigma-apr"])
        for b in grp[1:]:
            sB = float(b["net"]["params"]["sigma-apr"])
            bad, n = [], 0
            if a.get("R") is None or b.get("R") is None or "lines" not in a or "lines" not in b:
                bad.append(("changing only sigma-apr turns an adjustable network into a refused one",
                            f"sigma-apr={sA:g}: {'adjusted' if a.get('R') else 'refused'}, sigma-apr={sB:g}: "
                            f"{'adjusted' if b.get('R') else 'refused'} ({a['alg']})"))
            else:
                bad, n = oracle_scale_lines(a["lines"][0], a["lines"][1], b["lines"][0], b["lines"][1], sA, sB)
                b2, n2 = oracle_pair(a["R"], b["R"], sA, sB)
                bad += b2
                n += n2
            for _ in range(n):
                corr.case(key=None)
            corr.nontrivial.add(("triple", a["fam"], a["alg"], sB))
            corr.count("sigma_apr_triple_legs")
            corr.count("triple_fields_checked", n)
            if bad:
                corr.fail("changing only sigma-apr changes more than v'Pv and the weights: " + bad[0][0],
                          payload(a, {"sigma_apr_2": sB, "violations": [list(x) for x in bad[:8]], "oracle": "scale"}),
                          "LocalNetwork (sigma-apr scaling)", "\n".join(f"{x}: {y}" for x, y in bad[:8]))


def correspond(ctx, corr):
    d, objs = libgama_objects(ctx)
    exe = ctx.build_cpp("c09_stats", [ctx.verif / "harness" / "c09_stats.cpp"], libs=objs + ["-lexpat"],
                        includes=[ctx.verif / "harness"])
    tmp = Path(tempfile.mkdtemp(prefix="c09-", dir=str(ctx.build)))
    try:
        cases = build_cases(ctx, tmp, ctx.size(500, 12000))
        check_cases(ctx, corr, cases, exe, d / "gama-local", tmp)
        check_structured(ctx, corr, exe, d / "gama-local", tmp)
        # the regenerated formulas and the reference model at Float against the Python definitions on the guard grid
        hits, npts = grid_eval(ctx)
        corr.count("guard_grid_arguments", npts)
        for _ in range(npts):
            corr.case(key=None)
        corr.nontrivial.add(("grid", npts))
        for h in hits[:3]:
            corr.disagree("stats:grid:" + h["kind"], [h["op"]], [h["ref"]], [h["gen"]],
                          "guard grid (impl = reference model, model = regenerated formula): " + json.dumps(describe_hit(h))[:900])
        adjusted = sum(1 for c in cases if c.get("R") is not None)
        corr.count("networks", len(cases))
        corr.count("networks_adjusted", adjusted)
        if adjusted < 0.7 * len(cases):
            corr.inconclusive.append(f"only {adjusted}/{len(cases)} generated networks were adjusted")
        # The pipeline calls `search` only when there is no oracle failure at all, and C09 always has the failures of its
        # known findings; so when the tie is visibly broken (a regenerated formula left the reference on the grid, the
        # accessors disagree with the model, or Props/C09 did not build against the regenerated formulas) and every
        # oracle failure so far is a known finding, the search runs here.
        if all(classify(ctx, f) is not None for f in corr.failures):
            why = ([f"{len(hits)} grid arguments where a regenerated formula differs"] if hits else []) + \
                  (["accessor / model disagreements"] if any(not x["stream"].startswith("stats:grid") for x in corr.disagreements) else []) + \
                  ([] if props_current(ctx) else ["Gama.Props.C09 does not build against the regenerated formulas"])
            if why:
                ctx.log("tie broken (" + "; ".join(why) + ") and no unexplained oracle failure yet: searching for a failing input")
                found = search(ctx, [], corr, grid=(hits, npts))
                corr.failures[:0] = found
                corr.count("search_failures_found", len(found))
        for f in corr.failures:                       # evidence only: which family the (known) failures come from
            fam = str(f.replay.get("family", "?")) if isinstance(f.replay, dict) else "?"
            corr.count("failures_" + str(classify(ctx, f)) + "_" + fam.split("[")[0].split(":")[0]
                       + (":passive" if "passive" in fam else "") + "_" + str(f.replay.get("oracle") if isinstance(f.replay, dict) else None))
        # the deterministic structured networks first: their failures are the easiest to read
        corr.failures.sort(key=lambda f: 0 if isinstance(f.replay, dict) and str(f.replay.get("family", "")).startswith("structured") else 1)
        for need in ("dof_0", "dof_1", "act_apriori", "act_aposteriori", "defect_3", "defect_0"):
            if not corr.stats.get(need):
                corr.inconclusive.append(f"no generated case with {need}")
        # the numbering of a cluster's observations is only exercised by an active observation BEHIND a passive one whose
        # variance differs from the one an active-only count would read
        nsens = sum(1 for c in cases if c.get("sensitive"))
        corr.count("networks_with_obs_after_passive_with_other_variance", nsens)
        if corr.stats.get("obs_after_passive_with_other_variance", 0) < 20 or not corr.stats.get("xml_passive_networks_align_ok", 0) >= 5:
            corr.inconclusive.append("fewer than 20 adjusted observations behind a passive observation of their cluster with another "
                                     "variance, or fewer than 5 such networks whose XML result could be aligned with the input")
    finally:
        shutil.rmtree(tmp, ignore_errors=True)


def boundary_cases(ctx, tmp, count):
    """families that sit on the branch points of the formulas: exactly diagonal 2x2 blocks (q_yy >, <, = q_xx; c == 0),
    weights (sigma-apr/stdev)^2 from 1e-6 to 1e8 incl. single very precise / very poor observations, dof 0/1,
    free networks (defect 3), both sigma-act, all four algorithms"""
    cases = []
    k = 0
    while len(cases) < count:
        k += 1
        if k % 2:
            fam, net = diag_block_network(ctx.rng)
        else:
            fam, net = gen_network(ctx.rng)
            fam = "ratio:" + fam
        spread_stdevs(ctx.rng, net)
        ch = sigma_choices(net)
        net["params"]["sigma-apr"] = ctx.rng.choice([ch[0], ch[-1], ctx.rng.choice(ch)])       # ends of the admissible range
        net["params"]["sigma-act"] = ctx.rng.choice(["apriori", "aposteriori"])
        net["params"]["conf-pr"] = ctx.rng.choice([0.5, 0.95, 0.999, 0.01])
        for alg in (ALGS if k % 2 else [ctx.rng.choice(ALGS)]):
            cases.append({"fam": "boundary:" + fam, "net": net, "alg": alg})
    for i, c in enumerate(cases):
        c["path"] = tmp / f"n{i}.gkf"
        c["path"].write_text(gen_net.to_gkf(c["net"], algorithm=c["alg"], nd=10))
    return cases


# ------------------------------------------------------------------------------------ search: formula grid -> network
#
# When a `gen_*` / property theorem no longer checks, the regenerated Lean formula IS the changed C++ formula.  It is
# evaluated (drv_stats, Float) next to the reference model (`ref` ops of the driver) and next to the Python definition
# on a grid that contains every guard boundary; an argument where they differ names the input region in which the
# implementation left the property.  That argument is then realised as a gama-local network and the violation is
# confirmed on the real executable with the ordinary oracles.

GEN_KIND = {  # broken theorem / definition name -> grid op kinds that exercise it
    "stdErrorEllipse": ("ell",), "ellipse": ("ell",), "wcoefRes": ("obs",), "residual": ("obs", "err"),
    "weightObs": ("obs",), "weight": ("obs",), "sigmaL": ("obs",), "sigma": ("obs", "unk", "cov"), "stdevRes": ("obs",),
    "studentized": ("obs",), "obsControl": ("obs",), "qvv": ("obs",), "m0": ("m0", "xml"), "xmlAposteriori": ("xml",),
    "xmlRatio": ("xml",), "ratio": ("xml",), "confIntCoef": ("conf",), "conf": ("conf", "accept"), "confPrAccepted": ("accept",),
    "dof": ("dof",), "unknownStdev": ("unk",), "covEntry": ("cov",), "errObsAdj": ("err",), "err": ("err",),
    "confHalfWidth": ("hw", "conf", "unk"), "halfwidth": ("hw", "conf", "unk"), "halfWidthSites": ("hw", "conf", "unk"),
    "stdev_of_solver": ("unk", "obs"), "solver": ("unk", "obs", "ell", "dof"),
    "clusterWalk": ("cidx",), "clusterUpdate": ("cidx",), "clusterStdDev": ("cidx",), "weight_obs_is_own_variance": ("cidx", "obs"),
    "cluster_index_sigma": ("cidx", "obs"), "c09_cluster": ("cidx",),
}


def guard_grid():
    """driver op lines; deterministic.  Contains: exact zeros, equal diagonal entries, cyy > cxx with cxy = 0, singular
    blocks, entries from 1e-14 to 1e8; weights (sigma-apr/stdev)^2 from 1e-8 to 1e8; q_bb at 1 +- ulp (q_vv just above /
    below 0); dof -1..3, 10; conf-pr and its guard ends."""
    H = float2hex
    ops = []
    diag = [0.0, 1e-14, 1e-9, 1e-4, 0.25, 1.0, 1.0 + 2 ** -52, 4.0, 100.0, 1e4, 1e8]
    for cxx in diag:
        for cyy in diag:
            g = math.sqrt(cxx * cyy)
            offs = {0.0}
            for r in (1e-12, 1e-6, 0.3, 0.999, 1.0):
                offs |= {r * g, -r * g}
            if cxx == cyy:
                offs |= {5e-324, 1e-300}
            for cyx in sorted(offs):
                if cyx * cyx > cxx * cyy and not (cxx == cyy and abs(cyx) <= 1e-300):
                    continue
                for m in (0.0, 1.0, 7.5):
                    ops.append(f"ell {H(cyy)} {H(cyx)} {H(cxx)} {H(m)}")
    qbbs = [0.0, 1e-9, 0.1, 0.5, 0.9, 1 - 1e-6, 1 - 1e-12, 1 - 2 ** -53, 1.0, 1 + 2 ** -52, 1 + 1e-12, 1 + 1e-6, 1.5]
    for sapr in (0.001, 0.01, 1.0, 10.0, 1000.0):
        for sd in (0.01, 0.1, 1.0, 5.0, 100.0):
            for qbb in qbbs:
                for m in (0.0, 1.0, sapr, 2.5 * sapr):
                    for r in (0.0, 1e-3, -2.5):
                        ops.append(f"obs {H(m)} {H(sapr)} {H(qbb)} {H(sd)} {H(r)}")
    for act in ("apriori", "aposteriori"):
        for dof in (-1, 0, 1, 2, 3, 10):
            for sapr in (0.001, 1.0, 10.0, 1000.0):
                for phi in (0.0, 1e-12, 1.0, 12.0, 1e6):
                    ops.append(f"m0 {act} {H(sapr)} {H(phi)} {dof}")
            for cp in (0.5, 0.95, 0.999):
                pa = (1 - cp) / 2
                ops.append(f"conf {act} {H(cp)} {dof} {H(pa)} {H(1.25 + cp)} {H(2.5 + dof + cp)}")
    for rows in range(0, 13, 3):
        for cols in range(0, 10, 2):
            for defect in (0, 1, 3):
                ops.append(f"dof {rows} {cols} {defect}")
    for m in (0.0, 1.0, 10.0, 1e-3):
        for q in (0.0, 1e-14, 1e-6, 1.0, 1e8):
            ops.append(f"unk {H(m)} {H(q)}")
            ops.append(f"cov {H(m)} {H(q)}")
            ops.append(f"cov {H(m)} {H(-q)}")
    for dof in (-1, 0, 1, 2, 3, 10):
        for sapr in (0.001, 1.0, 1000.0):
            for phi in (0.0, 1e-12, 12.0, 1e6):
                ops.append(f"xml {H(phi)} {H(sapr)} {dof}")
    for v in (0.0, 1e-3, -2.5):
        for qvv in (1e-9, 0.15, 1.0, 1e6):
            for w in (1e-8, 1.0, 4.0, 1e8):
                ops.append(f"err {H(v)} {H(qvv)} {H(w)}")
    for sd in (0.0, 1e-9, 0.05, 1.0, 12.5, 1e6):
        for kki in (0.0, 0.6745, 1.96, 2.2622, 12.706, 63.657):
            ops.append(f"hw {H(sd)} {H(kki)}")
    for pr in (0.0, 1.0, -0.0, -1e-300, 5e-324, 1 - 2 ** -53, 1 + 2 ** -52, 0.5, 0.95, 2.0, -3.0):
        ops.append(f"accept {H(pr)}")
    # clusters of 1..5 observations, every activity pattern, every position; all variances different
    var = [25.0, 9.0, 49.0, 4.0, 0.25]
    for nobs in range(1, 6):
        for mask in range(2 ** nobs):
            flags = "".join("1" if mask >> j & 1 else "0" for j in range(nobs))
            for k in range(nobs):
                ops.append(f"cidx {k} {flags} " + " ".join(H(v) for v in var[:nobs]))
    return ops


def definition_check(op, rep):
    """a driver answer against the definition of the quantity (Python, independent of both Lean models)"""
    t = op.split()
    F = hex2float
    if t[0] in ("dof", "m0", "conf", "unk", "obs", "ell", "cidx"):
        return oracle_accessor(op, rep)
    bad = []

    def close(what, got, want, rtol=1e-11):
        if got == want or (got != got and want != want):
            return
        if got != got or want != want or abs(got - want) > rtol * max(abs(got), abs(want)):
            bad.append((what, f"reported={got!r} definition={want!r}"))
    try:
        if t[0] == "cov":
            close("<cov-mat> entry = m0^2 q", F(rep[0]), F(t[1]) * F(t[1]) * F(t[2]))
        elif t[0] == "xml":
            phi, sapr, dof = F(t[1]), F(t[2]), int(t[3])
            ap = math.sqrt(phi / dof) if dof > 0 else 0.0
            close("<aposteriori> = sqrt(v'Pv/dof)", F(rep[0]), ap)
            close("<ratio> = aposteriori/apriori", F(rep[1]), ap / sapr if dof != 0 else 0.0)
        elif t[0] == "err":
            v, qvv, w = F(t[1]), F(t[2]), F(t[3])
            close("<err-obs> = v/(qrr p)", F(rep[0]), v / (qvv * w))
            close("<err-adj> = err-obs - v", F(rep[1]), v / (qvv * w) - v)
        elif t[0] == "hw":
            close("half-width = stdev x coefficient", F(rep[0]), F(t[1]) * F(t[2]))
        elif t[0] == "accept":
            pr = F(t[1])
            if (rep[0] == "1") != (0 < pr < 1):
                bad.append(("conf_pr stored iff 0 < p < 1", f"p={pr!r} flag={rep[0]}"))
    except (ValueError, IndexError, ZeroDivisionError, OverflowError) as e:
        bad.append(("grid line unreadable", f"{op} => {rep}: {e!r}"))
    return bad


def grid_eval(ctx):
    """[{kind, op, gen, ref, differs, violations}] for every grid argument where the regenerated formula differs from
    the reference model or violates the definition; (hits, number of grid points)"""
    ops = guard_grid()
    gen_out, c1 = run_cases(ctx.driver("drv_stats"), [ops])
    ref_out, c2 = run_cases(ctx.driver("drv_stats"), [["ref " + o for o in ops]])
    if c1 or c2 or len(gen_out[0]) != len(ops) or len(ref_out[0]) != len(ops):
        ctx.log("grid: driver crashed / line count", len(gen_out[0]), len(ref_out[0]), len(ops))
        return [], len(ops)
    hits = []
    for op, g, r in zip(ops, gen_out[0], ref_out[0]):
        gt, rt = g.split(), r.split()
        same = len(gt) == len(rt) and all(x == y or (is_hex(x) and is_hex(y) and hex2float(x) != hex2float(x)
                                                      and hex2float(y) != hex2float(y)) for x, y in zip(gt, rt))
        viol = definition_check(op, gt[1:]) if gt and gt[0] in ("ok", "int", "flag") else [("formula throws", g)]
        if not same or viol:
            hits.append({"kind": op.split()[0], "op": op, "gen": g, "ref": r, "differs": not same,
                         "violations": [list(x) for x in viol[:4]]})
    hits.sort(key=hit_rank)
    return hits, len(ops)


def hit_rank(h):
    """definition-violating arguments first, then the least extreme magnitudes"""
    xs = [abs(hex2float(x)) for x in h["op"].split()[1:] if is_hex(x)]
    ext = max([abs(math.log10(x)) for x in xs if x > 0 and x != float("inf")] + [0.0])
    t = h["op"].split()
    noise = t[0] == "obs" and abs(1 - hex2float(t[3])) < 1e-5       # q_bb = 1 +- rounding: an observation without redundancy
    return (0 if h["violations"] else 1, 1 if noise else 0, ext)


def describe_hit(h):
    t = h["op"].split()
    vals = [hex2float(x) if is_hex(x) else x for x in t[1:]]
    names = {"ell": ("cyy", "cyx", "cxx", "m0"), "obs": ("m0", "sigma_apr", "q_bb", "stdev", "residual"),
             "m0": ("sigma_act", "sigma_apr", "vPv", "dof"), "conf": ("sigma_act", "conf_pr", "dof", "p", "normal", "student"),
             "dof": ("rows", "cols", "defect"), "unk": ("m0", "q_xx"), "cov": ("m0", "q"), "xml": ("vPv", "sigma_apr", "dof"),
             "err": ("v", "q_vv", "weight"), "accept": ("p",), "hw": ("stdev", "coefficient"),
             "cidx": ("position_in_cluster", "active_flags") + tuple(f"variance_{q + 1}" for q in range(len(t)))}.get(t[0], ())
    out = lambda l: [hex2float(x) if is_hex(x) else x for x in l.split()[1:]]
    return {"formula": t[0], "argument": dict(zip(names, vals)), "regenerated_formula_gives": out(h["gen"]),
            "reference_model_gives": out(h["ref"]), "definition_violated": h["violations"]}


def realise(ctx, hits, kinds):
    """networks for gama-local on which the arguments found by the grid occur: [{fam, net, alg, sigma_apr_2?, hit}]"""
    rng = random.Random(f"C09-realise-{ctx.seed}")
    cases = []

    def add(fam, net, algs, hit=None, s2=None):
        for alg in algs:
            c = {"fam": "realised:" + fam, "net": net, "alg": alg, "hit": hit}
            if s2 is not None:
                c["sigma_apr_2"] = s2
            cases.append(c)

    by = {}
    for h in hits:
        by.setdefault(h["kind"], []).append(h)
    # ---- ellipse: a point determined only by <coordinates> with covariance sigma_apr^2 * [[cxx, cyx], [cyx, cyy]]
    seen = set()
    for h in by.get("ell", []):
        cyy, cyx, cxx, m = (hex2float(x) for x in h["op"].split()[1:5])
        if not (cxx > 0 and cyy > 0) or cyx * cyx >= cxx * cyy * (1 - 1e-6) ** 2:
            continue                                            # not realisable as a regular covariance matrix
        cls = (cyx == 0, (cyy > cxx) - (cyy < cxx), round(math.log10(max(cxx, cyy))), round(math.log10(min(cxx, cyy))),
               (cyx > 0) - (cyx < 0), abs(cyx) > 0.5 * math.sqrt(cxx * cyy))
        if cls in seen or len(seen) >= 24:
            continue
        seen.add(cls)
        # sigma-apr so that the standard deviations are between 1e-3 and 1e3 (mm) if possible
        big = math.sqrt(max(cxx, cyy))
        sapr = min((1.0, 10.0, 1000.0, 0.001, 1e5, 1e-5), key=lambda sg: abs(math.log10(sg * big)))
        cov = [[cxx * sapr * sapr, cyx * sapr * sapr], [cyx * sapr * sapr, cyy * sapr * sapr]]
        for how, act in (("coords", "apriori"), ("coords2", "aposteriori"), ("coords2", "apriori")):
            # an ordinary trilaterated point next to it (weights of order 1) unless sigma-apr is extreme
            net = diag_block_fixed(rng, "-", how, cov2=cov, q_scale=sapr if 0.1 <= sapr <= 100 else 0)
            net["params"]["sigma-apr"] = sapr
            net["params"]["sigma-act"] = act
            add(f"ell[{how},{act}]", net, ["gso", "svd"] if not (1e-3 <= sapr <= 100) else ALGS, describe_hit(h))
    if "ell" in kinds and not by.get("ell"):
        for fam, net, algs, sg in structured_nets():
            if "diag" in fam:
                add("ell-default:" + fam, net, algs)
    # ---- observations: the weight (sigma-apr/stdev)^2 of the argument on a redundant trilateration; q_bb ~ 1 -> dof 0
    ratios = {}
    for h in by.get("obs", []) + by.get("err", []):
        t = h["op"].split()
        if t[0] == "obs":
            m, sapr, qbb, sd = (hex2float(x) for x in t[1:5])
            ratio = sapr / sd
        else:
            qbb, ratio = 0.5, math.sqrt(hex2float(t[3]))
        if 1e-4 <= ratio <= 1e4:
            key = (round(math.log10(ratio) * 2) / 2, abs(1 - qbb) < 1e-5)
            ratios.setdefault(key, (ratio, describe_hit(h)))
    if ("obs" in kinds or "err" in kinds) and not ratios:
        ratios = {(lg, False): (10.0 ** lg, None) for lg in (-3, 0, 3)}
    for (lg, nored), (ratio, hit) in sorted(ratios.items(), key=lambda kv: kv[0][1])[:16]:     # stable: rank order kept
        for rep in range(2):
            sd = rng.choice([1.0, 2.0, 5.0])
            if nored:
                net = None
                while net is None:
                    net = small_dof_network(rng, rng.choice([0, 1]))
                for o in net["obs"]:
                    for it in o["items"]:
                        it["stdev"] = sd
            else:
                net = trilat_pair_network(rng, sds=(sd,), dof_extra=rep)
            net["params"]["sigma-apr"] = float(f"{ratio * sd:.6g}")
            net["params"]["sigma-act"] = ("aposteriori", "apriori")[rep]
            add(f"obs[weight=1e{2 * lg:g}{',q_bb~1' if nored else ''}]", net,
                ALGS if 1.3e-3 < ratio < 300 else ["gso", "svd"], hit, s2=sd)        # pair: the same network with weight 1
    # ---- m0 / confidence coefficient / <aposteriori>, <ratio>: the redundancy of the argument
    dofs = {}
    for h in by.get("m0", []) + by.get("conf", []) + by.get("xml", []):
        t = h["op"].split()
        dof = int(t[4] if t[0] == "m0" else t[3])
        act = t[1] if t[0] in ("m0", "conf") else "aposteriori"
        dofs.setdefault((min(max(dof, 0), 4), act), describe_hit(h))
    if {"m0", "conf", "xml"} & set(kinds) and not dofs:
        dofs = {(d, a): None for d in (0, 1, 2, 3) for a in ("apriori", "aposteriori")}
    for (dof, act), hit in sorted(dofs.items()):
        for rep in range(2):
            net = None
            while net is None:
                net = small_dof_network(rng, dof)
            net["params"]["sigma-act"] = act
            net["params"]["sigma-apr"] = rng.choice([1, 10, 100])
            net["params"]["conf-pr"] = rng.choice([0.5, 0.95, 0.99])
            add(f"dof{dof}[{act}]", net, ALGS, hit)
    # ---- dof / unknown_stdev / <cov-mat>: any adjusted network; free networks for the defect
    if {"dof", "unk", "cov"} & (set(by) | set(kinds)):
        hit = describe_hit((by.get("dof") or by.get("unk") or by.get("cov") or [None])[0]) if (set(by) & {"dof", "unk", "cov"}) else None
        for rep in range(6):
            net = gen_net.make_network(rng, npts=rng.randint(4, 6), nfixed=0 if rep % 2 else 2, free=bool(rep % 2), noise=1.0,
                                       kinds=("direction", "distance"), density=0.8)
            add("free2d" if rep % 2 else "fixed2d", net, ALGS, hit)
    # ---- numbering of the observations of a cluster: a passive observation in front of active ones
    if "cidx" in kinds or by.get("cidx"):
        hit = describe_hit(by["cidx"][0]) if by.get("cidx") else None
        for mech in PASSIVE_MECHS:
            add(f"passive[{mech}]", passive_net(rng, mech), ALGS if mech in PASSIVE_MECHS[:3] else ["gso"], hit)
    for i, c in enumerate(cases):
        c["rix"] = i
    return cases


def props_current(ctx):
    """did Gama.Props.C09 build against the current regenerated formulas (lake leaves no .olean after an error)"""
    gen = ctx.lean / "Gama" / "Gen" / "StatsGen.lean"
    gen2 = ctx.lean / "Gama" / "Gen" / "ClusterUpdate.lean"
    try:
        gen3 = ctx.lean / "Gama" / "Gen" / "StatsXmlSites.lean"
        for n, g in (("C09", gen), ("C09Solvers", gen), ("C09Cluster", gen2), ("C09Xml", gen3)):
            olean = ctx.lean / ".lake" / "build" / "lib" / "lean" / "Gama" / "Props" / (n + ".olean")
            src = ctx.lean / "Gama" / "Props" / (n + ".lean")
            if olean.stat().st_mtime < max(g.stat().st_mtime, src.stat().st_mtime):
                return False
        return True
    except OSError:
        return False


ALL_KINDS = ["cidx", "conf", "dof", "ell", "m0", "obs", "unk", "xml"]


def search(ctx, broken, corr, grid=None):
    """something broke (proof / translator / correspondence) and the always-on oracle saw nothing:
    (1) grid over the guard boundaries: regenerated formula vs reference model vs definition -> failing ARGUMENTS;
    (2) those arguments realised as networks, confirmed on gama-local / the in-process LocalNetwork;
    (3) boundary families, (4) a larger general sample, before giving up"""
    d, objs = libgama_objects(ctx)
    exe = ctx.build_cpp("c09_stats", [ctx.verif / "harness" / "c09_stats.cpp"], libs=objs + ["-lexpat"],
                        includes=[ctx.verif / "harness"])
    fails, dis = [], list(corr.disagreements)
    # which formulas are named by what broke
    names = " ".join(getattr(b, "name", "") + " " + getattr(b, "detail", "")[:400] for b in broken)
    kinds = sorted({k for nm, ks in GEN_KIND.items() if re.search(r"(gen_|C09_|StatsGen\.|stats:)\w*" + nm, names) for k in ks})
    for di in dis:
        kinds = sorted(set(kinds) | {di["stream"].split(":")[-1]} & {"ell", "obs", "m0", "conf", "dof", "unk", "cidx"})
    hits, npts = grid or ([], 0)
    if grid is None:
        ok, log = ctx.lake_build(["drv_stats"])                    # the driver must be the one of the CURRENT Gen file
        if ok:
            hits, npts = grid_eval(ctx)
        else:
            ctx.log("search: drv_stats does not build with the regenerated formulas; grid stage skipped")
    byk = {}
    for h in hits:
        byk.setdefault(h["kind"], []).append(h)
    ctx.log(f"search stage grid: {npts} arguments, formulas named by the break: {kinds or 'none'}; "
            + (", ".join(f"{k}: {len(v)} failing arguments" for k, v in sorted(byk.items())) or "no failing argument"))
    for k, v in sorted(byk.items()):
        ctx.log("   e.g.", json.dumps(describe_hit(v[0]))[:600])
    stages = [("realised", lambda t: _write(realise(ctx, hits, kinds or sorted(byk) or ALL_KINDS), t)),
              ("boundary", lambda t: boundary_cases(ctx, t, 600)), ("general", lambda t: build_cases(ctx, t, 1500))]
    for stage, maker in stages:
        tmp = Path(tempfile.mkdtemp(prefix="c09s-", dir=str(ctx.build)))
        c2 = Corr()
        try:
            cases = maker(tmp)
            if not cases:
                continue
            check_cases(ctx, c2, cases, exe, d / "gama-local", tmp)
        finally:
            shutil.rmtree(tmp, ignore_errors=True)
        ctx.log(f"search stage {stage}: {len(cases)} networks, {c2.evaluations} evaluations, {len(c2.failures)} failures, "
                f"{len(c2.disagreements)} disagreements")
        dis += c2.disagreements
        new = [f for f in c2.failures if classify(ctx, f) is None]
        if stage == "realised":                                    # say which formula argument the network realises
            for f in new:
                fam = f.replay.get("family") if isinstance(f.replay, dict) else None
                for c in cases:
                    if c["fam"] == fam and c.get("hit") and c["net"] is f.replay.get("net"):
                        f.replay["realises_formula_argument"] = c["hit"]
                        break
            order = {id(c["net"]): c["rix"] for c in reversed(cases)}
            new.sort(key=lambda f: (0 if isinstance(f.replay, dict) and f.replay.get("realises_formula_argument") else 1,
                                    order.get(id(f.replay.get("net")), 1 << 30) if isinstance(f.replay, dict) else 1 << 30,
                                    0 if isinstance(f.replay, dict) and f.replay.get("oracle") == "xml" else 1))
        fails = new or fails
        if fails:
            break
    if not fails:
        # a correspondence disagreement is a formula that no longer is the modelled one: the inputs of that
        # formula on the real network are the concrete failing input
        for di in [x for x in dis if not x["stream"].startswith("stats:grid")][:1]:
            fails.append(Failure("statistic accessor no longer equals the modelled formula: " + di["stream"],
                                 {"op": di["case"], "impl": di["impl"], "model": di["model"], "why": di["why"]},
                                 "LocalNetwork " + di["stream"], json.dumps(di)[:1500]))
    return fails


def _write(cases, tmp):
    for i, c in enumerate(cases):
        c["path"] = tmp / f"n{i}.gkf"
        c["path"].write_text(gen_net.to_gkf(c["net"], algorithm=c["alg"], nd=10))
    return cases


F1_MARKS = ("stdev of adjusted coordinate observation", "stdev of adjusted linear observation")


def weight_range(net):
    fs = flat_stdevs(net) or []
    sds = [sd for sd, _ in fs if sd] or [1.0]
    s = float(net["params"]["sigma-apr"])
    return (s / max(sds)) ** 2, (s / min(sds)) ** 2


def classify(ctx, failure):
    p = failure.replay if isinstance(failure.replay, dict) else {}
    v = p.get("violations") or []
    # F1: every violated field is the sigma_L of an exactly linear observation of a cluster with band != 0
    if v and all(any(m in x[0] for m in F1_MARKS) and "(band=0)" not in x[0] for x in v):
        return "C09-F1"
    # F3: next to a genuine outlier remove_huge_abs_terms() re-tests directions/angles on the homogenised b, so WHICH of
    # them are removed depends on sigma-apr (root cause of C14-F1): pair oracle, planted blunder, the two runs differ in
    # the number of equations / unknowns; any algorithm
    fam = str(p.get("family") or p.get("fam") or "")
    if p.get("oracle") == "pair" and ((p.get("net") or {}).get("blunder") or "huge-abs-retest" in fam) and v \
            and v[0][0] in ("eq", "unk", "dof", "observation count"):
        return "C09-F3"
    # F2: envelope / cholesky test pivots against the ABSOLUTE tolerance sqrt(eps) = 1.5e-8, while pivots scale with
    # the weights (sigma-apr/stdev)^2: weights below ~1e-6 make a regular network "singular", weights above ~1e5 hide the
    # zero pivots of a free network; shows as a refusal or as removed points (different numbers of equations /
    # unknowns) for one sigma-apr of a pair only
    # (gso, too, tests its column norms against an absolute tolerance: weights above ~1e5 make the rounding residue of
    # a dependent column look independent; svd tests relative to the largest singular value and is scale free)
    if "net" in p and p.get("alg") in ("cholesky", "envelope", "gso"):
        nets = [p["net"]]
        if p.get("sigma_apr_2"):
            n2 = copy.deepcopy(p["net"])
            n2["params"]["sigma-apr"] = p["sigma_apr_2"]
            nets.append(n2)
        small = min(weight_range(n)[0] for n in nets) < 1.5e-6 or max(weight_range(n)[1] for n in nets) > 1e5
        structural = ("refused" in failure.what) or (v and v[0][0] in ("eq", "unk", "dof", "defect", "observation count"))
        if small and (structural or structural_vs_gso(ctx, p)):
            return "C09-F2"
        # numeric face of the same root cause: same structure for both sigma-apr, but the numbers of the run with the
        # smaller weights deviate under envelope / cholesky (a legitimate small pivot close to the absolute
        # sqrt(eps)), while the SAME pair under gso is consistent in every field
        if p.get("oracle") == "pair" and p.get("sigma_apr_2") and min(weight_range(n)[0] for n in nets) < 1e-4 \
                and not structural and pair_consistent_under_gso(ctx, p):
            return "C09-F2"
    return None


_PAIR_GSO = {}


def pair_consistent_under_gso(ctx, p):
    key = id(p.get("net")), p.get("sigma_apr_2")
    if key not in _PAIR_GSO:
        res = False
        tmp = Path(tempfile.mkdtemp(prefix="c09p-", dir=str(ctx.build)))
        try:
            gama = ctx.build_gama(sanitize=False) / "gama-local"
            s1, s2 = float(p["net"]["params"]["sigma-apr"]), float(p["sigma_apr_2"])
            R = []
            for k, s in enumerate((s1, s2)):
                n = copy.deepcopy(p["net"])
                n["params"]["sigma-apr"] = s
                g = tmp / f"g{k}.gkf"
                g.write_text(gen_net.to_gkf(n, algorithm="gso", nd=10))
                R.append(run_gama(gama, g, tmp / f"g{k}.xml")[0])
            if R[0] is not None and R[1] is not None:
                bad, _ = oracle_pair(R[0], R[1], s1, s2)
                res = not bad
        except Exception:      # noqa: a classification helper must never turn a failure into a crash
            res = False
        finally:
            shutil.rmtree(tmp, ignore_errors=True)
        _PAIR_GSO[key] = res
    return _PAIR_GSO[key]


_VS_GSO = {}


def structural_vs_gso(ctx, p):
    """single-run manifestation of F2 (the defect of a free network hidden / undercounted by envelope or cholesky when the
    weights exceed 1e5, whose numbers are then those of a singular system taken for regular): the SAME input under gso
    reports other numbers of equations / unknowns / dof / defect and is consistent in every field (F1 apart)"""
    key = id(p.get("net")), p.get("alg")
    if key not in _VS_GSO:
        res = False
        tmp = Path(tempfile.mkdtemp(prefix="c09c-", dir=str(ctx.build)))
        try:
            gama = ctx.build_gama(sanitize=False) / "gama-local"
            R = {}
            for alg in (p["alg"], "gso"):
                g = tmp / f"{alg}.gkf"
                g.write_text(gen_net.to_gkf(p["net"], algorithm=alg, nd=10))
                R[alg] = run_gama(gama, g, tmp / f"{alg}.xml")[0]
            if R["gso"] is not None:
                bad, _, _ = oracle_xml(R["gso"], p["net"], flat_stdevs(p["net"]))
                clean = all(any(m in x[0] for m in F1_MARKS) and "(band=0)" not in x[0] for x in bad)
                differs = R[p["alg"]] is None or any(R[p["alg"]][f] != R["gso"][f] for f in ("eq", "unk", "dof", "defect"))
                res = clean and differs
        except (OSError, KeyError, BuildError):
            res = False
        finally:
            shutil.rmtree(tmp, ignore_errors=True)
        _VS_GSO[key] = res
    return _VS_GSO[key]


def replay(ctx, payload):
    f = payload.get("failure") or {}
    inp = f.get("input") or {}
    print(json.dumps({k: v for k, v in f.items() if k != "input"}, indent=1)[:3000])
    if "net" not in inp:
        print(json.dumps(payload.get("no_longer_checks"), indent=1)[:3000])
        return 0
    d = ctx.build_gama(sanitize=False)
    tmp = Path(tempfile.mkdtemp(prefix="c09r-", dir=str(ctx.build)))
    try:
        p = tmp / "replay.gkf"
        p.write_text(gen_net.to_gkf(inp["net"], algorithm=inp.get("alg"), nd=10))
        R, rc, tail = run_gama(d / "gama-local", p, tmp / "replay.xml")
        if R is None:
            print("gama-local did not produce a result:", tail)
            return 1
        bad, n, mx = oracle_xml(R, inp["net"], flat_stdevs(inp["net"]))
        # the accessors of the in-process LocalNetwork against their definitions
        d2, objs = libgama_objects(ctx)
        exe = ctx.build_cpp("c09_stats", [ctx.verif / "harness" / "c09_stats.cpp"], libs=objs + ["-lexpat"],
                            includes=[ctx.verif / "harness"])
        impl, _ = run_cases(exe, [[f"load {p} -"]])
        ops, exp, _ = split_harness(impl[0])
        for op, e in zip(ops, exp):
            bad += oracle_accessor(op, e)
            n += 1
        if inp.get("sigma_apr_2"):
            net2 = copy.deepcopy(inp["net"])
            net2["params"]["sigma-apr"] = inp["sigma_apr_2"]
            p2 = tmp / "replay2.gkf"
            p2.write_text(gen_net.to_gkf(net2, algorithm=inp.get("alg"), nd=10))
            R2, _, _ = run_gama(d / "gama-local", p2, tmp / "replay2.xml")
            if R2 is None:
                bad.append(("changing only sigma-apr turns an adjustable network into a refused one",
                            f"sigma-apr={inp['net']['params']['sigma-apr']} adjusts, sigma-apr={inp['sigma_apr_2']} is refused ({inp.get('alg')})"))
            if R2 is not None:
                b2, _ = oracle_pair(R, R2, float(inp["net"]["params"]["sigma-apr"]), float(inp["sigma_apr_2"]))
                bad += b2
        for a, b in bad[:20]:
            print("VIOLATED:", a, "--", b)
        print(f"{n} fields recomputed, {len(bad)} inconsistent")
        return 1 if bad else 0
    finally:
        shutil.rmtree(tmp, ignore_errors=True)
