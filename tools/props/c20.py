"""C20 — ill-posed networks are diagnosed, identically for every algorithm."""
import concurrent.futures
import glob
import math
import tempfile
from fractions import Fraction as F
from lib.core import *
from lib import gen_ls as g
from lib import gen_net as gn
from lib.exact_verdict import XJudge
from props import c01, c02

ID = "C20"
PROPS_FILES = ["Gama/Props/C20.lean"] + sorted("Gama/Props/C20/" + Path(f).name for f in glob.glob(str(LEAN / "Gama/Props/C20/*.lean")))
LEAN_TARGETS = [f[:-5].replace("/", ".") for f in PROPS_FILES]
DRIVERS = ["drv_ls", "drv_netdecision"]
RULE = ("(a) solver level: singular problems (A,b,C,S) from tools/lib/gen_ls.py x {env,chol,gso,svd}, queried the way "
        "LocalNetwork::null_space does (unknowns() — refused or not —, then defect(), lindep(1..n)); (b) networks with a "
        "planted deficiency {too few constrained coordinates, constraints that do not span the defect, disconnected free "
        "part, point hanging on a single distance / direction, floating component + fixed-datum rest + approximate "
        "coordinates off by 0.1-0.4 m (points removed, then the rest is linearised and solved again by the same solver "
        "object), sound} in 2D (distances +- directions) and 1D (levelling) x "
        "datum {fixed, free-sufficient, free-insufficient, free-all} x 4 algorithms through gama-local; exact rational "
        "Jacobian (coordinates with 3 decimals, rows scaled by d resp. d^2) for the rank statements; (c) decision-layer "
        "scripts through the real null_space/GeneralParameters with a scripted solver vs the Lean model NetDecision. "
        "non-trivial = every case here (all are singular); distinct by input text")
LEVEL_TEXT = ("Lean 4 theorems about the executable models: per solver (Props/C20/*.lean) a flagged unknown is truly linearly "
              "dependent on the unknowns processed before it and the number of flags equals the defect; for the decision "
              "layer of LocalNetwork/gama-local (Props/C20.lean, model NetDecision): the point-removal recursion of "
              "null_space and the huge-covariance loop terminate within (number of active coordinate groups + 1) steps, "
              "each step switches a coordinate group off and records it, a verdict 'adjusted' is only given after the solver "
              "answered on the final configuration with at least 'defect' constrained coordinates, and — a consequence "
              "proved on the faithful model — when every solver refuses uniformly the diagnosis 'network can not be "
              "adjusted' is unreachable (points are stripped instead: finding F7); for the gso solver object the "
              "second-stage error counter is state with reset / increment / read sites regenerated from icgs.cpp, icgs.h, "
              "adj_gso.h, and after ANY history including refused solves a system is refused iff its own subset does not "
              "resolve its own defect (Props/C20/GsoSticky.lean). Tied to the C++ by correspondence of "
              "the decision model against the real null_space/GeneralParameters driven by a scripted solver, by "
              "differential runs of gama-local over the four algorithms on planted deficiencies, and by an exact rational "
              "rank oracle on what gama-local removed / reported.")
LEVEL_NOTE = ("project_equations (revision, linearisation, singular_coords) is a parameter of the decision model; since round 7 it is "
              "instantiated by the EXECUTED models (Props/C20/ProjectEquations.lean): PE.peWorld = the model of project_equations() run by "
              "drv_pe, the solver object read off netSolve (Model/Ls/ObsNet.lean: obsNet, netLindep; C20_obsNet_reads_netSolve, C20_obsNet_sound) - "
              "C20_adjusted_sound_of_project_equations, C20_named_unknowns_dependent_of_project_equations, "
              "C20_reported_excludes_removed_of_project_equations for env/chol/gso and the verdict theorem for svd "
              "(C20_adjusted_sound_svd_of_project_equations), general covariance, no abstract pe; hdim is derived (C20_peWorld_dim, premise "
              "DirFromStation = a stand-point's directions start at its station), hstill is derived where singular_coords does not fire and "
              "proved false otherwise (C20_peWorld_still / C20_peWorld_not_still); what remains is WorldHyp: on every configuration the loop "
              "can visit RowsOK (since round 12 the range condition only, a theorem for project_equations() output: C01_pe_rowsOK; NoAlias is gone), m0 != 0, covariance invertible and the algorithm's first- and second-stage unambiguity (not yet one "
              "input-side hypothesis; conclusions witnessed by kernel evaluation over Q only; the composed world is run by no driver). "
              "Round 13: WorldHyp is needed only on the configurations REACHABLE by the removal loop - the sub-configurations of the given "
              "network (same ids, statuses kept or unused; closed under project_equations, the huge-covariance pass and removeUnknown: "
              "Lemmas/NetDecisionRestrict.lean decideA_congr, closed_subOf) - C20_adjusted_sound_of_project_equations_reachable / "
              "_subconfigurations (Props/C20/ProjectEquationsReachable.lean); over R: NetHyp .gso witnessed on ALL 8 sub-configurations of "
              "Ex.netWobs, each on the evaluated output of project_equations() (C20_nethyp_subconfigurations_pe_witness, "
              "C20_worldhyp_reachable_pe_witness, Props/C20/PeWitness.lean), and the sub-configuration theorem applied to it with only its "
              "antecedent left, the verdict of the removal loops (C20_adjusted_sound_pe_witness; the verdict itself is not evaluated over R). "
              "The older theorems keep an abstract pe: "
              "the world hypotheses WF / RefusalFlags / RefusalFirst and the verdict theorem C20_adjusted_sound are THEOREMS for "
              "worlds built from the solver models gso, cholesky (Props/C20/World.lean), envelope and svd "
              "(Props/C20/WorldEnv.lean, WorldGap.lean: second-stage premises from one exact gap hypothesis); per-solver "
              "theorems for svd are about singular values, not unknowns (known finding F7-svd, negation proved: "
              "C20_svd_lindep), but count, refusal and verdict clauses hold for svd and no longer assume a factorisation "
              "certificate (Props/C20/SvdDecompose.lean: for the factors Svd.decompose returns with unambiguous singular "
              "values; refusal as an iff under the second-stage premise: C02_refusal_svd). Not proved: convergence of the "
              "svd QR iteration (= decompose returns), IEEE rounding; each solver instance asks that every quantity its run "
              "tests is exactly 0 or above its tolerance; the envelope's absolute sqrt(eps) pivot tolerance on free networks "
              "is known finding F22 (C19-envelope-defect-undercount in gama-g3). The "
              "end-to-end statement 'the removed points are exactly the indeterminate ones' is checked by the rank oracle, "
              "not proved (proved under WorldHyp: what null_space names on each configuration is dependent and its number is the defect).")
TECHNIQUE = "Lean 4 proof (structural induction over the removal recursion, decreasing measure) + model/implementation correspondence + differential runs"
TRUSTED = ["scripted solver in harness/c02_netdecision.cpp replaces LocalNetwork::least_squares (test double, real LocalNetwork code)",
           "python Jacobian of distances/directions/height differences in tools/props/c20.py (exact rationals)",
           "tools/lib/exact_verdict.py + gen_ls.reference: decide ls cases whose x / q_xx answers miss the fixed 1e-9 comparison on a demonstrably ill-conditioned problem (both sides against the exact solution; capped, counted)"]
MODELLED = ["IEEE rounding", "project_equations / singular_coords: a parameter ('world') of NetDecision, instantiated in the theorems by the executed model PE.peWorld + obsNet; the nd correspondence stream drives the real null_space/GeneralParameters with a scripted table-driven world; revision_points not modelled", "text/XML printing"]
ASSUMPTIONS = ["rank numerically unambiguous: jittered-grid geometry, planted deficiencies are exact"]

ALGS = c02.ALGS
GALGS = c02.GALGS


# =============================================================================================
# (a) solver level: flags as null_space() reads them
# =============================================================================================

def ls_cases(ctx, nprob):
    cases, meta = [], []
    tries = 0
    while len(meta) < nprob * 4 and tries < nprob * 20:
        tries += 1
        p = g.gen_problem(ctx.rng, correlated=False)
        if p["defect"] == 0:
            continue
        subs = g.gen_subsets(ctx.rng, p, 3)
        pick = [s for s in subs if not s[1]][:1] + [s for s in subs if s[1]][:1]
        for S, ok in pick:
            for alg in ALGS:
                lines = g.problem_lines(p, S) + [f"new {alg} solver", "x", "defect"] + [f"lindep {i}" for i in range(1, p["n"] + 1)]
                cases.append(lines)
                meta.append((p, S, ok, alg))
    return cases, meta


def cols_independent(A, keep):
    sub = [[row[j] for j in keep] for row in A]
    return g.rank(sub) == len(keep) if keep else True


def ls_oracle(p, S, ok, alg, out):
    n = p["n"]
    if len(out) < 4 + n or out[0] != "ok" or out[1] != "ok":
        return ["harness protocol: " + " | ".join(out[:3])]
    bad = []
    x, d = out[2], out[3]
    if ok and not x.startswith("vec"):
        bad.append(f"subset {S} resolves the defect but unknowns() -> {x}")
    if not ok and x != "throw BadRegularization":
        bad.append(f"subset {S} does not resolve the defect {p['defect']} but unknowns() -> {x[:60]}")
    if d != f"int {p['defect']}":
        bad.append(f"defect() -> '{d}', n - rank A = {p['defect']}")
    fl = []
    for i, l in enumerate(out[4:4 + n]):
        t = l.split()
        if len(t) == 2 and t[0] == "flag" and t[1] in "01":
            if t[1] == "1":
                fl.append(i)
        else:
            bad.append(f"lindep({i + 1}) after unknowns() -> {l}")
            return bad
    if len(fl) != p["defect"]:
        bad.append(f"{len(fl)} unknowns flagged {[i + 1 for i in fl]} but the defect is {p['defect']}")
    A = g.dense(p)
    keep = [j for j in range(n) if j not in fl]
    if not cols_independent(A, keep):
        bad.append(f"unknowns flagged as dependent {[i + 1 for i in fl]}: deleting them leaves a rank-deficient matrix "
                   f"(rank {g.rank([[r[j] for j in keep] for r in A])} < {len(keep)} columns)")
    return bad


def check_ls(ctx, corr, nprob):
    exe = c01.harness(ctx)
    cases, meta = ls_cases(ctx, nprob)
    impl, crashes = run_cases(exe, cases)
    model, _ = run_cases(ctx.driver("drv_ls"), cases)
    judge = XJudge(corr, "ls_x")
    for i, (c, (p, S, ok, alg)) in enumerate(zip(cases, meta)):
        corr.case(key=" ".join(c), sample={"ops": c, "impl": impl[i]} if i in (0, 5) else None)
        corr.count(f"ls_alg_{alg}")
        corr.count("ls_subset_resolves" if ok else "ls_subset_not_resolving")
        corr.count(f"ls_defect_{p['defect']}")
        if i in crashes:
            corr.fail("solver crashed / sanitizer report", {"stream": "ls", "ops": c}, f"{alg}/solver", crashes[i][1])
            continue
        nm, miss = False, []
        for k, (a, b) in enumerate(zip(impl[i], model[i])):
            if b == "not-modelled":
                nm = True
                continue
            # after a refused unknowns() the history-free model keeps refusing; the object keeps answering
            # defect()/lindep() (that is what null_space relies on): compare those only when x was answered
            if not ok and a != b and b.startswith("throw"):
                nm = True
                continue
            if not lines_equal(a, b, rtol=1e-9, atol=1e-9):
                miss.append(k)
        if miss:
            # a miss only in the x line of a resolving subset: wrong, or rounding on an ill-conditioned problem?
            # decided against the EXACT solution (tools/lib/exact_verdict.py); any other miss is a disagreement as before
            okj, why = judge.misses(p, S, impl[i], model[i], miss, x_at=(2,), resolving=ok)
            if not okj:
                corr.disagree("ls", c, impl[i], model[i], f"{alg}/solver" + (": " + why if why else ""))
        corr.count("ls_partly_not_modelled" if nm else "ls_modelled")
        bad = ls_oracle(p, S, ok, alg, impl[i])
        if bad:
            corr.fail(f"{alg}: " + "; ".join(bad), {"stream": "ls", "ops": c, "alg": alg, "subset": S}, f"{alg}/solver/lindep", " | ".join(impl[i]))


# =============================================================================================
# (b) networks with planted deficiencies
# =============================================================================================

def r3(v):
    return round(v, 3)


def grid_points(rng, ids, origin=(0.0, 0.0), scale=600.0):
    side = int(math.ceil(math.sqrt(len(ids))))
    cells = [(i, j) for i in range(side) for j in range(side)]
    rng.shuffle(cells)
    pts = {}
    for k, pid in enumerate(ids):
        i, j = cells[k]
        pts[pid] = {"x": r3(origin[0] + (i + 0.15 + 0.7 * rng.random()) * scale / side),
                    "y": r3(origin[1] + (j + 0.15 + 0.7 * rng.random()) * scale / side), "status": "adj", "approx": True}
    return pts


def observe(rng, pts, ids, kinds, density=0.8, noise=1.0):
    """stations among `ids` observe other points of `ids`"""
    obs = []
    for s in ids:
        others = [t for t in ids if t != s]
        if not others:
            continue
        k = max(min(2, len(others)), sum(1 for _ in others if rng.random() < density))
        targets = rng.sample(others, min(k, len(others)))
        items, orient = [], rng.uniform(0, 400)
        for t in targets:
            if "direction" in kinds:
                v = (gn.bearing(pts[s], pts[t]) * gn.GON - orient + rng.gauss(0, 10e-4) * noise) % 400.0
                items.append({"t": "direction", "to": t, "val": v, "stdev": 10.0})
            if "distance" in kinds:
                items.append({"t": "distance", "to": t, "val": gn.dist2(pts[s], pts[t]) + rng.gauss(0, 5e-3) * noise, "stdev": 5.0})
        obs.append({"kind": "obs", "from": s, "orient": orient, "items": items})
    return obs


def plant_2d(rng):
    kinds = rng.choice([("distance",), ("direction", "distance"), ("direction", "distance")])
    plant = rng.choice(["too-few", "too-few", "disconnected", "disconnected", "single-element", "single-element", "sound"])
    datum = rng.choice(["fixed", "free-sufficient", "free-insufficient", "free-all"])
    if plant == "too-few":
        datum = "free-insufficient"
    nmain = rng.randint(3, 5)
    main = [f"M{k + 1}" for k in range(nmain)]
    pts = grid_points(rng, main)
    obs = observe(rng, pts, main, kinds, density=0.9)
    extra = []
    if plant == "disconnected":
        extra = [f"Q{k + 1}" for k in range(rng.randint(2, 3))]
        pts.update(grid_points(rng, extra, origin=(2000.0, 1000.0), scale=300.0))
        obs += observe(rng, pts, extra, kinds, density=1.0)
    if plant == "single-element":
        extra = ["S1"]
        pts.update(grid_points(rng, extra, origin=(900.0, 300.0), scale=200.0))
        st = rng.choice(main)
        o = next(o for o in obs if o["from"] == st)
        kind = rng.choice(["distance"] + (["direction"] if "direction" in kinds else []))
        if kind == "distance":
            o["items"].append({"t": "distance", "to": "S1", "val": gn.dist2(pts[st], pts["S1"]), "stdev": 5.0})
        else:
            o["items"].append({"t": "direction", "to": "S1", "val": (gn.bearing(pts[st], pts["S1"]) * gn.GON - o["orient"]) % 400.0, "stdev": 10.0})
    # datum
    if datum == "fixed":
        for pid in main[:2]:
            pts[pid]["status"] = "fix"
    elif datum == "free-sufficient":
        for pid in rng.sample(main, rng.randint(2, nmain)):
            pts[pid]["status"] = "con"
    elif datum == "free-insufficient":
        pts[rng.choice(main)]["status"] = "con"
    elif datum == "free-all":
        for pid in pts:
            pts[pid]["status"] = "con"
    if plant == "disconnected" and datum != "free-all" and rng.random() < 0.3:
        pts[extra[0]]["status"] = "con"       # a constraint inside the floating part: count may suffice, span does not
    net = {"dim": 2, "points": pts, "obs": obs,
           "params": {"sigma-apr": 10, "conf-pr": 0.95, "tol-abs": 1000, "sigma-act": "aposteriori"}}
    return net, {"dim": 2, "plant": plant, "datum": datum, "kinds": "+".join(kinds)}


def plant_1d(rng):
    plant = rng.choice(["too-few", "non-spanning", "non-spanning", "disconnected", "sound"])
    n1 = rng.randint(3, 5)
    a = [f"H{k + 1}" for k in range(n1)]
    b = [f"K{k + 1}" for k in range(rng.randint(2, 4))] if plant in ("non-spanning", "disconnected") else []
    pts = {pid: {"z": r3(rng.uniform(100, 300)), "status": "adj", "approx": True} for pid in a + b}
    items = []

    def chain(ids):
        pairs = list(zip(ids, ids[1:]))
        for _ in range(rng.randint(1, 3)):
            if len(ids) >= 2:
                pairs.append(tuple(rng.sample(ids, 2)))
        for u, v in pairs:
            items.append({"from": u, "to": v, "val": pts[v]["z"] - pts[u]["z"] + rng.gauss(0, 1e-3), "dist": r3(rng.uniform(0.2, 3.0))})
    chain(a)
    if b:
        chain(b)
    if plant == "too-few":
        datum = "none-constrained"
    elif plant == "non-spanning":
        datum = "free-one-component"
        for pid in rng.sample(a, rng.randint(2, len(a))):
            pts[pid]["status"] = "con"
    elif plant == "disconnected":
        datum = "fixed-one-component"
        pts[a[0]]["status"] = "fix"
    else:
        datum = rng.choice(["fixed", "free"])
        if datum == "fixed":
            pts[a[0]]["status"] = "fix"
        else:
            for pid in rng.sample(a, rng.randint(1, len(a))):
                pts[pid]["status"] = "con"
    net = {"dim": 1, "points": pts, "obs": [{"kind": "hdiffs", "items": items}],
           "params": {"sigma-apr": 10, "conf-pr": 0.95, "tol-abs": 1000, "sigma-act": "aposteriori"}}
    return net, {"dim": 1, "plant": plant, "datum": datum, "kinds": "dh"}


def plant_floating_poor_approx(rng):
    """round 5 (seeded/C20-seed3): fixed datum + determined rest + a FLOATING component without any constrained
    coordinate (points tied only by mutual distances / directions), and approximate coordinates of the determined points
    off by 0.1 .. 0.4 m, so that after `null_space()` removed the floating points the rest (defect 0 now) is linearised
    and solved AGAIN by the same solver object.  The first regularisation fails (gso: error counter set); whatever
    state that leaves in the solver must not reach the later full-rank systems."""
    kinds = rng.choice([("distance",), ("distance",), ("direction", "distance")])
    nmain = rng.randint(4, 6)
    main = [f"M{k + 1}" for k in range(nmain)]
    pts = grid_points(rng, main)
    obs = observe(rng, pts, main, kinds, density=0.95)
    extra = [f"Q{k + 1}" for k in range(rng.randint(2, 3))]
    pts.update(grid_points(rng, extra, origin=(2000.0, 1000.0), scale=300.0))
    obs += observe(rng, pts, extra, kinds, density=1.0)
    for pid in main[:2]:
        pts[pid]["status"] = "fix"
    shift = rng.choice([0.1, 0.2, 0.3, 0.4])
    for pid in main[2:]:                       # observations were computed from the true positions above
        pts[pid]["x"] = r3(pts[pid]["x"] + rng.uniform(-shift, shift))
        pts[pid]["y"] = r3(pts[pid]["y"] + rng.uniform(-shift, shift))
    net = {"dim": 2, "points": pts, "obs": obs,
           "params": {"sigma-apr": 10, "conf-pr": 0.95, "tol-abs": 1000, "sigma-act": "aposteriori"}}
    return net, {"dim": 2, "plant": "floating-poor-approx", "datum": "fixed", "kinds": "+".join(kinds), "shift": shift}


def gen_planted(rng):
    r = rng.random()
    if r < 0.15:
        return plant_floating_poor_approx(rng)
    return plant_1d(rng) if r < 0.4 else plant_2d(rng)


# ---- exact Jacobian ---------------------------------------------------------------------------

def jacobian(net, include):
    """exact rational design matrix (rows scaled by d resp. d^2: same row space) of the observations among the
    points `include`; columns: ('X'|'Y'|'Z', id) of non-fixed included points, ('R', station).
    returns (rows, cols) with rows as dicts col -> Fraction"""
    P = net["points"]
    fr = lambda v: F(str(v))
    cols, rows = [], []

    def col(c):
        if c not in cols:
            cols.append(c)
        return c

    def free(pid):
        return pid in include and P[pid]["status"] != "fix"
    for o in net["obs"]:
        if o["kind"] == "hdiffs":
            for it in o["items"]:
                u, v = it["from"], it["to"]
                if u not in include or v not in include:
                    continue
                r = {}
                if free(u):
                    r[col(("Z", u))] = F(-1)
                if free(v):
                    r[col(("Z", v))] = r.get(("Z", v), F(0)) + F(1)
                rows.append(r)
        elif o["kind"] == "obs":
            s = o["from"]
            if s not in include:
                continue
            dirs = [it for it in o["items"] if it["t"] == "direction" and it["to"] in include]
            use_dirs = len({it["to"] for it in dirs}) >= 2
            for it in o["items"]:
                t = it["to"]
                if t not in include:
                    continue
                dx, dy = fr(P[t]["x"]) - fr(P[s]["x"]), fr(P[t]["y"]) - fr(P[s]["y"])
                r = {}
                if it["t"] == "distance":
                    cs, ct = (-dx, -dy), (dx, dy)
                elif it["t"] == "direction":
                    if not use_dirs:
                        continue
                    cs, ct = (dy, -dx), (-dy, dx)
                    r[col(("R", s))] = -(dx * dx + dy * dy)
                else:
                    continue
                if free(s):
                    r[col(("X", s))] = cs[0]
                    r[col(("Y", s))] = cs[1]
                if free(t):
                    r[col(("X", t))] = ct[0]
                    r[col(("Y", t))] = ct[1]
                rows.append(r)
    # unknowns exist only for coordinates that occur in an observation (gama: index assigned on first use)
    return rows, cols


def kernel_with_constraints(net, include, unconstrain=()):
    """basis of {g | J g = 0, g = 0 on the constrained coordinates} and the column list
    (constraints on the points in `unconstrain` are ignored)"""
    rows, cols = jacobian(net, include)
    if not cols:
        return [], cols, 0, 0
    M = [[r.get(c, F(0)) for c in cols] for r in rows]
    defect = len(cols) - (g.rank(M) if M else 0)
    cons = [c for c in cols if c[0] in "XYZ" and net["points"][c[1]]["status"] == "con" and c[1] not in unconstrain]
    for c in cons:
        M.append([F(int(c == cc)) for cc in cols])
    K = g.kernel(M, len(cols))
    return K, cols, defect, len(cons)


def rank_oracle(net, tags, runs):
    """exact statements about what gama-local (envelope run) did"""
    bad = []
    r = runs["envelope"]
    v = c02.text_verdict(r)
    allids = list(net["points"])
    removed = [pid for pid, why in c02.text_removed_points(r["text"] + r["out"])]
    K0, cols0, defect0, ncons0 = kernel_with_constraints(net, set(allids))
    adjustable0 = not K0
    if v == "adjusted":
        res = gn.parse_result_xml(r["xml"])
        present = set(res["adjusted"]) | set(res["fixed"])
        rest = set(p for p in allids if p in present)
        K, cols, defect, ncons = kernel_with_constraints(net, rest)
        if K:
            bad.append(f"an adjustment was printed for points {sorted(rest)} although the observations and constrained coordinates "
                       f"among them leave {len(K)} degree(s) of freedom undetermined")
        if res["defect"] is not None and int(res["defect"]) != defect:
            bad.append(f"reported defect {int(res['defect'])} but the Jacobian of the adjusted part has defect {defect}")
        # a removed point must have been truly indeterminate: put it back and look at the kernel
        for pid in removed:
            if pid not in net["points"] or pid in rest:
                continue
            # (its own constrained status does not count: gama's singular_coords removes a point whose x and y
            #  columns are collinear whether or not it is constrained)
            Kp, colsp, _, _ = kernel_with_constraints(net, rest | {pid}, unconstrain=(pid,))
            idx = [i for i, c in enumerate(colsp) if c[1] == pid and c[0] in "XYZ"]
            if idx and all(gv[i] == 0 for gv in Kp for i in idx):
                bad.append(f"point {pid} was removed as indeterminate, but together with the adjusted points {sorted(rest)} "
                           f"its coordinates are fully determined (no kernel vector moves it)")
    else:
        if adjustable0:
            bad.append(f"the network is well posed (defect {defect0}, {ncons0} constrained coordinates resolve it) but gama-local "
                       f"ended with '{v}'")
        elif v == "error:No unknowns have been defined":
            bad.append(f"ill-posed network (defect {defect0}, {ncons0} constrained coordinates, {len(K0)} degree(s) of freedom left) is "
                       f"not diagnosed: every point was stripped and the run ended with 'No unknowns have been defined'")
    if v == "free-network-diagnosis":
        named = c02.text_singular_variables(r)
        m = re.search(r"defect is (\d+)", r["out"] + r["text"])
        if m and int(m.group(1)) != len(named):
            bad.append(f"diagnosis names {len(named)} singular variables but reports defect {m.group(1)}")
    return bad, v, adjustable0, defect0


def check_planted(ctx, corr, n):
    gama = c02.build_gama_retry(ctx, sanitize=False, targets=("gama-local", "gama-g3"))
    nets = []
    for f in sorted((ctx.verif / "corpus" / "C20").glob("*.gkf")):
        nets.append((f.read_text(), {"corpus": f.name}, None))
    for _ in range(n):
        net, tags = gen_planted(ctx.rng)
        nets.append((gn.to_gkf(net, nd=10, description="C20 " + json.dumps(tags, sort_keys=True)), tags, net))
    with tempfile.TemporaryDirectory(prefix="c20-") as work:
        with concurrent.futures.ThreadPoolExecutor(max_workers=12) as ex:
            futs = [ex.submit(c02.run_net4, gama, gkf, work, f"n{i}") for i, (gkf, tags, net) in enumerate(nets)]
            results = [f.result() for f in futs]
    for i, ((gkf, tags, net), runs) in enumerate(zip(nets, results)):
        rep = {"stream": "net", "gkf": gkf, "tags": tags}
        verdicts = {a: c02.text_verdict(runs[a]) for a in GALGS}
        corr.case(key=gkf, sample={"net": tags, "verdicts": verdicts,
                                   "removed": c02.text_removed_points(runs["envelope"]["text"] + runs["envelope"]["out"])} if i < 3 else None)
        corr.count("net_cases")
        corr.count("net_verdict_" + verdicts["envelope"].replace(" ", "_")[:50])
        for k in ("plant", "datum", "dim"):
            if k in tags:
                corr.count(f"net_{k}_{tags[k]}")
        if c02.text_removed_points(runs["envelope"]["text"] + runs["envelope"]["out"]):
            corr.count("net_with_removed_points")
        if tags.get("plant") == "floating-poor-approx":
            # the scenario needs BOTH: points removed by null_space() and a second linearisation of the rest
            m_it = re.search(r"<linearization-iterations>\s*(\d+)", runs["envelope"]["xml"] or "")
            it = int(m_it.group(1)) if m_it else 0
            if it >= 1 and c02.text_removed_points(runs["envelope"]["text"] + runs["envelope"]["out"]):
                corr.count("net_floating_removed_then_relinearised")
        for what, site, detail in c02.net_oracle(runs):
            corr.fail(what, dict(rep, oracle="cross-algorithm"), site, detail)
        for a in GALGS:
            for b in c02.nonfinite(runs[a]):
                corr.fail(f"gama-local --algorithm {a} printed a non-finite number: {b}", dict(rep, oracle="nonfinite"), f"gama-local/{a}")
            rc, v = runs[a]["rc"], verdicts[a]
            # (an error document written with --xml ends with status 0: XMLerror::write_xml returns 0 by design)
            if (v == "adjusted" and rc != 0) or (v == "free-network-diagnosis" and rc != 1):
                corr.fail(f"gama-local --algorithm {a}: exit status {rc} with verdict '{v}'", dict(rep, oracle="exit-status"), f"gama-local/{a}")
        if net is not None:
            bad, v, adjustable0, defect0 = rank_oracle(net, tags, runs)
            corr.count("net_truly_adjustable" if adjustable0 else "net_truly_ill_posed")
            for b in bad:
                corr.fail("gama-local (envelope): " + b, dict(rep, oracle="rank", verdict=v), "LocalNetwork::null_space")
    tot = corr.stats.get("net_cases", 0)
    if tot and corr.stats.get("net_truly_ill_posed", 0) < 0.4 * tot:
        corr.inconclusive.append("fewer than 40% truly ill-posed networks")
    if n >= 30 and corr.stats.get("net_floating_removed_then_relinearised", 0) < 2:
        corr.inconclusive.append("fewer than 2 networks with a removed floating component AND a second linearisation of the rest")


def translate(ctx):
    """round 5: lean/Gama/Gen/IcgsError.lean (reset / increment / read sites of the gso error counter; Props/C20/GsoSticky.lean)"""
    from props import c04_full
    c04_full.translate_icgs(ctx)


def correspond(ctx, corr):
    check_ls(ctx, corr, ctx.size(12, 400))
    check_planted(ctx, corr, ctx.size(36, 1200))
    c02.check_decision(ctx, corr, ctx.size(200, 5000))
    c02.check_singular(ctx, corr, ctx.size(150, 3000))
    # refusal of the svd subset regularisation (Props/C20/SvdSubset.lean): refused iff the subset does not resolve the
    # defect, in particular a subset of size exactly = defect that resolves it is accepted (stream shared with C08)
    from props import c08
    c08.svdsub_stream(ctx, corr, ctx.size(24, 600))
    if corr.stats.get("svdsub_size_eq_defect_resolving", 0) < 10:
        corr.inconclusive.append("too few svd subsets of size exactly = defect that resolve it")


def search(ctx, broken, corr):
    big = Ctx(ctx.id, "thorough", ctx.seed + 1000)
    big.thorough = True
    c2 = Corr()
    check_planted(big, c2, 300)
    if not c2.failures:
        check_ls(big, c2, 200)
    c2.failures.sort(key=lambda f: len(json.dumps(f.replay)))
    return c2.failures[:6]


def classify(ctx, failure):
    inp = failure.replay if isinstance(failure.replay, dict) else {}
    w = failure.what
    # F7: under-determined configurations are not diagnosed; null_space strips points one at a time, the point it
    # strips is the one of the first FLAGGED unknown, which legitimately differs between algorithms (and for svd is
    # the index of a singular value): the removal records differ although the adjusted rest is the same
    if inp.get("stream") == "net" and inp.get("oracle") == "cross-algorithm" and re.match(
            r"gama-local --algorithm envelope vs (cholesky|gso|svd): removed points \[.*\] vs \[.*\]$", w):
        return "F7"
    if inp.get("stream") == "net" and inp.get("oracle") == "cross-algorithm" and re.match(
            r"gama-local --algorithm envelope vs (cholesky|gso|svd): (removed points \[.*\] vs \[.*\]; )?<id> '\S+' vs '\S+'", w):
        return "F7"
    if inp.get("stream") == "net" and inp.get("oracle") == "rank" and inp.get("verdict") == "error:No unknowns have been defined" \
            and re.match(r"gama-local \(envelope\): ill-posed network \(defect \d+, \d+ constrained coordinates, \d+ degree\(s\) of "
                         r"freedom left\) is not diagnosed: every point was stripped", w):
        return "F7"
    if c02.classify(ctx, failure) == "F22":      # envelope under-counts the defect (recorded under C02 as well)
        return "F22"
    if inp.get("stream") == "ls" and inp.get("alg") == "svd" and re.match(
            r"svd: unknowns flagged as dependent \[[\d, ]+\]: deleting them leaves a rank-deficient matrix", w):
        return "F7-svd"
    return None


def replay(ctx, payload):
    f = payload.get("failure")
    if not f:
        print(json.dumps(payload.get("no_longer_checks"), indent=1)[:3000])
        return 1
    return c02.replay(ctx, payload)
