"""C04, second part — state machines of AdjCholDec / AdjGSO / AdjSVD(+SVD), class Adj and the
LocalNetwork update cascade.  Streams to be called from tools/props/c04.py:

    from props import c04_full
    PROPS_FILES  = PROPS_FILES + c04_full.PROPS_FILES
    LEAN_TARGETS = LEAN_TARGETS + c04_full.LEAN_TARGETS
    DRIVERS      = DRIVERS + c04_full.DRIVERS
    def translate(ctx): c04_full.translate(ctx)          # regenerates lean/Gama/Gen/NetCascade.lean (tools/gen/c04_cascade.py: cascade table,
                                                         # hand-over site, set_algorithm, MoveToFront capacity) and Gen/IcgsError.lean (c20_icgs.py)
    at the end of correspond(ctx, corr):
        c04_full.run_full_state(ctx, corr)      # chol/gso/svd: state after every call + numerics + fresh oracle
        c04_full.run_adj_state(ctx, corr)       # Adj: same, with set_algorithm switches
        c04_full.run_net_cascade(ctx, corr)     # LocalNetwork: flags after every call + fresh-network oracle
        c04_full.run_plain_heap(ctx, corr)      # the Adj/solver histories on a build WITHOUT sanitizers
        c04_full.run_corpus_programs(ctx, corr) # corpus/C04/replay-*.cpp regression programs

Every stream runs the real object (harness/c04_full.cpp, harness/c04_net.cpp; private state through the
friend probe) and the Lean state machine (lean/Driver/FullState.lean, lean/Driver/NetState.lean) on the
same histories: the discrete state after EVERY call must agree exactly, answers agree numerically
(through the history-free models) and every answer is compared with a fresh object (oracle).
Since round 6/9 the chol / gso / svd machines of both entries (solver, Adj) run on `Full.inputOf alg p` computed from the numeric
problem (Adj: the homogenised one) and an `info` line of the real object is accepted only if it agrees (FInfo.agrees);
`set_algorithm <name>` of the network stream compares the dynamic class of `least_squares` with `classOf Gen.setAlg name`.
Theorems: Props/C04Full.lean, C04Pending.lean (negative regions), C04Net.lean (network-level denotation; not executed by a driver).
"""
import os
import random
import re
from pathlib import Path
import shutil
import sys
import time
from lib.core import *
from lib import gen_ls as g
from fractions import Fraction as F

PROPS_FILES = ["Gama/Props/C04Full.lean", "Gama/Props/C04Pending.lean", "Gama/Props/C04Net.lean"]
LEAN_TARGETS = ["Gama.Props.C04Full", "Gama.Props.C04Pending", "Gama.Props.C04Net"]
DRIVERS = ["drv_fullstate", "drv_netstate"]
SRC = ["lib/gnu_gama/adj/adj.cpp", "lib/gnu_gama/adj/icgs.cpp", "lib/gnu_gama/adj/adj_input_data.cpp"]
CONFIG_OPS = ("min_x", "min_x_all", "reset", "set_alg")      # "reset" also matches reset_new
RTOL, ATOL = 1e-7, 1e-8
SILENT = ("problem", "row", "cov", "rhs", "minx")       # definition lines: no output


def full_harness(ctx):
    return ctx.build_cpp("c04_full", [ctx.verif / "harness" / "c04_full.cpp"] + [ctx.repo / s for s in SRC],
                         includes=[ctx.verif / "harness"])


# ---------------------------------------------------------------------------------- generators

def _problem(rng, unit):
    while True:
        p = g.gen_problem(rng, rng.choice(["levelling", "levelling", "dense"]), correlated=(not unit and rng.random() < 0.4))
        if p["n"] >= 2:
            break
    if unit:
        p["cov"] = [{"dim": p["m"], "width": 0, "v": [F(1)] * p["m"]}]
        p["unit_cov"] = True
    return p


def _finish(q):
    q["kernel"] = g.kernel(g.dense(q), q["n"])
    q["defect"] = len(q["kernel"])
    q["unit_cov"] = all(b["width"] == 0 and all(x == 1 for x in b["v"]) for b in q["cov"])
    return q


def banded_cov(rng, m):
    """covariance with at least one block of band width > 0 (homogenisation fill-in in Adj's A_dot)"""
    blocks, left = [], m
    first = True
    while left > 0:
        d = min(left, rng.choice([2, 3, 4, left]) if first and left >= 2 else rng.choice([1, 2, 3, left]))
        if d >= 2 and (first or rng.random() < 0.5):
            blocks.append(g._spd_block(rng, d, rng.randint(1, d - 1)))
        else:
            blocks.append({"dim": d, "width": 0, "v": [F(rng.choice([1, 2, 4, 9]), rng.choice([1, 4])) for _ in range(d)]})
        first = False
        left -= d
    return blocks


def same_shape_variant(rng, p, unit):
    """ANOTHER problem with the same m x n: rows shuffled and unknowns renumbered (every row position gets another
    column pattern), some coefficients rescaled, new covariance and right-hand side"""
    n, m = p["n"], p["m"]
    rows = [list(r) for r in p["rows"]]
    rng.shuffle(rows)
    perm = list(range(1, n + 1))
    rng.shuffle(perm)
    rows = [[(perm[c - 1], v * rng.choice([1, 1, 2, -1])) for c, v in r] for r in rows]
    q = {"m": m, "n": n, "rows": rows, "family": p["family"],
         "cov": [{"dim": m, "width": 0, "v": [F(1)] * m}] if unit else (banded_cov(rng, m) if rng.random() < 0.7 else g.gen_cov(rng, m, True)),
         "rhs": [F(rng.randint(-8, 8), rng.choice([1, 2, 4])) for _ in range(m)]}
    return _finish(q)


def gen_problems(rng, unit, k=None):
    """2-3 problems for one long-lived object: equal-size variants and problems of another size, regular and
    singular; not unit: most have a correlated block of band > 0"""
    k = k or rng.choice([2, 2, 3])
    p = _problem(rng, unit)
    if not unit and p["m"] >= 2 and rng.random() < 0.7:
        p["cov"] = banded_cov(rng, p["m"])
        _finish(p)
    ps = [p]
    while len(ps) < k:
        if rng.random() < 0.6:
            ps.append(same_shape_variant(rng, rng.choice(ps), unit))
        else:
            q = _problem(rng, unit)
            if not unit and q["m"] >= 2 and rng.random() < 0.7:
                q["cov"] = banded_cov(rng, q["m"])
                _finish(q)
            ps.append(q)
    return ps


def _valid_for(p, S):
    """the configured list (None/'all' = all unknowns) can be used on problem p and resolves its defect"""
    if S is None or S == "all":
        return True
    return all(1 <= i <= p["n"] for i in S) and (p["defect"] == 0 or g.resolves(p, S))


def _subsets(rng, p, k=4):
    return [S for S, ok in g.gen_subsets(rng, p, k) if ok and len(S) >= max(1, p["defect"])]


def _nonresolving_long(rng, p, tries=12):
    """lists with AT LEAST `defect` in-range indices that still do not resolve the defect (exact rank test).  Round 6:
    the driver asks the numeric solver model (`resolvesF`, run at Float on `{p with reg := subset l}`) instead of
    comparing lengths, so these are decided like any other list.  They are exactly rank deficient (small rational data),
    far from the refusal thresholds of the three classes — no borderline case is generated."""
    out = []
    d, n = p["defect"], p["n"]
    if d == 0:
        return out
    for _ in range(tries):
        S = sorted(rng.sample(range(1, n + 1), rng.randint(d, n)))
        if not g.resolves(p, S) and S not in out:
            out.append(S)
    return out


def gen_full_history(rng, maxlen, want_singular=None, throwing=False, multi=False):
    """one long-lived chol/gso/svd object: queries interleaved with min_x changes and resets
    (multi: also `reset_new k` = reset(A', b') of another problem of the same or another size)"""
    while True:
        ps = gen_problems(rng, unit=True) if multi else [_problem(rng, unit=True)]
        p = ps[0]
        if want_singular is None or any(bool(q["defect"]) == want_singular for q in ps):
            break
    alg = rng.choice(["chol", "gso", "svd"])
    subs = _subsets(rng, p)
    bad = []
    if throwing and p["defect"] >= 1:
        # lists shorter than the defect never resolve it (any algorithm)
        bad = [sorted(rng.sample(range(1, p["n"] + 1), k)) for k in range(0, p["defect"]) for _ in range(2)]
        long_bad = _nonresolving_long(rng, p)
        p["_long_bad"] = len(long_bad)
        bad += long_bad
    init = rng.choice([None, "all"] + subs)
    ops = [l for q_ in ps[1:] for l in g.problem_lines(q_, None)] + g.problem_lines(p, init)
    order = ps[1:] + [p]                               # identities in definition order; the first one is used by `new`
    ops += [f"new {alg} solver", f"info {alg}", "state"]
    p["_all"] = order
    n, m = p["n"], p["m"]
    keys = [rng.randint(1, n) for _ in range(rng.randint(1, 4))]
    okeys = [rng.randint(1, m) for _ in range(rng.randint(1, 3))]
    qs = []
    last = None
    cur, cfg = p, init
    for _ in range(rng.randint(2, maxlen)):
        r = rng.random()
        if multi and r < 0.12:
            k = rng.randrange(len(order))
            # a per-row artefact of q_bb must not survive reset(A', b') (seeded/C03-seed4: `aq = A_row(i)*Q0` cached by
            # row index): half of the resets are bracketed by q_bb(i, .) of the SAME row i, nothing else in between
            same_row = None
            if rng.random() < 0.5:
                same_row = rng.randint(1, min(m, order[k]["m"]))
                qs.append("qbb %d %d" % (same_row, rng.randint(1, m)))
            cur = order[k]
            qs.append(f"reset_new {k + 1}")
            if not _valid_for(cur, cfg):               # the caller re-configures the regularisation for the new system
                cs = _subsets(rng, cur)
                if cs and rng.random() < 0.7:
                    cfg = rng.choice(cs)
                    qs.append("min_x %d %s" % (len(cfg), " ".join(map(str, cfg))))
                else:
                    cfg = "all"
                    qs.append("min_x_all")
            if same_row is not None:
                qs.append("qbb %d %d" % (same_row, rng.randint(1, cur["m"])))
            n, m = cur["n"], cur["m"]
            keys = [rng.randint(1, n) for _ in range(rng.randint(1, 4))]
            okeys = [rng.randint(1, m) for _ in range(rng.randint(1, 3))]
            subs = _subsets(rng, cur)
            bad = []
            last = None
            continue
        if r < 0.88 and r >= 0.75 and not subs:
            r = 0.9
        if last is not None and r < 0.15 and not last.startswith(CONFIG_OPS):
            q = last                                   # repeated query
        elif r < 0.25:
            q = "x"
        elif r < 0.31:
            q = "r"
        elif r < 0.36:
            q = "rtr"
        elif r < 0.44:
            q = "defect"
        elif r < 0.56:
            q = "qxx %d %d" % (rng.choice(keys), rng.choice(keys))
        elif r < 0.62:
            q = "qbb %d %d" % (rng.choice(okeys), rng.choice(okeys))
        elif r < 0.68:
            q = "qbx %d %d" % (rng.choice(okeys), rng.choice(keys))
        elif r < 0.75:
            q = "lindep %d" % rng.choice(keys)
        elif r < 0.88:
            S = rng.choice(bad) if (bad and rng.random() < 0.5) else rng.choice(subs)
            q = "min_x %d %s" % (len(S), " ".join(map(str, S)))
            cfg = S
        elif r < 0.94:
            q = "min_x_all"
            cfg = "all"
        else:
            q = "reset"
        qs.append(q)
        last = q
    return p, alg, ops, qs


def gen_refusal_history(rng, maxlen, alg=None):
    """round 5 (seeded/C20-seed3): one long-lived chol/gso/svd object that is REFUSED (BadRegularization: singular system,
    list shorter than the defect) and then handed, by `reset_new`, (a) a full-rank system, (b) a singular system the
    configured list resolves, (c) the refused system again / another one it does not resolve.  After `reset_new` (and
    after `min_x…`) the answers — values or the refusal — must be those of a fresh object; only the queries asked
    while the refusal of the very same system and configuration is pending are outside (model: `after-throw`).
    Round 6: the driver decides `resolves` by running the numeric solver model on the list (`Full.inputOf`), so a
    configuration is kept for a new system whenever its indices are inside that system's range — also a list of at
    least `defect` indices that does not resolve it (`then_refused_long`)."""
    while True:
        ps = gen_problems(rng, unit=True, k=3)
        sing = [q for q in ps if q["defect"] > 0]
        reg = [q for q in ps if q["defect"] == 0]
        if sing and reg:
            break
        if sing and not reg:                           # make one: a regular problem of its own
            for _ in range(20):
                q = _problem(rng, unit=True)
                if q["defect"] == 0:
                    ps = ps[:2] + [q]
                    reg = [q]
                    break
            if reg:
                break
    p = sing[0]
    order = [q for q in ps if q is not p] + [p]       # the last defined problem is the one `new` uses
    alg = alg or rng.choice(["gso", "gso", "chol", "svd"])
    bad = sorted(rng.sample(range(1, p["n"] + 1), rng.randint(0, p["defect"] - 1)))
    longs = _nonresolving_long(rng, p, tries=6)
    if longs and rng.random() < 0.4:
        bad = rng.choice(longs)
    ops = [l for q_ in order[:-1] for l in g.problem_lines(q_, None)] + g.problem_lines(p, bad)
    ops += [f"new {alg} solver", f"info {alg}", "state"]
    p["_all"] = order
    stats = {"refused": 0, "then_regular": 0, "then_singular_resolving": 0, "then_refused_again": 0, "refused_long_list": 0}
    if len(bad) >= p["defect"]:
        stats["refused_long_list"] += 1

    def queries(cur, k):
        out = []
        for _ in range(k):
            r = rng.random()
            n, m = cur["n"], cur["m"]
            if r < 0.35:
                out.append("x")
            elif r < 0.5:
                out.append("qxx %d %d" % (rng.randint(1, n), rng.randint(1, n)))
            elif r < 0.62:
                out.append("defect")
            elif r < 0.72:
                out.append("r")
            elif r < 0.8:
                out.append("rtr")
            elif r < 0.88:
                out.append("lindep %d" % rng.randint(1, n))
            elif r < 0.94:
                out.append("qbb %d %d" % (rng.randint(1, m), rng.randint(1, m)))
            elif alg == "env":                         # AdjEnvelope has no q_bx; its own extra query is q0_xx
                out.append("q0xx %d %d" % (rng.randint(1, n), rng.randint(1, n)))
            else:
                out.append("qbx %d %d" % (rng.randint(1, m), rng.randint(1, n)))
        return out

    def outcome(cur, cfg):
        if cur["defect"] == 0:
            return "regular"
        S = list(range(1, cur["n"] + 1)) if cfg == "all" else cfg
        return "resolving" if g.resolves(cur, S) else "refused"

    qs = queries(p, rng.randint(1, 2))                 # refused (the first one), then asked again while pending
    stats["refused"] += 1
    cur, cfg = p, bad
    pending = True
    for _ in range(rng.randint(2, max(3, maxlen // 4))):
        r = rng.random()
        if r < 0.7:
            k = rng.randrange(len(order))
            cur = order[k]
            qs.append(f"reset_new {k + 1}")
            keep = cfg == "all" or all(1 <= i <= cur["n"] for i in cfg)
            if not keep or (outcome(cur, cfg) == "refused" and rng.random() < 0.4):
                cs = _subsets(rng, cur)
                if cs and rng.random() < 0.7:
                    cfg = rng.choice(cs)
                    qs.append("min_x %d %s" % (len(cfg), " ".join(map(str, cfg))))
                else:
                    cfg = "all"
                    qs.append("min_x_all")
        elif r < 0.85:
            # back to a list too short for the current system (refused again when singular)
            cfg = sorted(rng.sample(range(1, cur["n"] + 1), rng.randint(0, max(0, cur["defect"] - 1))))
            qs.append("min_x %d %s" % (len(cfg), " ".join(map(str, cfg))))
        else:
            qs.append("reset")
        oc = outcome(cur, cfg)
        if pending:
            stats["then_regular" if oc == "regular" else "then_singular_resolving" if oc == "resolving" else "then_refused_again"] += 1
        pending = oc == "refused"
        if pending:
            stats["refused"] += 1
            if cfg != "all" and len(cfg) >= cur["defect"]:
                stats["refused_long_list"] += 1
        qs += queries(cur, rng.randint(1, 3))
    p["_refusal"] = stats
    return p, alg, ops, qs


def gen_adj_history(rng, maxlen, multi=False):
    """one long-lived Adj: queries interleaved with set_algorithm switches (and back) and set(same data)
    (multi: also `reset_new k` = set(data of another problem): same or other shape, correlated blocks of band > 0)"""
    ps = gen_problems(rng, unit=False) if multi else [_problem(rng, unit=False)]
    p = ps[0]
    algs = ["env", "chol", "gso", "svd"]
    alg = rng.choice(algs) if not multi else rng.choice(["chol", "gso", "svd", "svd", "gso", "env"])
    order = ps[1:] + [p]
    ops = []
    for q_ in order:
        ops += g.problem_lines(q_, rng.choice([None, None] + _subsets(rng, q_)))
    ops += [f"new {alg} adj"] + [f"info {a}" for a in algs] + ["envinfo", "state"]
    p["_all"] = order
    n, m = p["n"], p["m"]
    keys = [rng.randint(1, n) for _ in range(rng.randint(1, 4))]
    okeys = [rng.randint(1, m) for _ in range(rng.randint(1, 3))]
    qs = []
    cur, prev = alg, alg
    for _ in range(rng.randint(2, maxlen)):
        r = rng.random()
        if multi and r < 0.14:
            k = rng.randrange(len(order))
            qs.append(f"reset_new {k + 1}")
            n, m = order[k]["n"], order[k]["m"]
            keys = [rng.randint(1, n) for _ in range(rng.randint(1, 4))]
            okeys = [rng.randint(1, m) for _ in range(rng.randint(1, 3))]
            continue
        if multi and r < 0.30:
            # off-diagonal cofactors of unknowns / observations far apart (outside a narrow envelope)
            q = rng.choice(["qxx 1 %d" % n, "qbb 1 %d" % m, "qxx %d 1" % n, "qbb %d %d" % (m, rng.randint(1, m))])
            qs.append(q)
            continue
        if r < 0.14:
            q = "x"
        elif r < 0.22:
            q = "r"
        elif r < 0.30:
            q = "rtr"
        elif r < 0.40:
            q = "defect"
        elif r < 0.58:
            q = "qxx %d %d" % (rng.choice(keys), rng.choice(keys))
        elif r < 0.72:
            q = "qbb %d %d" % (rng.choice(okeys), rng.choice(okeys))
        elif r < 0.92:
            a = prev if rng.random() < 0.4 else rng.choice(algs)      # biased to switch back
            prev, cur = cur, a
            q = "set_alg " + a
        else:
            q = "reset"
        qs.append(q)
    return p, alg, ops, qs


def interleave(qs, facts=()):
    """facts: the lines that re-read the input facts after `reset_new` (info <alg> … / envinfo)"""
    lines = []
    for q in qs:
        lines.append(q)
        if q.startswith("reset_new"):
            lines.extend(facts)
        lines.append("state")
        if not q.startswith(CONFIG_OPS):
            lines.append("fresh " + q)
    return lines


def _facts(ops):
    return [l for l in ops if l.startswith(("info", "envinfo"))]


# ---------------------------------------------------------------------------------- comparison

def _mask_state(line, n, kernel=None):
    """svd: `veq` is a bitwise comparison of V_ with the saved plain V (a numeric proxy of the model's ghost
    "V_ is plain"); regularising over a subset that contains the support of the whole null space is the same
    minimisation as over all unknowns and may leave the same bits (thorough run 1, replay C04-1: list [2,3],
    null vector (0,1,-1))"""
    t = line.split()
    if "veq" in t and "list" in t and "st" in t:
        try:
            k = t.index("st")
            li = t.index("list")
            if t[li + 1] != "null":
                cnt = int(t[li + 1])
                lst = set(map(int, t[li + 2: li + 2 + cnt]))
                supp = set(range(1, n + 1)) if kernel is None else {i + 1 for z in kernel for i, zi in enumerate(z) if zi != 0}
                if t[k + 3] == "1" and lst >= supp:
                    t[t.index("veq") + 1] = "*"
        except (ValueError, IndexError):
            pass
    return " ".join(t)


def line_ok(impl, model, n, kernel=None):
    if model == "not-modelled":
        return True                                     # numeric model does not cover the query
    if model == "after-throw":
        return not impl.startswith(("throw", "<"))      # outside the quantifier: only "no throw" is checked
    if impl.startswith(("st ", "adj ")) or model.startswith(("st ", "adj ")):
        a, b = _mask_state(impl, n, kernel).split(), _mask_state(model, n, kernel).split()
        # svd after a refused `min_subset_x` (ghost `.broken`): whether V_ was already modified depends on WHICH null
        # column failed; the model prints `veq *`
        if "veq" in b and len(a) == len(b) and b[b.index("veq") + 1] == "*" and a[b.index("veq")] == "veq":
            a[b.index("veq") + 1] = "*"
        return a == b
    return lines_equal(impl, model, rtol=RTOL, atol=ATOL)


def fresh_failures(lines, out, skip):
    """the property on the implementation itself: answer == answer of a fresh object"""
    bad = []
    for k, l in enumerate(lines):
        if l.startswith("fresh ") and k - 2 >= 0 and k < len(out) and (k - 2) not in skip:
            a, f = out[k - 2], out[k]
            if a.startswith("throw") or f.startswith("throw"):
                if a.split()[:2] == f.split()[:2]:
                    continue
            if not lines_equal(a, f, rtol=RTOL, atol=ATOL):
                bad.append((k, l[6:], a, f))
    return bad


def run_stream(ctx, corr, exe, drv, gens, stream, site):
    """gens: [(p, alg, ops, qs)]; returns number of compared lines"""
    cases = [ops + interleave(qs, _facts(ops)) for (_, _, ops, qs) in gens]
    impl, crashes = run_cases(exe, cases, timeout=1800)
    mcases = []
    for c, o in zip(cases, impl):
        silent = len([l for l in c if l.split()[0] in SILENT])
        mc = list(c[:silent])
        for l, ol in zip(c[silent:], o + [""] * len(c)):
            mc.append(ol if (l.startswith(("info", "envinfo")) and ol.startswith(("info", "envinfo"))) else l)
        mcases.append(mc)
    model, _ = run_cases(drv, mcases, timeout=1800)
    compared = 0
    for i, (p, alg, ops, qs) in enumerate(gens):
        c = cases[i]
        nprob = len([l for l in c if l.split()[0] in SILENT])
        a, b = impl[i], model[i]
        lines = c[nprob:]                  # lines that produce exactly one output line each
        if i in crashes:
            corr.fail(f"history crashes the object ({stream}: sanitizer / abort)", {"stream": stream, "ops": c},
                      site + "/" + alg, crashes[i][1])
            continue
        if len(a) != len(lines) or len(b) != len(lines):
            corr.disagree(stream, c, a[:6] + ["…"] + a[-4:], b[:6] + ["…"] + b[-4:], f"output lengths {len(a)}/{len(b)} for {len(lines)} ops")
            continue
        curp, curs = p, []
        for l in lines:                    # the problem the object holds when each line is executed
            if l.startswith("reset_new"):
                curp = p["_all"][int(l.split()[1]) - 1]
            curs.append(curp)
        bad = next((k for k in range(len(lines)) if not line_ok(a[k], b[k], curs[k]["n"], curs[k].get("kernel"))), None)
        compared += len(lines)
        corr.count(stream + "_numeric_skipped_not_modelled", sum(1 for x in b if x == "not-modelled"))
        # round 6: every echoed `info` line of a solver-entry object passed `FInfo.agrees` (size and defect read from the
        # real class = those the numeric model computes for the problem the machine runs on); a refused one is printed as
        # `info-does-not-describe-the-problem …` and is a disagreement below
        if stream.startswith("fullstate"):
            corr.count("full_info_agreement_checks", sum(1 for x in b if x.startswith("info ")))
            corr.count("full_info_refused", sum(1 for x in b if x.startswith("info-does-not-describe")))
        elif stream.startswith("adjstate"):
            # round 9: the adj entry too — `info chol|gso|svd` lines are echoed only if `FInfo.agrees` with `Full.inputOf alg q`,
            # `q` the homogenised problem the solver inside `Adj` is given (`adj_driver_input_is_instance`)
            corr.count("adj_info_agreement_checks", sum(1 for x in b if x.startswith("info ") and not x.startswith("info env")))
            corr.count("adj_info_refused", sum(1 for x in b if x.startswith("info-does-not-describe")))
            # round 13: `envinfo` (ordering / size / defect of the envelope solver inside Adj: `Info.agrees p`) and `info env`
            # (defect = `defectP p`) are agreement-checked too
            corr.count("adj_envinfo_agreement_checks", sum(1 for x in b if x.startswith(("envinfo ", "info env "))))
            corr.count("adj_envinfo_refused", sum(1 for x in b if x.startswith("envinfo-does-not-describe")))
        corr.count(stream + "_state_lines", sum(1 for x in b if x.startswith(("st ", "adj "))))
        corr.count(stream + "_numeric_lines", sum(1 for x in b if x.startswith(("vec", "val", "int", "flag"))))
        if bad is not None:
            lo = max(0, bad - 3)
            corr.disagree(stream, c, [f"{lines[k]} -> {a[k]}" for k in range(lo, bad + 1)],
                          [f"{lines[k]} -> {b[k]}" for k in range(lo, bad + 1)],
                          f"first difference at op #{bad} '{lines[bad]}' ({alg})")
        # oracle on the implementation (skip answers the model places outside the quantifier)
        skip = {k for k in range(len(lines)) if b[k] == "after-throw"}
        ff = [] if stream.endswith("-throw") else fresh_failures(lines, a, skip)
        if ff:
            k, q, got, fr = ff[0]
            corr.fail(f"answer to '{q}' depends on history: got {got}, fresh object gives {fr}",
                      {"stream": stream, "ops": c[:nprob] + lines[:k + 1], "alg": alg}, site + "/" + alg, f"{got} vs {fr}")
    return compared


def run_full_state(ctx, corr, n=None, maxlen=None):
    exe = full_harness(ctx)
    drv = ctx.driver("drv_fullstate")
    n = n or ctx.size(600, 12000)
    maxlen = maxlen or ctx.size(22, 90)
    gens = []
    for k in range(n):
        gens.append(gen_full_history(ctx.rng, maxlen, want_singular=(k % 3 != 0), multi=(k % 5 in (1, 3))))
    # a few histories with lists that cannot resolve the defect (outside the quantifier; throw + flags modelled)
    tgens = [gen_full_history(ctx.rng, maxlen, want_singular=True, throwing=True) for _ in range(max(10, n // 8))]
    for (p, alg, ops, qs) in gens:
        sing = p["defect"] > 0
        cfg = sum(1 for q in qs if q.startswith(("min_x", "reset")))
        corr.case(key=" ".join(ops + qs) if (sing and cfg >= 1) else None,
                  sample={"alg": alg, "defect": p["defect"], "history": qs[:14]} if corr_first(corr, "full_sample") else None)
        corr.count(f"full_{alg}")
        corr.count("full_singular" if sing else "full_regular")
        corr.count("full_ops", len(qs))
        corr.count("full_minx_changes", sum(1 for q in qs if q.startswith("min_x")))
        rn = [int(q.split()[1]) - 1 for q in qs if q.startswith("reset_new")]
        corr.count("full_reset_new", len(rn))
        corr.count("full_reset_new_other_size", sum(1 for k in rn if (p["_all"][k]["m"], p["_all"][k]["n"]) != (p["m"], p["n"])))
        corr.count("full_repeats", sum(1 for a, b in zip(qs, qs[1:]) if a == b))
    # round 5: refused solves FOLLOWED by reset_new to full-rank / singular-resolving systems on the same object, with
    # the fresh-object oracle on (a refusal must not leak into another system: seeded/C20-seed3, ICGS error counter)
    rgens = [gen_refusal_history(ctx.rng, maxlen, alg=("gso" if k % 2 == 0 else None)) for k in range(max(40, n // 6))]
    for (p, alg, ops, qs) in rgens:
        corr.case(key=" ".join(ops + qs), sample={"alg": alg, "defect": p["defect"], "history": qs[:14]} if corr_first(corr, "refusal_sample") else None)
        corr.count(f"full_refusal_{alg}")
        for k_, v_ in p["_refusal"].items():
            corr.count("full_refusal_" + k_, v_)
    c1 = run_stream(ctx, corr, exe, drv, gens, "fullstate", "AdjBaseFull")
    c2 = run_stream(ctx, corr, exe, drv, tgens, "fullstate-throw", "AdjBaseFull")
    c3 = run_stream(ctx, corr, exe, drv, rgens, "fullstate-refusal", "AdjBaseFull")
    corr.count("full_refusal_histories", len(rgens))
    corr.count("full_refusal_lines_compared", c3)
    if corr.stats.get("full_refusal_then_regular", 0) < 10 or corr.stats.get("full_refusal_then_singular_resolving", 0) < 10:
        corr.inconclusive.append("C04 full solvers: fewer than 10 refused solves followed by a full-rank / by a singular resolving system")
    corr.count("full_lines_compared", c1)
    corr.count("full_throw_histories", len(tgens))
    corr.count("full_throw_long_nonresolving_lists", sum(g_[0].get("_long_bad", 0) for g_ in tgens))
    corr.count("full_throw_lines_compared", c2)
    share = sum(1 for g_ in gens if g_[0]["defect"] > 0) / max(1, len(gens))
    if share < 0.3:
        corr.inconclusive.append("C04 full solvers: fewer than 30% singular problems")


def run_adj_state(ctx, corr, n=None, maxlen=None):
    exe = full_harness(ctx)
    drv = ctx.driver("drv_fullstate")
    n = n or ctx.size(400, 9000)
    maxlen = maxlen or ctx.size(18, 70)
    gens = [gen_adj_history(ctx.rng, maxlen, multi=(k % 2 == 1)) for k in range(n)]
    for (p, alg, ops, qs) in gens:
        sw = sum(1 for q in qs if q.startswith("set_alg"))
        rn = [int(q.split()[1]) - 1 for q in qs if q.startswith("reset_new")]
        corr.count("adj_set_other_data", len(rn))
        corr.count("adj_set_other_data_same_shape", sum(1 for k in rn if (p["_all"][k]["m"], p["_all"][k]["n"]) == (p["m"], p["n"])))
        corr.count("adj_problems_with_band", sum(1 for q_ in p["_all"] if any(b["width"] > 0 for b in q_["cov"])))
        corr.case(key=" ".join(ops + qs) if sw >= 1 else None,
                  sample={"alg": alg, "defect": p["defect"], "history": qs[:14]} if corr_first(corr, "adj_sample") else None)
        corr.count("adj_hist")
        corr.count("adj_singular" if p["defect"] else "adj_regular")
        corr.count("adj_set_algorithm", sw)
        corr.count("adj_ops", len(qs))
    c = run_stream(ctx, corr, exe, drv, gens, "adjstate", "Adj")
    corr.count("adj_lines_compared", c)


# ---------------------------------------------------------------------------------- plain-heap variants
# ASan's quarantine and allocation fill hide reads of uninitialised members (a new object never sees the
# bytes of a freed one).  The same histories are therefore also run on a build WITHOUT sanitizers, where
# glibc hands the freed block of the previous solver object to the next one (Adj::init_least_squares does
# `delete least_squares; new …`, the harness' `fresh` does the same): outputs must equal the ASan build's.

def _unity(ctx):
    """one translation unit for the three library sources: with more than three sources build_cpp links
    with the sanitizer flags only, and ASan's allocator would come back in through the link step"""
    f = ctx.build / ("c04_unity_" + sha(str(ctx.repo)) + ".cpp")
    text = "".join(f'#include "{ctx.repo / s_}"\n' for s_ in SRC)
    if not f.exists() or f.read_text() != text:
        f.write_text(text)
    return f


def plain_harness(ctx):
    return ctx.build_cpp("c04_full_plain", [ctx.verif / "harness" / "c04_full.cpp", _unity(ctx)],
                         flags=["-fno-sanitize=all"], includes=[ctx.verif / "harness"])


def run_plain_heap(ctx, corr, n=None, maxlen=None):
    exe_a = full_harness(ctx)
    exe_p = plain_harness(ctx)
    n = n or ctx.size(250, 6000)
    maxlen = maxlen or ctx.size(20, 70)
    rng = random.Random(f"plain-{ctx.seed}")
    gens = []
    for k in range(n):
        if k % 2 == 0:
            p, alg, ops, qs = gen_adj_history(rng, maxlen)
            # no regularisation list with the data half of the time: the solver keeps its constructor defaults
            gens.append((p, alg, ops, qs, "Adj"))
        else:
            p, alg, ops, qs = gen_full_history(rng, maxlen, want_singular=(k % 4 == 1))
            gens.append((p, alg, ops, qs, "AdjBaseFull"))
    cases = [ops + interleave(qs) for (_, _, ops, qs, _) in gens]
    for envs, tag in (({}, "plain"), ({"MALLOC_PERTURB_": "85"}, "perturb")):
        old = {k: os.environ.get(k) for k in envs}
        os.environ.update(envs)
        try:
            out_p, crashes = run_cases(exe_p, cases, timeout=1800)
        finally:
            for k, v in old.items():
                if v is None:
                    os.environ.pop(k, None)
                else:
                    os.environ[k] = v
        out_a, _ = run_cases(exe_a, cases, timeout=1800) if tag == "plain" else (out_a, None)
        for i, (p, alg, ops, qs, site) in enumerate(gens):
            corr.count(f"heap_{tag}_histories")
            if i in crashes:
                small = shrink_crash(exe_p, ops, qs, envs)
                corr.fail(f"history crashes the object on a build without sanitizers ({tag} heap: freed blocks are reused)",
                          {"stream": "plainheap", "env": envs, "ops": ops + interleave(small), "alg": alg, "history": small},
                          site + "/" + alg, crashes[i][1] or f"rc={crashes[i][0]}")
                continue
            a, b = out_p[i], out_a[i]
            if len(a) != len(b) or not all(_mask_state(x, p["n"]) == _mask_state(y, p["n"]) or lines_equal(x, y, rtol=RTOL, atol=ATOL)
                                          for x, y in zip(a, b)):
                k = next((j for j, (x, y) in enumerate(zip(a, b))
                          if not (_mask_state(x, p["n"]) == _mask_state(y, p["n"]) or lines_equal(x, y, rtol=RTOL, atol=ATOL))), min(len(a), len(b)))
                corr.fail(f"answers differ between the sanitized and the plain build ({tag} heap) at output line {k}: "
                          f"{a[k] if k < len(a) else '-'} vs {b[k] if k < len(b) else '-'}",
                          {"stream": "plainheap", "env": envs, "ops": cases[i], "alg": alg}, site + "/" + alg, "uninitialised or freed memory read")


def shrink_crash(exe, ops, qs, envs):
    def still(cand):
        if not cand:
            return False
        old = {k: os.environ.get(k) for k in envs}
        os.environ.update(envs)
        try:
            _, cr = run_cases(exe, [ops + interleave(cand)], timeout=60)
        finally:
            for k, v in old.items():
                if v is None:
                    os.environ.pop(k, None)
                else:
                    os.environ[k] = v
        return bool(cr)
    try:
        return ddmin(qs, still, max_tests=60)
    except Exception:
        return qs


def run_corpus_programs(ctx, corr):
    """regression programs of confirmed findings (corpus/C04/replay-*.cpp): plain build, must exit 0"""
    for f in sorted((ctx.verif / "corpus" / "C04").glob("replay-*.cpp")):
        exe = ctx.build_cpp("c04_" + f.stem.replace("-", "_"), [f, _unity(ctx)], flags=["-fno-sanitize=all"])
        rc, out, err = sh([str(exe)], timeout=120)
        corr.count("corpus_programs")
        corr.case(key=f.name, sample=None)
        if rc != 0:
            corr.fail(f"regression program {f.name} fails (rc={rc})", {"stream": "corpus-program", "file": str(f)},
                      f.stem, (out + err)[-1500:])


_seen = set()


def corr_first(corr, tag):
    if (id(corr), tag) in _seen:
        return False
    _seen.add((id(corr), tag))
    return True


# ---------------------------------------------------------------------------------- LocalNetwork cascade
from lib import gen_net  # noqa: E402


def translate(ctx):
    """regenerate lean/Gama/Gen/NetCascade.lean from the tree under test"""
    sys.path.insert(0, str(ctx.verif / "tools" / "gen"))
    import c04_cascade
    try:
        text = c04_cascade.generate(ctx.repo)
    except c04_cascade.TieBrokenLocal as e:
        raise TieBroken("tools/gen/c04_cascade.py", str(e))
    out = ctx.lean / "Gama" / "Gen" / "NetCascade.lean"
    if not out.exists() or out.read_text() != text:
        out.write_text(text)
    translate_icgs(ctx)


def translate_icgs(ctx):
    """round 5: regenerate lean/Gama/Gen/IcgsError.lean (reset / increment / read sites of ICGS::error_icgs2_defect,
    interpreted by Model/FullState.lean `solveWith`) from icgs.cpp, icgs.h, adj_gso.h of the tree under test"""
    sys.path.insert(0, str(ctx.verif / "tools" / "gen"))
    import c20_icgs
    try:
        info, _ = c20_icgs.write(ctx.repo, ctx.lean)
    except c20_icgs.Unparsable as e:
        raise TieBroken("tools/gen/c20_icgs.py", str(e))
    except OSError as e:
        raise TieBroken("tools/gen/c20_icgs.py", f"source not readable: {e}")
    ctx.icgs_sites = info


def net_harness(ctx):
    for attempt in range(3):
        try:
            d = ctx.build_gama(sanitize=True)
            break
        except BuildError as e:
            if attempt == 2 or "No such file or directory" not in e.log:
                raise
            time.sleep(3 + 5 * attempt)
    objs = sorted(str(p) for p in (d / "CMakeFiles" / "libgama.dir").rglob("*.o"))
    if not objs:
        raise BuildError("c04_net", "no libgama objects under " + str(d))
    return ctx.build_cpp("c04_net", [ctx.verif / "harness" / "c04_net.cpp"], libs=objs + ["-lexpat"],
                         includes=[ctx.verif / "harness"])


ENSURING = ["solve", "residuals", "trans_VWV", "degrees_of_freedom", "unknowns_count", "observations_count",
            "points_count", "huge_abs_terms", "m_0_aposteriori_value"]
# `null_space` is in the harness but not generated: with passive observations it strips the network point by
# point (known finding F7) down to empty matrices
NET_ALGS = ["gso", "svd", "cholesky", "envelope"]
# round 4 (seeded/C04-seed4): composite members of the free-network oracle (harness: solve() first, then the standard
# deviations of the unknowns / the error ellipses / the inner-constraint sums over the constrained points)
FREE_Q = ["adjusted_stdevs", "adjusted_ellipses", "inner_constraints"]


def gen_free_net_history(rng, maxlen, workdir, idx):
    """a FREE 2-D network (no fixed point: defect 3) regularised over a proper, non-empty subset of its points
    (adj="XY"), and a history that switches the algorithm (to every algorithm, also the same one) between queries of
    coordinates / standard deviations / ellipses; every answer is compared with a fresh network configured with the
    current algorithm, and the corrections of the constrained points must satisfy the inner constraints"""
    npts = rng.randint(5, 6)
    ids = None
    net = gen_net.make_network(rng, npts=npts, dim=2, nfixed=0, noise=1.0, free=True, constrained=[], density=0.9)
    ids = list(net["points"])
    cons = rng.sample(ids, rng.randint(2, npts - 1))
    for pid in ids:
        net["points"][pid]["status"] = "con" if pid in cons else "adj"
    net["free_constrained"] = len(cons)
    alg = rng.choice(NET_ALGS)
    path = workdir / f"n{idx}.gkf"
    path.write_text(gen_net.to_gkf(net, algorithm=alg))
    ops = [f"load {path}", "flags"]
    qs = [rng.choice(["solve"] + FREE_Q)]
    todo = NET_ALGS + [alg]
    rng.shuffle(todo)
    for _ in range(rng.randint(4, maxlen)):
        r = rng.random()
        if r < 0.30 or (todo and r < 0.40):
            a = todo.pop() if todo else rng.choice(NET_ALGS)
            qs.append("set_algorithm " + a)
            qs.append(rng.choice(["solve"] + FREE_Q))           # the first question to the NEW solver object
        elif r < 0.80:
            qs.append(rng.choice(["solve", "residuals", "trans_VWV"] + FREE_Q + FREE_Q))
        elif r < 0.88:
            qs.append("chg_xyz %d %s" % (rng.randint(1, npts), float2hex(rng.choice([0.5, 1.0, -1.5]))))
        elif r < 0.94:
            qs.append(rng.choice(["update_points", "update_observations", "update_residuals", "update_adjustment"]))
        else:
            qs.append("project_equations")
    return net, alg, ops, qs


def gen_net_history(rng, maxlen, workdir, idx):
    if rng.random() < 0.30:
        return gen_free_net_history(rng, maxlen, workdir, idx)
    if rng.random() < 0.35:
        net = gen_net.levelling_network(rng, npts=rng.randint(4, 7), nfixed=1, extra=rng.randint(2, 4), noise=1.0)
        nobs = len(net["obs"][0]["items"])
    else:
        net = gen_net.make_network(rng, npts=rng.randint(4, 6), dim=2, nfixed=2, noise=1.0)
        nobs = sum(len(o.get("items", [])) for o in net["obs"])
    alg = rng.choice(NET_ALGS)
    path = workdir / f"n{idx}.gkf"
    path.write_text(gen_net.to_gkf(net, algorithm=alg))
    ops = [f"load {path}", "flags"]
    qs = []
    adjusted = False
    for _ in range(rng.randint(3, maxlen)):
        r = rng.random()
        if r < 0.40:
            q = rng.choice(ENSURING)
            adjusted = adjusted or q in ("solve", "residuals", "trans_VWV", "degrees_of_freedom", "null_space", "m_0_aposteriori_value")
        elif r < 0.48:
            q = rng.choice(["revision_points", "revision_observations", "project_equations"])
        elif r < 0.58:
            q = rng.choice(["update_points", "update_observations", "update_residuals", "update_adjustment"])
        elif r < 0.66:
            q = "chg_obs %d" % rng.randint(1, max(1, nobs))
        elif r < 0.76:
            q = "chg_xyz %d %s" % (rng.randint(1, 3), float2hex(rng.choice([0.5, 1.0, 2.0, -1.5])))
        elif r < 0.81:
            q = "set_algorithm " + rng.choice(NET_ALGS)
            adjusted = False
        elif r < 0.86:
            q = "refine"
            adjusted = True
        elif r < 0.90:
            q = "remove_huge"
        elif adjusted:
            q = rng.choice(["raw stdev_obs 1", "raw wcoef_res 1", "raw qxx 1 1", "raw qbb 1 1", "raw studentized_residual 1", "is_adjusted"])
        else:
            q = "is_adjusted"
        if q.startswith("chg_obs"):
            pass
        qs.append(q)
    return net, alg, ops, qs


def _alg_of(case):
    try:
        text = Path(case[0].split()[1]).read_text()
        m = re.search(r'algorithm="(\w+)"', text)
        return m.group(1) if m else "envelope"
    except OSError:
        return "envelope"


def _gkf(net, alg):
    return net["corpus"] if "corpus" in net else gen_net.to_gkf(net, algorithm=alg)


def with_denote(qs):
    """round 13: `denote` (numeric execution of the network-level denotation) after the first `set_algorithm` + question,
    and at the end of every history — placed without consuming random numbers"""
    out, done = [], False
    for i, q in enumerate(qs):
        out.append(q)
        if not done and i > 0 and qs[i - 1].startswith("set_algorithm"):
            out.append("denote")
            done = True
    out.append("denote")
    return out


def net_interleave(qs):
    lines = []
    for q in qs:
        lines.append(q)
        lines.append("flags")
        if q.split()[0] in ENSURING or q.split()[0] in FREE_Q or q.startswith("raw "):
            lines.append("fresh " + q)
    return lines


def run_net_cascade(ctx, corr, n=None, maxlen=None):
    exe = net_harness(ctx)
    drv = ctx.driver("drv_netstate")
    n = n or ctx.size(150, 4000)
    maxlen = maxlen or ctx.size(22, 80)
    work = ctx.build / f"c04net-{os.getpid()}"
    work.mkdir(exist_ok=True)
    try:
        gens = [gen_net_history(ctx.rng, maxlen, work, i) for i in range(n)]
        gens = [(net, alg, ops, with_denote(qs)) for (net, alg, ops, qs) in gens]
        cases = [ops + net_interleave(qs) for (_, _, ops, qs) in gens]
        # recorded histories of confirmed findings (corpus/C04/net-*.ops; `load` is relative to the corpus)
        cdir = ctx.verif / "corpus" / "C04"
        for f in sorted(cdir.glob("net-*.ops")):
            lines = [l for l in f.read_text().splitlines() if l.strip()]
            lines = [("load " + str(cdir / l.split()[1])) if l.startswith("load ") else l for l in lines]
            gens.append(({"corpus": f.name}, "corpus", lines[:2], [l for l in lines[2:] if l != "flags" and not l.startswith("fresh ")]))
            cases.append(lines)
        impl, crashes = run_cases(exe, cases, timeout=1800)
    finally:
        shutil.rmtree(work, ignore_errors=True)
    # the model needs one input fact per `remove_huge`: whether a term was outlying (printed by the harness)
    mcases = []
    for ci, (c, o) in enumerate(zip(cases, impl)):
        # round 13: the model is told the algorithm the file selects (class of the first solver object)
        alg0 = gens[ci][1] if gens[ci][1] != "corpus" else _alg_of(c)
        mc = []
        for l, ol in zip(c, o + [""] * len(c)):
            mc.append(("denote " + ol.split(" || ", 1)[1]) if (l == "denote" and ol.startswith("den ") and " || " in ol) else
                      "denote !" if (l == "denote" and ol.startswith("throw matvec")) else
                      "denote !local" if (l == "denote" and ol.startswith("throw local")) else
                      ("remove_huge " + ol.split()[1]) if (l == "remove_huge" and ol.startswith("huge ")) else
                      (("load - " + alg0) if l.startswith("load ") else
                       "is_adjusted" if (l.startswith("raw ") and ol == "undefined") else      # harness did not call it
                       (l + " !") if ((l in ENSURING or l in FREE_Q or l == "refine" or l.startswith("raw ")) and ol.startswith("throw matvec")) else
                       (l + " !local") if ((l in ENSURING or l in FREE_Q or l == "refine" or l.startswith("raw ")) and ol.startswith("throw local")) else l))
        mcases.append(mc)
    model, _ = run_cases(drv, mcases, timeout=1800)
    raw_probes = raw_stale = 0
    for i, (net, alg, ops, qs) in enumerate(gens):
        c, a, b = cases[i], impl[i], model[i]
        chg = sum(1 for q in qs if q.startswith(("chg_", "set_algorithm", "refine")))
        corr.case(key=" ".join(c[1:]) if chg >= 2 else None,
                  sample={"net_alg": alg, "history": qs[:14], "impl": a[:10]} if corr_first(corr, "net_sample") else None)
        corr.count("net_hist")
        if isinstance(net, dict) and net.get("free_constrained"):
            corr.count("net_free_networks_with_constrained_subset")
            corr.count("net_free_set_algorithm", sum(1 for q in qs if q.startswith("set_algorithm")))
        corr.count("net_ops", len(qs))
        corr.count("net_config_changes", chg)
        if i in crashes:
            corr.fail("history crashes LocalNetwork (sanitizer / abort)", {"stream": "netstate", "ops": c, "gkf": _gkf(net, alg)},
                      "LocalNetwork", crashes[i][1])
            continue
        if len(a) != len(c) or len(b) != len(c):
            corr.disagree("netstate", c, a[-6:], b[-6:], f"output lengths {len(a)}/{len(b)} for {len(c)} ops")
            continue
        # After a solver exception (BadRegularization: the constrained points do not resolve the defect — outside
        # the property's quantifier) AdjGSO / AdjCholDec keep `is_solved == true` by design (null_space() needs
        # lindep()), so the NEXT ensuring call completes without throwing on half-regularised artefacts.  Until the
        # next configuration change that makes project_equations() hand the solver new input, answers of such a
        # network are not compared with a fresh one (counted); flags are still compared with the model.
        cur_alg = alg if alg != "corpus" else _alg_of(c)
        outside = False
        flag_bad = False
        for k, l in enumerate(c):
            w = l.split()[0]
            if w == "set_algorithm":
                cur_alg = l.split()[1]
            if w in ("chg_obs", "chg_xyz", "set_algorithm", "refine", "update_points", "update_observations",
                     "update_residuals", "revision_observations") or a[k] == "huge 1":
                outside = False          # tst_rov_opr_ cleared: project_equations() will reset the solver
            if "throw matvec" in a[k] and not l.startswith("fresh ") and cur_alg in ("gso", "cholesky"):
                outside = True
            if l == "flags":
                corr.count("net_flag_lines")
                if a[k] != b[k] and not flag_bad:
                    flag_bad = True
                    lo = max(0, k - 4)
                    corr.disagree("netstate", c, [f"{c[j]} -> {a[j]}" for j in range(lo, k + 1)],
                                  [f"{c[j]} -> {b[j]}" for j in range(lo, k + 1)], f"flags differ after op #{k - 1} '{c[k - 1]}'")
            elif w == "denote":
                # round 13: the value the model's denotation gives the answers of solve() / residuals() / trans_VWV() —
                # `netSolve alg np` on the `projectEquations` output for the state the REAL network is in, `alg` from the
                # class the MACHINE holds — against the numbers the real, historied object returned
                if a[k].startswith("den ") and not outside:
                    got = a[k].split(" || ", 1)[0]
                    corr.count("net_denote_checks")
                    corr.maxstat("net_denote_unknowns", int(got.split()[3]) if len(got.split()) > 3 else 0)
                    if not lines_equal(got, b[k], rtol=1e-6, atol=1e-7):
                        corr.disagree("netdenote", c, [f"{c[j]} -> {a[j].split(' || ')[0]}" for j in range(max(0, k - 4), k + 1)],
                                      [f"{c[j]} -> {b[j]}" for j in range(max(0, k - 4), k + 1)],
                                      f"denotation (netSolve of projectEquations at Float) differs from the real answers at op #{k}")
                elif a[k].startswith("den "):
                    corr.count("net_denote_after_solver_throw_not_compared")
                else:
                    corr.count("net_denote_thrown")
            elif w == "set_algorithm":
                # round 9: `ok <class>` — model: class `Gen.setAlg` (regenerated) selects for the name; implementation: dynamic
                # type of the new `least_squares` through the probe
                corr.count("net_set_algorithm_class_lines")
                if a[k] != b[k]:
                    corr.disagree("netstate", c, [f"{c[k]} -> {a[k]}"], [f"{c[k]} -> {b[k]}"],
                                  f"set_algorithm: solver class differs at op #{k}")
            elif l == "inner_constraints" and a[k].startswith("vec ") and not outside:
                # independent reference (no fresh object involved): the corrections of the constrained points of a free
                # network are orthogonal to the translations and to the rotation restricted to these points
                v = [hex2float(t) for t in a[k].split()[1:]]
                corr.count("net_inner_constraint_checks")
                if len(v) == 5 and v[4] >= 2:
                    scale = max(v[3], 1e-9)
                    if max(abs(v[0]), abs(v[1])) > 1e-6 * scale + 1e-9 or abs(v[2]) > 1e-5 * scale + 1e-9:
                        corr.fail(f"free network: the corrections of the {int(v[4])} constrained points violate the inner constraints "
                                  f"(sum dx {v[0]:.3e}, sum dy {v[1]:.3e}, rotation {v[2]:.3e}, sum |d| {v[3]:.3e}): "
                                  "the solver did not regularise over the constrained points",
                                  {"stream": "netstate", "ops": c[:k + 1], "gkf": _gkf(net, alg)},
                                  "LocalNetwork::project_equations", a[k])
                        break
            elif l.startswith("fresh "):
                q = l[6:]
                got, fr, verdict = a[k - 2], a[k], b[k - 2]
                same = lines_equal(got, fr, rtol=1e-6, atol=1e-7) or (got.startswith("throw") and fr.startswith("throw"))
                if outside:
                    corr.count("net_answers_after_solver_throw_not_compared")
                    continue
                if q.startswith("raw ") and got == "undefined":
                    corr.count("net_raw_probes_on_never_adjusted_network")     # the cached vector is empty: not called
                    continue
                if q.startswith("raw "):
                    raw_probes += 1
                    if not same:
                        raw_stale += 1
                        if verdict.startswith(("sound", "ok")) and not flag_bad:
                            # raw readers are outside net_cascade_sound; a difference although the flags say
                            # "adjusted for this configuration" is counted and listed in the report (open item)
                            corr.count("net_raw_probe_differs_although_flags_valid")
                elif not same:
                    # a member covered by net_cascade_sound answers differently from a fresh network: the property fails
                    corr.fail(f"LocalNetwork::{q.split()[0]} depends on history: got {got}, fresh network gives {fr}",
                              {"stream": "netstate", "ops": c[:k + 1], "gkf": _gkf(net, alg)},
                              "LocalNetwork::" + q.split()[0], f"{got} vs {fr}")
                    break
                elif not verdict.startswith(("sound", "ok", "throw")) and not flag_bad:
                    corr.disagree("netstate", c, [got, fr], [verdict], f"model reports a stale read for the ensuring member '{q}'")
                    break
    corr.count("net_raw_probes", raw_probes)
    corr.count("net_raw_probes_stale_on_impl", raw_stale)
