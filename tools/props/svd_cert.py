"""Per-run certificate of the singular value decomposition behind the svd solver (helper of C01/C03/C20).

Since rounds 4-7 the Lean theorems about the svd solver no longer take the factorisation as a hypothesis: the
algebra of the model of `SVD::svd()` is proved (`C01_svd_decompose_cert`: whenever `Svd.decompose` RETURNS,
    A = U diag(W) V',  V'V = I,  orthonormal columns of U for the non-null singular values,  W >= 0),
the svd theorems are stated for the factors `decompose` returns (`C01_svd_solve_decompose`, `C03_svd_decompose`,
`C20_svd_decompose_*`; the old `C01_svd_cert`, `C03_svd_*`, `C20_svd_*` with `Gama.Ls.Svd.SvdCert` as a hypothesis
remain), and "every singular value exactly 0 or above W_tol * max W" follows from the input-side `SingGap`
(`C01_singgap_unambiguous`).  NOT proved: that the double-precision Golub-Reinsch iteration converges and that what it
treats as negligible is negligible.  `check_certificates` checks exactly that numerically, on the factors the REAL
code computed, for every generated problem (the three equations + the 0-or-above-tolerance reading of W) — a per-run
numeric check of convergence / negligibility, no longer a stand-in for a missing algebraic theorem.  It is reported
in the evidence as `svd_certificates_checked` (+ the measured residuals).

Hook (lead):  in tools/props/c01.py (and c03.py) `correspond`, after the existing loop:

    from props import svd_cert
    svd_cert.check_certificates(ctx, corr)

and, for C20, `svd_cert.check_lindep(ctx, corr)` + `svd_cert.classify` (known finding F7-svd).
Stand-alone:  python3 tools/props/svd_cert.py [seed] [nprob]
"""
import sys
from fractions import Fraction as F
from pathlib import Path

if __name__ == "__main__":
    sys.path.insert(0, str(Path(__file__).resolve().parents[1]))

from lib.core import *
from lib import gen_ls as g

TOL_REL = 1e-10          # |A - U W V'| <= TOL_REL * |A|_max;  |V'V - I|, |U1'U1 - I| <= TOL_REL
W_TOL = 1000 * 2.0 ** -53  # what SVD::set_inv_W finds (1000 * eps); the harness reports the real value


def harness(ctx):
    return ctx.build_cpp("svd_cert", [ctx.verif / "harness" / "svd_cert.cpp"], includes=[ctx.verif / "harness"])


def make_cases(ctx, nprob):
    cases, meta = [], []
    for _ in range(nprob):
        p = g.gen_problem(ctx.rng, correlated=False)
        if ctx.rng.random() < 0.25:
            # same problem in other units: A and b scaled by a power of two (exact); rank, kernel and the
            # relative singular values are unchanged, so the null test must scale with max W
            k = F(2) ** ctx.rng.choice([-40, -20, 20, 40])
            p = dict(p, rows=[[(c, v * k) for c, v in r] for r in p["rows"]], rhs=[v * k for v in p["rhs"]],
                     family=p["family"] + "-scaled")
        subs = g.gen_subsets(ctx.rng, p, 2)
        S, ok = subs[ctx.rng.randrange(len(subs))]
        cases.append(g.problem_lines(p, S) + ["factors", "adj"])
        meta.append((p, S, ok))
    return cases, meta


def _vals(line, tag):
    t = line.split()
    if not t or t[0] != tag:
        return None
    return [hex2float(x) for x in t[1:]]


def _mat(v, r, c):
    return [v[i * c:(i + 1) * c] for i in range(r)] if v is not None and len(v) == r * c else None


def certificate_residuals(A, U, W, V, null):
    """max-norm residuals of the three certificate equations; `null` = indices of null singular values"""
    m, n = len(A), len(W)
    rA = max([abs(A[i][j] - sum(U[i][k] * W[k] * V[j][k] for k in range(n))) for i in range(m) for j in range(n)] + [0.0])
    rV = max([abs(sum(V[k][i] * V[k][j] for k in range(n)) - (1.0 if i == j else 0.0))
              for i in range(n) for j in range(n)] + [0.0])
    nn = [k for k in range(n) if k not in null]
    rU = max([abs(sum(U[k][i] * U[k][j] for k in range(m)) - (1.0 if i == j else 0.0)) for i in nn for j in nn] + [0.0])
    return rA, rV, rU


def check_certificates(ctx, corr, nprob=None):
    """dump U, W, V of the real SVD for gen_ls problems and check the certificate on every case"""
    exe = harness(ctx)
    cases, meta = make_cases(ctx, nprob or ctx.size(60, 2500))
    impl, crashes = run_cases(exe, cases)
    for i, (c, (p, S, ok)) in enumerate(zip(cases, meta)):
        m, n = p["m"], p["n"]
        if i in crashes:
            corr.fail("svd_cert harness crashed / sanitizer report", {"stream": "svd_cert", "ops": c}, "SVD::svd",
                      crashes[i][1])
            continue
        out = impl[i]
        if len(out) < 2 or out[0] != "ok":
            corr.fail("svd_cert harness protocol: " + " | ".join(out[:2]), {"stream": "svd_cert", "ops": c}, "svd_cert")
            continue
        if out[1].startswith("throw"):
            corr.fail("SVD::svd threw " + out[1], {"stream": "svd_cert", "ops": c}, "SVD::svd")
            continue
        U, W, V = _mat(_vals(out[1], "U"), m, n), _vals(out[2], "W"), _mat(_vals(out[3], "V"), n, n)
        if U is None or W is None or V is None or len(W) != n:
            corr.fail("svd_cert harness output malformed", {"stream": "svd_cert", "ops": c}, "svd_cert", " | ".join(out[:4])[:400])
            continue
        A = [[float(x) for x in r] for r in g.dense(p)]
        an = max([abs(x) for r in A for x in r] + [0.0])
        vmax = max(W + [0.0])
        flags = [int(x) for x in out[5].split()[1:]]
        null = {k for k in range(n) if flags[k]}
        rA, rV, rU = certificate_residuals(A, U, W, V, null)
        bound = TOL_REL * (an if an else 1.0)     # |A - U W V'| relative to |A|; orthogonality is dimensionless
        corr.count("svd_certificates_checked")
        corr.count("svd_cert_singular" if p["defect"] else "svd_cert_regular")
        if p["family"].endswith("-scaled"):
            corr.count("svd_cert_scaled")
        corr.maxstat("svd_cert_max_|A-UWV'|/|A|", rA / an if an else rA)
        corr.maxstat("svd_cert_max_|V'V-I|", rV)
        corr.maxstat("svd_cert_max_|U1'U1-I|", rU)
        bad = []
        if rA > bound:
            bad.append(f"|A - U W V'| = {rA:.3g} > {bound:.3g}")
        if rV > TOL_REL:
            bad.append(f"|V'V - I| = {rV:.3g} > {TOL_REL:.3g}")
        if rU > TOL_REL:
            bad.append(f"|U1'U1 - I| (non-null columns) = {rU:.3g} > {TOL_REL:.3g}")
        # Unambiguous: every singular value is (numerically) zero or far above the threshold
        for k in range(n):
            rel = abs(W[k]) / vmax if vmax else 0.0
            if k in null:
                corr.maxstat("svd_cert_max_null_W/Wmax", rel)
                if rel > 0.1 * W_TOL:
                    bad.append(f"null singular value {k + 1} is not at least 10x below the threshold: W/Wmax = {rel:.3g}")
            else:
                corr.maxstat("svd_cert_max_Wmax/W_nonnull", (1.0 / rel) if rel else float("inf"))
                if rel < 1e3 * W_TOL:
                    bad.append(f"non-null singular value {k + 1} within 1e3 of the threshold: W/Wmax = {rel:.3g}")
        if out[4] != f"int {p['defect']}":
            bad.append(f"nullity '{out[4]}' but n - rank A = {p['defect']} (exact)")
        if len(null) != p["defect"]:
            bad.append(f"{len(null)} lindep flags but n - rank A = {p['defect']}")
        # the factors AdjSVD really used (friend probe): same W, inv_W = pseudo-inverse, V' = V + kernel parts
        adj = out[6:]
        if adj and adj[0].startswith("throw"):
            if ok or adj[0] != "throw BadRegularization":
                bad.append(f"AdjSVD::solve threw {adj[0]} (subset resolves: {ok})")
            else:
                corr.count("svd_cert_refused_nonresolving")
        elif len(adj) >= 5:
            W2, iw, V2 = _vals(adj[0], "W"), _vals(adj[1], "invW"), _mat(_vals(adj[2], "V"), n, n)
            if not ok and p["defect"] > 0:
                bad.append("AdjSVD::solve accepted a regularisation subset that does not resolve the defect")
            if W2 != W:
                bad.append("AdjSVD used singular values different from SVD(A)")
            for k in range(n):
                want = 0.0 if (k in null or W[k] == 0.0) else 1.0 / W[k]
                if iw[k] != want:
                    bad.append(f"inv_W[{k + 1}] = {iw[k]!r}, expected {want!r}")
            # A V'_j = A V_j for the non-null columns, A V'_k = 0 for the null ones
            for j in range(n):
                for r in range(m):
                    t = sum(A[r][i] * V2[i][j] for i in range(n))
                    w = 0.0 if j in null else sum(A[r][i] * V[i][j] for i in range(n))
                    sc = (an if an else 1.0) * max([abs(V2[i][j]) for i in range(n)] + [1.0])
                    if abs(t - w) > 1e-9 * sc:
                        bad.append(f"column {j + 1} of V after min_subset_x left its coset modulo ker A: {abs(t - w):.3g}")
                        break
        else:
            bad.append("svd_cert harness: adj output malformed")
        if bad:
            corr.fail("svd certificate violated: " + "; ".join(bad[:4]), {"stream": "svd_cert", "ops": c, "subset": S},
                      "SVD::svd", " | ".join(out)[:1500])
    if not corr.stats.get("svd_cert_singular"):
        corr.inconclusive.append("svd certificate: no singular problem generated")


# ------------------------------------------------------------------ C20: lindep(i) names singular values (F7)

def kernel_support(p):
    """unknowns (1-based) that occur in some kernel vector: the ones that are NOT determined"""
    return {i + 1 for z in p["kernel"] for i, x in enumerate(z) if x != 0}


def check_lindep(ctx, corr, nprob=None):
    """replay of finding F7 (svd part): SVD::lindep(i) tests the i-th singular value.  Oracle of C20 on the
    real code: every flagged unknown must occur in the kernel of A (exact rational kernel from gen_ls) and
    deleting the flagged columns must leave a full-column-rank matrix."""
    exe = harness(ctx)
    cases, meta = make_cases(ctx, nprob or ctx.size(60, 2500))
    cases.insert(0, F7_WITNESS)
    meta.insert(0, (F7_PROBLEM, [1, 2, 3], True))
    impl, crashes = run_cases(exe, cases)
    for i, (c, (p, S, ok)) in enumerate(zip(cases, meta)):
        if i in crashes or len(impl[i]) < 6 or not impl[i][5].startswith("flags"):
            continue
        if p["defect"] == 0:
            continue
        corr.count("svd_lindep_singular_cases")
        flagged = {k + 1 for k, x in enumerate(impl[i][5].split()[1:]) if x == "1"}
        supp = kernel_support(p)
        A = g.dense(p)
        rest = [[A[r][j] for j in range(p["n"]) if (j + 1) not in flagged] for r in range(p["m"])]
        full = (g.rank(rest) == p["n"] - len(flagged)) if rest and rest[0] else True
        wrong = sorted(flagged - supp)
        if wrong or not full:
            corr.count("svd_lindep_wrong")
            corr.fail(f"svd lindep flags {sorted(flagged)}: " +
                      (f"unknown(s) {wrong} are determined (zero in every kernel vector); " if wrong else "") +
                      ("" if full else "deleting the flagged columns does not give full column rank; ") +
                      f"kernel support {sorted(supp)}",
                      {"stream": "svd_lindep", "ops": c, "flagged": sorted(flagged), "kernel_support": sorted(supp)},
                      "SVD::lindep", impl[i][5])


def classify(ctx, failure):
    """known finding F7-svd: narrow signature = site SVD::lindep and the flags name singular values"""
    if getattr(failure, "site", "") == "SVD::lindep" and failure.replay.get("stream") == "svd_lindep":
        return "F7-svd"
    return None


# A = [[0,0,1],[0,0,0],[0,0,0]] : only unknown 3 is observed (kernel e1, e2); the real code gives
# W = (0, 1, 0), i.e. lindep flags (1, 0, 1): Lean witness Gama.Props.C20.C20_svd_lindep
F7_PROBLEM = {"m": 3, "n": 3, "rows": [[(3, F(1))], [], []], "family": "witness",
              "cov": [{"dim": 3, "width": 0, "v": [F(1), F(1), F(1)]}], "rhs": [F(1), F(0), F(0)],
              "kernel": [[F(1), F(0), F(0)], [F(0), F(1), F(0)]], "defect": 2, "unit_cov": True}
F7_WITNESS = g.problem_lines(F7_PROBLEM, "all") + ["factors", "adj"]


if __name__ == "__main__":
    seed = int(sys.argv[1]) if len(sys.argv) > 1 else 1
    nprob = int(sys.argv[2]) if len(sys.argv) > 2 else 200
    ctx = Ctx("C01", "quick", seed)
    corr = Corr()
    check_certificates(ctx, corr, nprob)
    print("certificates:", {k: v for k, v in corr.stats.items()})
    for f in corr.failures[:5]:
        print("FAIL", f.what, f.replay.get("ops"))
    print("failures:", len(corr.failures), "inconclusive:", corr.inconclusive)
    c2 = Corr()
    check_lindep(ctx, c2, nprob)
    print("lindep:", c2.stats)
    for f in c2.failures[:4]:
        print("F7", f.what, "| classify ->", classify(ctx, f))
    print("\n".join(F7_WITNESS))
