"""C12 — the XML result is a faithful, well-formed serialisation of the adjustment."""
import concurrent.futures
import glob as _glob
import importlib.util
import shutil
import tempfile
import xml.etree.ElementTree as ET
from lib.core import *
from lib import gen_net

ID = "C12"
PROPS_FILES = ["Gama/Props/C12.lean"]
LEAN_TARGETS = ["Gama.Props.C12"]
DRIVERS = ["drv_xml"]
RULE = ("esc: byte strings over XML specials / quotes / ]]> / UTF-8 / raw bytes / long, distinct by content, non-trivial = "
        "contains a byte that str2xml or an XML processor treats specially; net: generated 1D/2D/3D networks (tools/lib/"
        "gen_net + tools/gen/c13_nets) with identifiers / description / extern drawn from the same pools, every "
        "--cov-band in -1..dim+1, both --angular, languages x encodings; distinct by (network, band, angular), non-trivial = "
        "adjusted network whose identifiers contain a special character or whose band is clipped/limited")
LEVEL_TEXT = ("Lean 4 theorems for all byte strings (escape round trip, well-formedness of every writer site that streams "
              "an input string) and for all dim/band/Q (covariance band clipping, emission order, packed reconstruction by "
              "the reader, index lists); character map and writer-site table regenerated from the source on every run; "
              "str2xml, the <cov-mat> writer and gama's reader tied by differential correspondence; the rest of the statement "
              "(reader automaton, number formatting, HTML/text/Octave agreement, compare-xyz, gama-local-deformation) "
              "explored end-to-end on generated networks.")
LEVEL_NOTE = ("Trusted: Lean kernel, statements in Props/C12.lean, tools/gen/c12_sites.py (grep-level recognition of writer "
              "sites; unknown tag/attribute names stop it), harness/c12_xml.cpp, generators. The XML side of the escape "
              "theorems is a model of character data with the five predefined entities written from the XML 1.0 "
              "recommendation (no character references, no CDATA sections).")
TECHNIQUE = "Lean 4 proof (structural induction; index arithmetic) + translator for table-like code + model/implementation correspondence + end-to-end oracle"
TRUSTED = ["tools/gen/c12_sites.py (regex translator of str2xml's if-chain and of the `<tag>` << operand << `</tag>` / "
           "tagsp / attribute sites of localnetworkxml.cpp; classification of tags by name)",
           "python xml.etree (expat) as the judge of well-formedness in the end-to-end oracle"]
MODELLED = ["number formatting and parsing (operator<<, precisions, istringstream >> double): explored only",
            "the 2000-line reader automaton LocalNetworkAdjustmentResults::Parser apart from <cov-mat>, <original-index> "
            "and the index numbering: explored only (field-by-field comparison on generated results)",
            "HTML / text / Octave / SVG writers, HtmlParser, CompareXYZ, GamaLocalDeformation: explored only",
            "expat (entity decoding is represented by the model `unescape`)"]
ASSUMPTIONS = ["adj_covband >= -1 (LocalNetwork::set_adj_covband clamps; gama-local refuses smaller --cov-band)",
               "unknown_standpoint(i)->index_orientation() == i for orientation unknowns (C12_original_index hypothesis)"]

_spec = importlib.util.spec_from_file_location("c12_sites", str(VERIF / "tools" / "gen" / "c12_sites.py"))
_tr = importlib.util.module_from_spec(_spec)
_spec.loader.exec_module(_tr)
_spec3 = importlib.util.spec_from_file_location("c12_skeleton", str(VERIF / "tools" / "gen" / "c12_skeleton.py"))
_sk = importlib.util.module_from_spec(_spec3)
_spec3.loader.exec_module(_sk)
_tr = _sk.S          # one module object for c12_sites (its SitesError is the base of SkError)
_spec2 = importlib.util.spec_from_file_location("c13_nets", str(VERIF / "tools" / "gen" / "c13_nets.py"))
N = importlib.util.module_from_spec(_spec2)
_spec2.loader.exec_module(N)

LANGS = ["en", "ca", "cz", "du", "es", "fi", "fr", "hu", "ru", "ua", "zh"]
ENCS = ["utf-8", "iso-8859-2", "iso-8859-2-flat", "cp-1250", "cp-1251"]


def translate(ctx):
    try:
        txt, escmap, sites = _tr.generate(ctx.repo)
    except _tr.SitesError as e:
        raise TieBroken("c12_sites", str(e))
    except OSError as e:
        raise TieBroken("c12_sites", f"source not readable: {e}")
    out = LEAN / "Gama" / "Gen" / "XmlSites.lean"
    if not out.exists() or out.read_text() != txt:
        out.write_text(txt)
    ctx.c12_escmap, ctx.c12_sites = escmap, sites
    try:
        txt2, info = _sk.generate(ctx.repo)
    except _tr.SitesError as e:
        raise TieBroken("c12_skeleton", str(e))
    except OSError as e:
        raise TieBroken("c12_skeleton", f"source not readable: {e}")
    out2 = LEAN / "Gama" / "Gen" / "XmlSkeleton.lean"
    if not out2.exists() or out2.read_text() != txt2:
        out2.write_text(txt2)
    ctx.c12_skeleton = info


# ---------------------------------------------------------------- helpers

def hexs(b):
    return b.hex() if b else "-"


def unhexs(h):
    return b"" if h == "-" else bytes.fromhex(h)


ENT = {b"lt": b"<", b"gt": b">", b"amp": b"&", b"apos": b"'", b"quot": b'"'}


def py_unescape(b):
    """XML 1.0 character data with the five predefined entities -> bytes, or None if not well-formed
    (independent of the Lean model: used as the oracle on the implementation's output)"""
    out, i = bytearray(), 0
    if b"]]>" in b:
        return None
    while i < len(b):
        c = b[i:i + 1]
        if c == b"<":
            return None
        if c == b"&":
            j = b.find(b";", i)
            if j < 0 or b[i + 1:j] not in ENT:
                return None
            out += ENT[b[i + 1:j]]
            i = j + 1
        else:
            out += c
            i += 1
    return bytes(out)


def gen_bytes(rng, long_ok=True):
    r = rng.random()
    specials = [b"<", b">", b"&", b"'", b'"', b"]]>", b"&amp;", b"&lt;", b"&#60;", b";", b"]"]
    if r < 0.08:
        return b""
    if r < 0.5:
        parts = [rng.choice(specials + [b"a", b"Z", b" ", b"0"]) for _ in range(rng.randint(1, 12))]
        return b"".join(parts)
    if r < 0.7:
        return "".join(rng.choice(N.NONASCII + list("ab<&'\"")) for _ in range(rng.randint(1, 10))).encode()
    if r < 0.85:
        return bytes(rng.choice([rng.randint(1, 255), 60, 62, 38, 39, 34, 93]) for _ in range(rng.randint(1, 24)))
    if long_ok:
        unit = rng.choice(specials) + rng.choice([b"x", "é".encode(), b"]]"])
        return unit * rng.randint(200, 2000)
    return b"x"


# ---------------------------------------------------------------- networks

def gen_network(ctx, rng, idx):
    kind = rng.choice(["2d", "2dfree", "3d", "3dmix", "3dmix", "lev", "2dang"])
    if idx % 4 == 0:
        kind = "3dmix"          # every run has mixed-dimension networks with vectors (y_sign, reader state)
    if kind == "lev":
        net = gen_net.levelling_network(rng, npts=rng.randint(3, 6), nfixed=1, extra=rng.randint(1, 3), noise=1.0,
                                        free=rng.random() < 0.3)
    elif kind == "3dmix":
        net = gen_net.make_network(rng, npts=rng.randint(3, 5), dim=3, nfixed=rng.choice([1, 2]),
                                   kinds=("direction", "distance", "s-distance", "z-angle", "dh", "vector"), noise=1.0)
        N.add_lower_dim_points(rng, net, n2=rng.randint(1, 3), n1=rng.randint(1, 3))
    elif kind == "3d":
        net = gen_net.make_network(rng, npts=rng.randint(4, 5), dim=3, nfixed=2,
                                   kinds=("direction", "s-distance", "z-angle", "dh"), noise=1.0, heights=False)
    elif kind == "2dfree":
        net = gen_net.make_network(rng, npts=rng.randint(4, 6), nfixed=0, free=True, noise=1.0)
    elif kind == "2dang":
        net = gen_net.make_network(rng, npts=rng.randint(4, 6), nfixed=2, kinds=("direction", "distance", "angle", "azimuth"),
                                   noise=1.0)
    else:
        net = gen_net.make_network(rng, npts=rng.randint(3, 6), nfixed=rng.choice([1, 2, 2]), noise=1.0)
    flav = rng.choice(["plain", None, None, None, "special", "blank", "nonascii", "quote", "long"])
    if kind == "3dmix" and rng.random() < 0.6:
        flav = "keep"           # keep the interleaving of 3D / 2D / 1D points in PointID order
    else:
        mapping = {}
        for k, pid in enumerate(list(net["points"])):
            mapping[pid] = N.nasty_id(rng, k + 1, flav)
        N.rename_ids(net, mapping)
    N.decorate(rng, net, extern=rng.choice([0.0, 0.3, 0.8]), coords=(kind != "lev" and rng.random() < 0.25),
               vectors=(kind in ("3d", "3dmix") and rng.random() < 0.5), obscov=0.0, hdcov=0.0)
    desc = N.nasty_text(rng)
    if desc.lstrip().startswith("<"):
        # html.cpp: a description whose first character is '<' is taken to be HTML markup and copied verbatim
        # (deliberate feature); such descriptions are outside "text" descriptions
        desc = "d " + desc
    axes = rng.choice([None, "ne", "en", "sw", "nw", "es", "wn", "se", "ws"])
    angles = rng.choice([None, "left-handed", "right-handed"])
    gkf = N.to_gkf2(net, axes=axes, angles=angles, description=desc, degrees=(rng.random() < 0.15 and kind != "lev"))
    return {"kind": kind, "net": net, "gkf": gkf, "desc": desc, "flavour": flav or "mixed", "axes": axes, "angles": angles}


def local(tag):
    return tag.split("}")[-1]


def parse_xml_result(path):
    """ElementTree view of the adjustment XML (after entity decoding) — the independent reader"""
    root = ET.parse(path).getroot()
    res = {"fixed": [], "approx": [], "adjusted": [], "ellipses": [], "orientations": [], "obs": [], "orig": [], "flt": []}

    def child(e, name):
        for c in e:
            if local(c.tag) == name:
                return c
        return None

    for e in root.iter():
        t = local(e.tag)
        if t == "description" and "description" not in res:
            res["description"] = e.text or ""
        elif t == "network-general-parameters":
            res["axes"], res["angles"] = e.get("axes-xy"), e.get("angles")
        elif t in ("fixed", "approximate", "adjusted") and any(local(c.tag) == "point" for c in e):
            key = {"approximate": "approx"}.get(t, t)
            for p in e:
                if local(p.tag) != "point":
                    continue
                d = {"id": (child(p, "id").text or ""), "order": []}
                for c in p:
                    lt = local(c.tag)
                    if lt in ("x", "y", "z", "X", "Y", "Z"):
                        d[lt] = c.text
                        d["order"].append(lt)
                res[key].append(d)
        elif t == "ellipse":
            res["ellipses"].append({local(c.tag): c.text for c in e})
        elif t == "orientation":
            res["orientations"].append({local(c.tag): c.text for c in e})
        elif t == "cov-mat":
            res["dim"] = int(child(e, "dim").text)
            res["band"] = int(child(e, "band").text)
            res["flt"] = [c.text for c in e if local(c.tag) == "flt"]
        elif t == "original-index":
            res["orig"] = [int(c.text) for c in e if local(c.tag) == "ind"]
        elif t == "observations":
            for o in e:
                d = {"tag": local(o.tag), "extern": o.get("extern")}
                for c in o:
                    d[local(c.tag)] = c.text
                res["obs"].append(d)
        elif t in ("sum-of-squares", "degrees-of-freedom", "defect", "equations", "unknowns", "apriori", "aposteriori",
                   "linearization-iterations"):
            res.setdefault(t, e.text)
    return res


def y_sign_of(x):
    """LocalNetwork::y_sign(): +1 iff handedness of the axes equals handedness of the angles"""
    left_axes = (x.get("axes") or "ne") in N.LEFT_AXES
    left_angles = (x.get("angles") or "left-handed") == "left-handed"
    return 1.0 if left_axes == left_angles else -1.0


def final_coordinates(x):
    co = {}
    for p in x["fixed"] + x["adjusted"]:
        d = co.setdefault(tok_id(p["id"]), {})
        for c in ("x", "y", "z", "X", "Y", "Z"):
            if c in p:
                d[c.lower()] = float(p[c])
    return co


def angdiff(a, b):
    d = (a - b) % 400.0
    return min(d, 400.0 - d)


def obs_consistency(x, tol_lin=3e-5, tol_ang=3e-5):
    """every <adj> of <observations> must be the function of the adjusted/fixed coordinates (and adjusted orientations)
    printed in the SAME file.  Linear quantities in metres, angular in gon (the XML is always in gon).
    Second-order terms of the linearisation are far below the tolerances for the generated noise levels."""
    import math
    co = final_coordinates(x)
    s = y_sign_of(x)
    ori = {tok_id(o["id"]): float(o["adj"]) for o in x["orientations"]}
    GON = 200.0 / math.pi
    diffs, n = [], 0

    def P(i):
        return co.get(tok_id(i or ""))

    def brg(a, b):      # bearing in gama's internal (consistent) system: y is multiplied by y_sign
        return math.atan2(s * (b["y"] - a["y"]), b["x"] - a["x"]) * GON

    for o in x["obs"]:
        t, adj = o["tag"], float(o["adj"])
        try:
            if t in ("coordinate-x", "coordinate-y", "coordinate-z"):
                want, tol, ang = P(o.get("id"))[t[-1]], tol_lin, False
            else:
                a, b = P(o.get("from")), P(o.get("to"))
                if t == "dx":
                    want, tol, ang = b["x"] - a["x"], tol_lin, False
                elif t == "dy":
                    want, tol, ang = b["y"] - a["y"], tol_lin, False
                elif t == "dz" or t == "height-diff":
                    want, tol, ang = b["z"] - a["z"], tol_lin, False
                elif t == "distance":
                    want, tol, ang = math.hypot(b["x"] - a["x"], b["y"] - a["y"]), tol_lin, False
                elif t == "slope-distance":
                    want, tol, ang = math.sqrt((b["x"] - a["x"]) ** 2 + (b["y"] - a["y"]) ** 2 + (b["z"] - a["z"]) ** 2), tol_lin, False
                elif t == "zenith-angle":
                    sd = math.sqrt((b["x"] - a["x"]) ** 2 + (b["y"] - a["y"]) ** 2 + (b["z"] - a["z"]) ** 2)
                    want, tol, ang = math.acos((b["z"] - a["z"]) / sd) * GON, tol_ang, True
                elif t == "direction":
                    want, tol, ang = brg(a, b) - s * ori[tok_id(o["from"])], tol_ang, True
                elif t == "angle":
                    l, r = P(o.get("left")), P(o.get("right"))
                    want, tol, ang = brg(a, r) - brg(a, l), tol_ang, True
                else:
                    continue        # azimuth: depends on the absolute orientation of the axes
        except (KeyError, TypeError, ZeroDivisionError, ValueError):
            continue                # a coordinate of the point is not in this file (e.g. dz to a plane point)
        n += 1
        d = angdiff(adj, want) if ang else abs(adj - want)
        if d > tol:
            diffs.append(f"<{t}> {o.get('from') or o.get('id')}->{o.get('to') or o.get('right') or ''}: <adj> {adj!r} but the "
                         f"adjusted coordinates of the same file give {want % 400.0 if ang else want!r} (diff {d:.3g})")
    return diffs, n


def tok_id(s):
    """what LocalNetworkAdjustmentResults keeps of an identifier if nothing is lost"""
    return N.pid_norm(s)


def parse_dump(lines):
    d = {"fixed": [], "approx": [], "adjusted": [], "ellipse": [], "orientation": [], "obs": []}
    for l in lines:
        t = l.split()
        if not t:
            continue
        if t[0] in ("fixed", "approx", "adjusted"):
            d[t[0]].append({"id": unhexs(t[1]).decode("utf-8", "replace"), "hxy": t[2] == "1", "hz": t[3] == "1",
                            "cxy": t[4] == "1", "cz": t[5] == "1", "x": hex2float(t[6]), "y": hex2float(t[7]),
                            "z": hex2float(t[8]), "ind": [int(v) for v in t[9:12]]})
        elif t[0] == "ellipse":
            d["ellipse"].append({"id": unhexs(t[1]).decode("utf-8", "replace"), "v": [hex2float(v) for v in t[2:5]]})
        elif t[0] == "orientation":
            d["orientation"].append({"id": unhexs(t[1]).decode("utf-8", "replace"), "approx": hex2float(t[2]),
                                     "adj": hex2float(t[3]), "index": int(t[4])})
        elif t[0] == "obs":
            d["obs"].append({"tag": unhexs(t[1]).decode(), "ids": [unhexs(v).decode("utf-8", "replace") for v in t[2:6]],
                             "v": [hex2float(v) for v in t[6:12]],
                             "err": [unhexs(v).decode() for v in t[12:14]]})
        elif t[0] == "description":
            d["description"] = unhexs(t[1]).decode("utf-8", "replace")
        elif t[0] in ("peq", "sdev", "csum", "osum", "cov", "general"):
            d[t[0]] = t[1:]
        elif t[0] == "throw":
            d["throw"] = " ".join(t[1:3]) + " " + (unhexs(t[-1]).decode("utf-8", "replace") if len(t) > 2 else "")
    return d


def compare_reader(x, d):
    """ElementTree view `x` vs gama's reader dump `d`; returns list of differences"""
    diffs = []
    if "throw" in d:
        return ["reader refused: " + d["throw"]]
    for key, dk in (("fixed", "fixed"), ("approx", "approx"), ("adjusted", "adjusted")):
        if len(x[key]) != len(d[dk]):
            diffs.append(f"{key}: {len(x[key])} points in XML, reader has {len(d[dk])}")
            continue
        seq = 0
        for a, b in zip(x[key], d[dk]):
            if tok_id(a["id"]) != b["id"]:
                diffs.append(f"{key} id {a['id']!r} read as {b['id']!r}")
            # which coordinates are present, what the absent ones hold, which adjustment indexes are handed out:
            # every point record must be a function of its own child elements only
            hxy, hz = ("x" in a or "X" in a), ("z" in a or "Z" in a)
            want_ind = [0, 0, 0]
            if key == "adjusted":
                if hxy:
                    want_ind[0], want_ind[1] = seq + 1, seq + 2
                    seq += 2
                if hz:
                    want_ind[2] = seq + 1
                    seq += 1
            if b["hxy"] != hxy or b["hz"] != hz:
                diffs.append(f"{key} {a['id']!r}: has xy/z {hxy}/{hz} read as {b['hxy']}/{b['hz']}")
            if b["ind"] != want_ind:
                diffs.append(f"{key} {a['id']!r}: adjustment indexes read as {b['ind']}, expected {want_ind}")
            if (not hxy and (b["x"] != 0.0 or b["y"] != 0.0 or b["cxy"])) or (not hz and (b["z"] != 0.0 or b["cz"])):
                diffs.append(f"{key} {a['id']!r}: absent coordinates read as x={b['x']} y={b['y']} z={b['z']} "
                             f"(left over from another point)")
            for cx, cy, cz, con in (("x", "y", "z", False), ("X", "Y", "Z", True)):
                if cx in a:
                    if float(a[cx]) != b["x"] or float(a[cy]) != b["y"] or b["cxy"] != con or not b["hxy"]:
                        diffs.append(f"{key} {a['id']!r} xy {a[cx]},{a[cy]} read as {b['x']},{b['y']} con={b['cxy']}")
                if cz in a:
                    if float(a[cz]) != b["z"] or b["cz"] != con or not b["hz"]:
                        diffs.append(f"{key} {a['id']!r} z {a[cz]} read as {b['z']}")
    if len(x["ellipses"]) != len(d["ellipse"]):
        diffs.append("ellipse count")
    else:
        for a, b in zip(x["ellipses"], d["ellipse"]):
            if tok_id(a["id"]) != b["id"] or [float(a["major"]), float(a["minor"]), float(a["alpha"])] != b["v"]:
                diffs.append(f"ellipse {a} read as {b}")
    if len(x["orientations"]) != len(d["orientation"]):
        diffs.append("orientation count")
    else:
        for a, b in zip(x["orientations"], d["orientation"]):
            if tok_id(a["id"]) != b["id"] or float(a["approx"]) != b["approx"] or float(a["adj"]) != b["adj"]:
                diffs.append(f"orientation {a} read as {b}")
    if len(x["obs"]) != len(d["obs"]):
        diffs.append(f"obs count {len(x['obs'])} vs {len(d['obs'])}")
    else:
        for a, b in zip(x["obs"], d["obs"]):
            ids = [tok_id(a.get(k) or "") for k in ("from", "to", "left", "right")]
            if a["tag"] in ("coordinate-x", "coordinate-y", "coordinate-z"):
                ids[0] = tok_id(a.get("id") or "")
            if a["tag"] != b["tag"] or ids != b["ids"]:
                diffs.append(f"obs {a['tag']} ids {ids} read as {b['tag']} {b['ids']}")
            vals = [float(a.get(k) or 0) for k in ("obs", "adj", "stdev", "qrr", "f", "std-residual")]
            if vals != b["v"]:
                diffs.append(f"obs values {vals} read as {b['v']}")
            if [(a.get("err-obs") or ""), (a.get("err-adj") or "")] != b["err"]:
                diffs.append(f"obs err {a.get('err-obs')},{a.get('err-adj')} read as {b['err']}")
    if tok_first(x.get("description", "")) is not None and x.get("description", "") .strip() != d.get("description", "").strip():
        diffs.append(f"description {x.get('description')!r} read as {d.get('description')!r}")
    pe = d.get("peq")
    if pe:
        if float(x["sum-of-squares"]) != hex2float(pe[4]) or int(x["degrees-of-freedom"]) != int(pe[2]) \
                or int(x["defect"]) != int(pe[3]) or int(x["equations"]) != int(pe[0]) or int(x["unknowns"]) != int(pe[1]):
            diffs.append("project equations differ")
        if int(x.get("linearization-iterations") or 0) != int(pe[6]):
            diffs.append("linearization iterations differ")
    sd = d.get("sdev")
    if sd and (float(x["apriori"]) != hex2float(sd[0]) or float(x["aposteriori"]) != hex2float(sd[1])):
        diffs.append("standard deviation differs")
    return diffs


def tok_first(s):
    return s


# small readers of the other formats (adjusted coordinates only) -------------------------------------------

def read_text_adjusted(txt):
    """{(id, 'x'|'y'|'z'): adjusted value string} from the English text output"""
    res, cur = {}, None
    lines = txt.split("\n")
    # levelling-only networks print a table "Adjusted heights": i, point, approximate, correction, adjusted
    for i, l in enumerate(lines):
        if l.startswith("Adjusted heights"):
            for h in lines[i + 5:]:
                m = re.match(r"^\s*(\d+)\s+(\S.*?)\s+\*?\s*(-?\d+\.\d+)\s+(-?\d+\.\d+)\s+(-?\d+\.\d+)\s", h)
                if m:
                    res[(m.group(2).strip(), "z")] = m.group(5)
                elif h.strip() == "" and res:
                    break
            return res
    try:
        i0 = next(i for i, l in enumerate(lines) if l.startswith("Adjusted coordinates"))
    except StopIteration:
        return res
    for l in lines[i0 + 5:]:
        if l.startswith("Adjusted orientation") or l.startswith("Mean errors") or l.startswith("Adjusted observations") \
                or l.startswith("Adjusted heights"):
            break
        m = re.match(r"^\s*(\d+)\s+\*?\s*([xyzXYZ])\s+\*?\s*(-?\d+\.\d+)\s+(-?\d+\.\d+)\s+(-?\d+\.\d+)\s", l)
        if m and cur is not None:
            res[(cur, m.group(2).lower())] = m.group(5)
        elif l.strip() and not re.match(r"^\s*\d+\s", l):
            cur = l.strip()
    return res


def read_text_adjobs(txt):
    """{i: (observed, adjusted)} from the English table "Adjusted observations" (rows whose values are plain decimals)"""
    res = {}
    lines = txt.split("\n")
    try:
        i0 = next(i for i, l in enumerate(lines) if l.startswith("Adjusted observations"))
    except StopIteration:
        return res
    for l in lines[i0 + 5:]:
        if l.startswith("Residuals and analysis") or l.startswith("Outlying"):
            break
        m = re.match(r"^\s*(\d+)\s.*?\s(-?\d+\.\d+)\s+(-?\d+\.\d+)\s+(-?\d+\.\d+)\s+(-?\d+\.\d+)\s*$", l)
        if m:
            res[int(m.group(1))] = (m.group(2), m.group(3))
    return res


def octave_strings(block):
    """strict reading of a cell array of single-quoted strings ('' is the escape); None if a line is not a string"""
    out = []
    for l in block.strip().split("\n"):
        l = l.strip()
        if not l:
            continue
        if len(l) < 2 or l[0] != "'" or l[-1] != "'":
            return None
        body, i, s = l[1:-1], 0, ""
        while i < len(body):
            if body[i] == "'":
                if i + 1 < len(body) and body[i + 1] == "'":
                    s += "'"
                    i += 2
                    continue
                return None
            s += body[i]
            i += 1
        out.append(s)
    return out


def read_octave(txt):
    m = re.search(r"\nPoints = \{\n(.*?)\n\};", txt, re.S)
    x = re.search(r"\nXYZ = \[\n(.*?)\n\];", txt, re.S)
    ind = re.search(r"\nIndexes = \[\n(.*?)\n\];", txt, re.S)
    if not m or not x or not ind:
        return None, "sections Points/XYZ/Indexes not found"
    ids = octave_strings(m.group(1))
    if ids is None:
        return None, "Points cell array is not a list of Octave strings: " + m.group(1)[:200]
    rows = [r.split() for r in x.group(1).strip().split("\n")]
    irows = [r.split() for r in ind.group(1).strip().split("\n")]
    if len(rows) != len(ids) or len(irows) != len(ids):
        return None, "Points / XYZ / Indexes lengths differ"
    return [(i, r, ir) for i, r, ir in zip(ids, rows, irows)], None


def approx_eq_printed(a, b):
    """two decimal strings agree to the precision of the shorter one (1 unit in the last place)"""
    da = len(a.split(".")[1]) if "." in a else 0
    db = len(b.split(".")[1]) if "." in b else 0
    nd = min(da, db)
    return abs(float(a) - float(b)) <= 0.5000001 * 10 ** (-nd) + 1e-12 * abs(float(a))


# ---------------------------------------------------------------- the check

def build(ctx):
    gdir = ctx.build_gama(sanitize=ctx.thorough)
    objs = sorted(_glob.glob(str(gdir / "CMakeFiles" / "libgama.dir" / "**" / "*.o"), recursive=True))
    if not objs:
        raise BuildError("libgama objects", f"no object files under {gdir}")
    exe = ctx.build_cpp("c12_xml", [ctx.verif / "harness" / "c12_xml.cpp"], libs=objs + ["-lexpat"])
    return gdir, exe


def run_gama(gdir, gkf_path, outbase, band=None, angular=None, extra=(), outputs=("xml",), timeout=120):
    cmd = [str(gdir / "gama-local"), str(gkf_path)]
    for o in outputs:
        cmd += ["--" + o, f"{outbase}.{o}"]
    if band is not None:
        cmd += ["--cov-band", str(band)]
    if angular:
        cmd += ["--angular", str(angular)]
    cmd += list(extra)
    try:
        rc, out, err = sh(cmd, timeout=timeout)
    except subprocess.TimeoutExpired:
        return -9, "", "timeout"
    return rc, out, err


def check_network(ctx, gdir, exe, case, wd, idx, corr, ops):
    """runs gama-local and the end-to-end oracles on one generated network; appends harness/driver ops;
    returns the record needed to compare after the harness/driver ran"""
    rng = case["rng"]
    gkf = wd / f"n{idx}.gkf"
    gkf.write_text(case["gkf"], encoding="utf-8")
    payload = {"stream": "net", "gkf": case["gkf"]}
    base = wd / f"n{idx}_full"
    angular = rng.choice([None, "400", "360"])
    rc, out, err = run_gama(gdir, gkf, base, band=-1, angular=angular, outputs=("xml", "text", "html", "octave"))
    rec = {"idx": idx, "ok": False, "payload": payload}
    payload["cmd"] = f"gama-local n.gkf --xml r.xml --text r.txt --html r.html --octave r.m --cov-band -1" + \
        (f" --angular {angular}" if angular else "")
    if rc != 0:
        if rc in (86, 87, -6, -11, 134, 139):
            corr.fail("gama-local crashed on an accepted-looking generated network", payload, "gama-local", err[-1500:])
        corr.count("networks_not_adjusted")
        return rec
    xmlp = f"{base}.xml"
    # (a) well-formed
    try:
        x = parse_xml_result(xmlp)
    except ET.ParseError as e:
        corr.count("illformed_xml")
        line = int(str(e).split("line ")[1].split(",")[0]) if "line " in str(e) else 0
        bad = Path(xmlp).read_text(errors="replace").split("\n")[line - 1][:200] if line else ""
        payload["ill_formed_line"] = bad
        corr.fail("adjustment XML is not well-formed", payload, "LocalNetworkXML::write", f"{e}: {bad}")
        return rec
    if "dim" not in x or not x["adjusted"]:
        corr.count("networks_not_adjusted")     # gamaLocalException etc. written as XML
        return rec
    rec["ok"] = True
    dim = x["dim"]
    rec["dim"], rec["x"] = dim, x
    # every <adj> of <observations> is the function of the adjusted coordinates / orientations of the same file
    od, on = obs_consistency(x)
    corr.count("obs_adj_checked", on)
    if y_sign_of(x) < 0:
        corr.count("networks_y_sign_minus")
        corr.count("dy_checked_y_sign_minus", sum(1 for o in x["obs"] if o["tag"] == "dy"))
    if od:
        corr.fail("an adjusted observation in the XML is not the function of the adjusted coordinates of the same XML",
                  dict(payload, diffs=od[:5], axes=x.get("axes"), angles=x.get("angles")), "WriteXMLVisitor", "; ".join(od[:4]))
    # statistics of the same file: dof = equations - unknowns + defect, m0 = sqrt([pvv]/dof)
    try:
        eq, un, df, dof = (int(x[k]) for k in ("equations", "unknowns", "defect", "degrees-of-freedom"))
        pvv, m0 = float(x["sum-of-squares"]), float(x["aposteriori"])
        if dof != eq - un + df:
            corr.fail("degrees of freedom in the XML != equations - unknowns + defect", payload, "LocalNetworkXML::equations_summary",
                      f"{dof} vs {eq} - {un} + {df}")
        if len(x["obs"]) != eq:
            corr.fail("number of <observations> children != <equations>", payload, "LocalNetworkXML::observations", f"{len(x['obs'])} vs {eq}")
        want = (pvv / dof) ** 0.5 if dof > 0 else 0.0
        if abs(m0 - want) > 2e-7 * max(want, 1e-30) + 1e-12:
            corr.fail("aposteriori standard deviation in the XML != sqrt([pvv]/dof)", payload, "LocalNetworkXML::std_dev_summary",
                      f"{m0} vs {want}")
        corr.count("statistics_checked")
    except (KeyError, ValueError, TypeError):
        pass
    # identifiers are the input's (faithful): set comparison after PointID normalisation
    want = {N.pid_norm(p) for p in case["net"]["points"]}
    got = {tok_id(p["id"]) for p in x["fixed"] + x["adjusted"]}
    if not got <= want:
        corr.fail("identifiers in the XML are not the input's identifiers", dict(payload, got=sorted(got - want)[:5]),
                  "LocalNetworkXML::coordinates", f"unknown ids {sorted(got - want)[:5]}")
    if x.get("description", "").split() != case["desc"].split():
        corr.fail("description in the XML differs from the input's", dict(payload, got=x.get("description")),
                  "str2xml", f"input {case['desc']!r} XML {x.get('description')!r}")
    # extern attributes survive
    ext_in = sorted(" ".join(it["extern"].split()) for o in case["net"]["obs"] for it in o["items"] if "extern" in it)
    ext_out = sorted(o["extern"] for o in x["obs"] if o["extern"] is not None and o["tag"] not in ("dy", "dz", "coordinate-x", "coordinate-y", "coordinate-z"))
    rec["ext"] = (ext_in, ext_out)
    # (b) gama's reader, field by field
    ops.append([f"read {xmlp}"])
    rec["read_case"] = len(ops) - 1
    # the reader's point records vs the state-machine model, section by section (children in document order)
    rec["points_cases"] = []
    for sect, key in (("fixed", "fixed"), ("approximate", "approx"), ("adjusted", "adjusted")):
        toks = []
        for p in x[key]:
            toks += ["P", "I", hexs(tok_id(p["id"]).encode("utf-8"))]
            for c in p["order"]:
                toks += [c, p[c]]
            toks.append("E")
        ops.append([f"points {xmlp} {sect} " + " ".join(toks)])
        rec["points_cases"].append((sect, len(ops) - 1))
    # covariance band: every band value
    full = x["flt"]
    if len(full) != dim * (dim + 1) // 2:
        corr.fail("--cov-band -1 did not write the full upper triangle", payload, "LocalNetworkXML::coordinates",
                  f"dim {dim} flt {len(full)}")
        return rec
    rec["bands"] = []
    bands = list(range(-1, dim + 2)) if (dim <= 8 or ctx.thorough) else sorted(set([-1, 0, 1, 2, dim - 2, dim - 1, dim, dim + 1]))
    for b in bands:
        bb = wd / f"n{idx}_b{b}"
        rc, out, err = run_gama(gdir, gkf, bb, band=b, angular=angular)
        if rc != 0:
            corr.fail(f"gama-local --cov-band {b} failed where --cov-band -1 succeeded", dict(payload, band=b), "gama-local", err[-800:])
            continue
        ops.append([f"band {bb}.xml {dim} {b} " + " ".join(full)])
        rec["bands"].append((b, len(ops) - 1, f"{bb}.xml"))
    # index lists
    shape = []
    pos = 0
    for p in x["adjusted"]:
        hxy, hz = ("x" in p or "X" in p), ("z" in p or "Z" in p)
        ix = x["orig"][pos] if hxy else 0
        iy = x["orig"][pos + 1] if hxy else 0
        pos += 2 if hxy else 0
        iz = x["orig"][pos] if hz else 0
        pos += 1 if hz else 0
        shape.append(f"{int(hxy)} {int(hz)} {ix} {iy} {iz}")
    oris = x["orig"][pos:]
    ops.append([f"index {xmlp} " + " ".join(shape) + " | " + " ".join(f"{i} {i}" for i in oris)])
    rec["index_case"] = len(ops) - 1
    if len(x["orig"]) != dim or len(oris) != len(x["orientations"]):
        corr.fail("<original-index> does not have dim entries / orientations mismatch", payload,
                  "LocalNetworkXML::coordinates", f"dim {dim} orig {len(x['orig'])} ori {len(x['orientations'])}")
    # (c) consumers
    rc, out, err = sh([str(gdir / "compare-xyz"), xmlp, xmlp], timeout=60)
    mx = re.search(r"^max\s+(\S+)\s+(\S+)\s+(\S+)", out, re.M)
    if rc != 0 or not mx or any(float(v) != 0.0 for v in mx.groups()):
        corr.fail("compare-xyz of a result with itself is not zero / failed", payload, "CompareXYZ", (out + err)[-800:])
    for b, _, bx in rec["bands"][: (len(rec["bands"]) if ctx.thorough else 3)]:
        rc, out, err = sh([str(gdir / "gama-local-deformation"), bx, bx], timeout=60)
        shifts = re.findall(r"^(.*?)\s+\d+ \s*\d+ \s*\d+\s+(-?\d+\.\d+)\s+(-?\d+\.\d+)\s+(-?\d+\.\d+)\s", out, re.M)
        if rc != 0:
            corr.fail("gama-local-deformation of a result with itself failed", dict(payload, band=b,
                      cmd2=f"gama-local n.gkf --xml r.xml --cov-band {b}; gama-local-deformation r.xml r.xml"),
                      "GamaLocalDeformation::write_txt", (err or out)[-600:])
            break
        rows = re.findall(r"^(.*?)\s+(\d+) \s*(\d+) \s*(\d+)\s+-?\d+\.\d+\s+-?\d+\.\d+\s+-?\d+\.\d+\s", out, re.M)
        have = {tok_id(r_[0]): [int(v) != 0 for v in r_[1:4]] for r_ in rows}
        wantc = {}
        for p_ in x["adjusted"]:
            hxy_, hz_ = ("x" in p_ or "X" in p_), ("z" in p_ or "Z" in p_)
            wantc[tok_id(p_["id"])] = [hxy_, hxy_, hz_]
        badc = [(k_, have[k_], wantc[k_]) for k_ in have if k_ in wantc and have[k_] != wantc[k_]]
        mdim = re.search(r"# deformation covariance matrix.*?\n\s*(\d+)\s+(\d+)\s*\n", out, re.S)
        ncoord = sum(sum(v) for k_, v in wantc.items() if k_ in have)
        if badc or (mdim and int(mdim.group(1)) != ncoord):
            corr.fail("gama-local-deformation gives a point coordinates / covariance rows it does not have in the XML",
                      dict(payload, band=b, first=str(badc[:3]), cov_dim=(mdim.group(1) if mdim else None), expected_dim=ncoord),
                      "GamaLocalDeformation / LocalNetworkAdjustmentResults::Parser::point",
                      f"{badc[:3]} cov dim {mdim.group(1) if mdim else None} expected {ncoord}")
            break
        if any(float(v) != 0.0 for s in shifts for v in s[1:]) or len(shifts) == 0:
            corr.fail("gama-local-deformation of a result with itself reports non-zero shifts / no points",
                      dict(payload, band=b), "GamaLocalDeformation", out[-600:])
            break
    # (d) cross-format agreement of the adjusted coordinates
    adj = {}
    for p in x["adjusted"]:
        for c in ("x", "y", "z", "X", "Y", "Z"):
            if c in p:
                adj[(tok_id(p["id"]), c.lower())] = p[c]
    rec["adj"] = adj
    try:
        txt = Path(f"{base}.text").read_text(encoding="utf-8", errors="replace")
    except OSError:
        txt = ""
    tadj = read_text_adjusted(txt)
    for k, v in adj.items():
        key = (k[0], k[1])
        cand = tadj.get(key)
        if cand is None:
            # text output right-aligns and may truncate nothing; ids with inner blanks are kept; report only if id is simple
            if re.fullmatch(r"[A-Za-z0-9_]+", k[0]):
                corr.fail("adjusted coordinate missing in --text output", dict(payload, key=list(key)), "AdjustedUnknowns", "")
                break
        elif not approx_eq_printed(v, cand):
            corr.fail("XML and --text disagree on an adjusted coordinate", dict(payload, key=list(key), xml=v, text=cand),
                      "AdjustedUnknowns", f"{v} vs {cand}")
            break
    corr.count("text_coords_compared", sum(1 for k in adj if k in tadj))
    rec["angular"] = angular
    ANG = ("direction", "angle", "zenith-angle", "azimuth")
    tobs = read_text_adjobs(txt)
    for i, o in enumerate(x["obs"], 1):
        if i in tobs and not (angular == "360" and o["tag"] in ANG):
            v = float(o["adj"])
            tv = float(tobs[i][1])
            nd = len(tobs[i][1].split(".")[1])
            dd = abs(v - tv)
            if o["tag"] in ANG:
                dd = min(dd, abs(dd - 400.0))
            if dd > 0.5000001 * 10 ** (-nd) + 1e-12 * abs(v):
                corr.fail("XML and --text disagree on an adjusted observation", dict(payload, index=i, tag=o["tag"], xml=o["adj"],
                          text=tobs[i][1]), "AdjustedObservations / WriteXMLVisitor", f"#{i} <{o['tag']}> {o['adj']} vs {tobs[i][1]}")
                break
            corr.count("text_adjobs_compared")
    oc, oerr = read_octave(Path(f"{base}.octave").read_text(encoding="utf-8", errors="replace"))
    if oc is None:
        corr.fail("Octave output cannot be read back (identifier breaks the .m syntax)", payload, "LocalNetworkOctave", oerr)
    else:
        om = {}
        for pid, row, ir in oc:
            for c, v, i in zip("xyz", row, ir):
                if int(i) != 0:
                    om[(tok_id(pid), c)] = v
        for k, v in adj.items():
            if k not in om:
                corr.fail("adjusted coordinate missing in --octave output", dict(payload, key=list(k)), "LocalNetworkOctave", "")
                break
            if not approx_eq_printed(v, om[k]):
                corr.fail("XML and --octave disagree on an adjusted coordinate", dict(payload, key=list(k), xml=v, octave=om[k]),
                          "LocalNetworkOctave", f"{v} vs {om[k]}")
                break
        corr.count("octave_coords_compared", len(om))
    ops.append([f"readhtml {base}.html"])
    rec["html_case"] = len(ops) - 1
    return rec


def correspond(ctx, corr):
    gdir, exe = build(ctx)
    rng = ctx.rng
    wd = Path(tempfile.mkdtemp(prefix="c12-"))
    try:
        _correspond(ctx, corr, gdir, exe, rng, wd)
    finally:
        shutil.rmtree(wd, ignore_errors=True)


def _correspond(ctx, corr, gdir, exe, rng, wd):
    # ---- stream 1: str2xml byte-exact + round-trip oracle on the implementation
    strings = [b"'", b'"', b"<", b">", b"&", b"]]>", b"A&B", b"", "é".encode(), b"&apos;", b"\xff\xfe<"]
    corpus = ctx.verif / "corpus" / "C12"
    for f in sorted(corpus.glob("esc-*.hex")):
        strings += [bytes.fromhex(l.strip()) for l in f.read_text().split("\n") if l.strip() and not l.startswith("#")]
    for _ in range(ctx.size(400, 20000)):
        strings.append(gen_bytes(rng))
    cases = [[f"esc {hexs(s)}"] for s in strings]
    impl, crashes = run_cases(exe, cases)
    model, _ = run_cases(ctx.driver("drv_xml"), cases)
    for i, s in enumerate(strings):
        special = any(c in s for c in b"<>&'\"") or b"]]>" in s
        corr.case(key=("esc", s) if special else None,
                  sample={"esc": s[:40].decode("latin-1"), "impl": impl[i][:1]} if i < 2 else None)
        if i in crashes:
            corr.fail("str2xml harness crashed", {"stream": "esc", "hex": hexs(s)}, "str2xml", crashes[i][1])
            continue
        if impl[i] != model[i]:
            corr.disagree("esc", cases[i], impl[i], model[i])
        out = unhexs(impl[i][0].split()[1]) if impl[i] and impl[i][0].startswith("ok ") else None
        if out is None:
            continue
        back = py_unescape(out)
        if back is None:
            corr.fail("str2xml output is not well-formed character data", {"stream": "esc", "hex": hexs(s)}, "str2xml",
                      f"{s[:60]!r} -> {out[:80]!r}")
        elif back != s:
            corr.fail("str2xml output does not decode to the original string", {"stream": "esc", "hex": hexs(s)}, "str2xml",
                      f"{s[:60]!r} -> {out[:80]!r} -> {back[:60]!r}")
    corr.count("esc_strings", len(strings))

    # ---- stream 2: networks through gama-local, reader, consumers, other formats
    nets = []
    for f in sorted(corpus.glob("net-*.gkf")):
        nets.append({"kind": "corpus", "gkf": f.read_text(encoding="utf-8"), "net": None, "desc": None, "flavour": "corpus",
                     "rng": random.Random(f.name)})
    for k in range(ctx.size(30, 300)):
        sub = random.Random(rng.getrandbits(64))
        c = gen_network(ctx, sub, k)
        c["rng"] = sub
        nets.append(c)
    ops, recs = [], []
    for idx, c in enumerate(nets):
        if c["net"] is None:
            c["net"], c["desc"] = corpus_net_info(c["gkf"])
        recs.append(check_network(ctx, gdir, exe, c, wd, idx, corr, ops))
    impl, crashes = run_cases(exe, ops)
    model, _ = run_cases(ctx.driver("drv_xml"), ops)
    for rec, c in zip(recs, nets):
        payload = rec["payload"]
        if not rec["ok"]:
            corr.case(key=None)
            continue
        x, dim = rec["x"], rec["dim"]
        corr.count("networks_adjusted")
        corr.count("flavour_" + c["flavour"])
        corr.maxstat("max_dim", dim)
        special_ids = any(re.search(r"[<>&'\" ]|[^\x00-\x7f]", p["id"]) for p in x["adjusted"] + x["fixed"])
        # reader
        i = rec["read_case"]
        if i in crashes:
            corr.fail("gama's result reader crashed on gama's own XML", payload, "LocalNetworkAdjustmentResults::read_xml", crashes[i][1])
        else:
            diffs = compare_reader(x, parse_dump(impl[i]))
            if diffs:
                corr.fail("gama's reader does not return what the XML says", dict(payload, diffs=diffs[:6]),
                          "LocalNetworkAdjustmentResults::Parser", "; ".join(diffs[:6]))
        mixed = len({(("x" in p or "X" in p), ("z" in p or "Z" in p)) for p in x["adjusted"] + x["fixed"]}) > 1
        if mixed:
            corr.count("mixed_dimension_networks")
        for sect, j in rec["points_cases"]:
            corr.case(key=("points", rec["idx"], sect) if mixed else None)
            corr.count("points_cases")
            if j in crashes:
                continue
            if not points_equal(impl[j], model[j]):
                corr.disagree("points", [ops[j][0][:400], {"gkf": c["gkf"], "section": sect}], impl[j][:12], model[j][:12])
        ein, eout = rec["ext"]
        if ein != eout and not (set(eout) <= set(ein) and c["kind"] == "corpus"):
            # vectors: extern is written on dx only in the comparison above; coordinates: cluster attribute
            if sorted(set(ein)) != sorted(set(eout)):
                corr.fail("extern attributes of the input are not those of the XML", dict(payload, input=ein[:6], xml=eout[:6]),
                          "WriteXMLVisitor", f"{ein[:6]} vs {eout[:6]}")
        # bands
        for b, j, bx in rec["bands"]:
            corr.case(key=("band", rec["idx"], b) if (special_ids or b != -1) else None,
                      sample={"net": c["kind"], "dim": dim, "band": b, "impl": [l[:100] for l in impl[j][:2]]} if len(corr.samples) < 4 else None)
            corr.count("band_cases")
            if j in crashes:
                corr.fail("reader crashed on <cov-mat>", dict(payload, band=b), "LocalNetworkAdjustmentResults::read_xml", crashes[j][1])
                continue
            if not band_equal(impl[j], model[j]):
                corr.disagree("band", [ops[j][0][:300], {"gkf": c["gkf"], "band": b}], [l[:400] for l in impl[j]], [l[:400] for l in model[j]])
            # oracle on the implementation alone: clipped band, count, values equal the full matrix cut to the band
            why = band_oracle(impl[j], dim, b, x["flt"])
            if why:
                corr.fail("covariance band written/read back is not the full matrix cut to the band", dict(payload, band=b),
                          "LocalNetworkXML::coordinates", why)
        j = rec["index_case"]
        if impl[j] != model[j]:
            corr.disagree("index", [ops[j][0][:300], {"gkf": c["gkf"]}], impl[j], model[j])
        if j not in crashes and impl[j] and impl[j][0].split()[1:] != [str(k) for k in range(1, dim + 1)]:
            corr.fail("reader's index numbering is not 1..dim", payload, "LocalNetworkAdjustmentResults::Parser::point", impl[j][0])
        # html through gama's own HtmlParser
        j = rec["html_case"]
        if j in crashes:
            corr.fail("read_html crashed on gama's own HTML", payload, "HtmlParser", crashes[j][1])
        else:
            h = parse_dump(impl[j])
            if "throw" in h:
                corr.fail("read_html refuses gama's own HTML", dict(payload, why=h["throw"]), "HtmlParser", h["throw"])
            else:
                hadj = {}
                for p in h["adjusted"]:
                    if p["hxy"]:
                        hadj[(p["id"], "x")], hadj[(p["id"], "y")] = p["x"], p["y"]
                    if p["hz"]:
                        hadj[(p["id"], "z")] = p["z"]
                bad = [(k, v, hadj.get(k)) for k, v in rec["adj"].items()
                       if k not in hadj or abs(float(v) - hadj[k]) > 0.51e-5 + 1e-12 * abs(float(v))]
                if bad:
                    corr.fail("XML and HTML (read by gama's HtmlParser) disagree on adjusted coordinates",
                              dict(payload, first=[str(b) for b in bad[:3]]), "HtmlParser/GamaLocalHTML", str(bad[:3]))
                corr.count("html_coords_compared", len(hadj))
                ANG = ("direction", "angle", "zenith-angle", "azimuth")
                if len(h["obs"]) == len(x["obs"]):
                    for i, (a, b) in enumerate(zip(x["obs"], h["obs"]), 1):
                        if a["tag"] != b["tag"] and not (a["tag"].startswith("coordinate") or a["tag"] in ("dx", "dy", "dz")):
                            continue
                        if rec.get("angular") == "360" and a["tag"] in ANG:
                            continue
                        v, hv = float(a["adj"]), b["v"][1]
                        dd = abs(v - hv)
                        if a["tag"] in ANG:
                            dd = min(dd, abs(dd - 400.0))
                        if dd > (0.51e-6 if a["tag"] in ANG else 0.51e-5) + 1e-12 * abs(v):
                            corr.fail("XML and HTML (read by gama's HtmlParser) disagree on an adjusted observation",
                                      dict(payload, index=i, tag=a["tag"], xml=a["adj"], html=hv), "GamaLocalHTML / WriteXMLVisitor",
                                      f"#{i} <{a['tag']}> {a['adj']} vs {hv}")
                            break
                        corr.count("html_adjobs_compared")
    # ---- stream 2b: writer model on the quantities LocalNetworkXML reads (in-process), reader model on the leaves
    records_stream(ctx, corr, exe, wd, [(r, c) for r, c in zip(recs, nets) if r["ok"]])
    # ---- stream 3: two different results through compare-xyz; languages x encodings of the text output
    good = [(r, c) for r, c in zip(recs, nets) if r["ok"] and c["kind"] != "corpus"]
    for r, c in good[: ctx.size(3, 20)]:
        compare_two(ctx, gdir, wd, r, c, corr)
    for r, c in good[: ctx.size(2, 12)]:
        languages(ctx, gdir, wd, r, c, corr)
    if corr.stats.get("networks_adjusted", 0) < max(3, len(nets) // 3):
        corr.inconclusive.append(f"only {corr.stats.get('networks_adjusted', 0)} of {len(nets)} generated networks were adjusted")


# ---------------------------------------------------------------- records: writer / reader models vs the real code

NUM_TOL = {"x": 0.51e-6, "y": 0.51e-6, "z": 0.51e-6, "approx": 0.51e-6, "adj": 0.51e-6, "qrr": 0.51e-3, "f": 0.51e-3,
           "std-residual": 0.51e-3, "err-obs": 0.51e-3, "err-adj": 0.51e-3}
ID_TAGS = ("id", "from", "to", "left", "right")


def _leaves_of(e):
    return [(local(c.tag), c.text or "") for c in e]


def _hs(s):
    return hexs(s.encode("utf-8"))


def _cmp_leaves(model_tokens, xml_leaves, tol_default):
    """model: tag value tag value …  (ids hex, numbers hex doubles)  vs  the document's leaves (tag, printed text)"""
    if len(model_tokens) != 2 * len(xml_leaves):
        return f"{len(model_tokens) // 2} children in the model, {len(xml_leaves)} in the document"
    for k, (tag, text) in enumerate(xml_leaves):
        mt, mv = model_tokens[2 * k], model_tokens[2 * k + 1]
        if mt != tag:
            return f"child {k}: <{mt}> in the model, <{tag}> in the document"
        if tag in ID_TAGS:
            if mv != _hs(text):
                return f"<{tag}>: {unhexs(mv)!r} vs {text!r}"
        else:
            try:
                a, b = hex2float(mv), float(text)
            except ValueError:
                return f"<{tag}>: not a number {mv} / {text!r}"
            tol = NUM_TOL.get(tag.lower(), tol_default)
            if not (abs(a - b) <= tol + 1e-12 * abs(b)) and not (a != a and b != b):
                return f"<{tag}>: model {a!r} document {text}"
    return None


_TOK = re.compile(r"<!--(.*?)-->|<\?(.*?)\?>|</([^\s>]+)\s*>|<([^\s/>]+)((?:\s+[^\s=/>]+=\"[^\"]*\")*)\s*(/?)>|([^<]+)", re.S)


def doc_tokens(text):
    """token shapes of a document (white-space-only character data omitted), or None if the text is not made of tokens"""
    out, pos = [], 0
    for m in _TOK.finditer(text):
        if m.start() != pos:
            return None
        pos = m.end()
        if m.group(1) is not None:
            out.append("C")
        elif m.group(2) is not None:
            out.append("D")
        elif m.group(3) is not None:
            out += ["E", m.group(3)]
        elif m.group(4) is not None:
            names = re.findall(r"([^\s=]+)=\"", m.group(5) or "")
            out += ["S", m.group(4), "1" if m.group(6) else "0"] + [v for n in names for v in ("A", n)]
        elif m.group(7).strip():
            out.append("T")
    return out if pos == len(text) else None


def _recs_op(name, head, recs):
    """R tag L tag hexdata …"""
    t = [name] + head
    for tag, leaves in recs:
        t += ["R", tag]
        for lt, text in leaves:
            t += ["L", lt, _hs(text)]
    return " ".join(t)


def records_stream(ctx, corr, exe, wd, good):
    rng = ctx.rng
    cases1 = []
    for r, c in good:
        band = rng.choice([-1, -1, 0, 1, 2, 3, 5, 9, 1000])
        cases1.append([f"wnet {hexs(c['gkf'].encode('utf-8'))} {band}"])
    impl1, crashes1 = run_cases(exe, cases1, timeout=1800)
    ops, meta = [], []
    for i, (r, c) in enumerate(good):
        payload = dict(r["payload"], stream="records")
        if i in crashes1:
            corr.fail("LocalNetworkXML / adjustment crashed in-process", payload, "LocalNetworkXML::write", crashes1[i][1])
            continue
        d = {"pt": [], "ori": [], "obs": []}
        for l in impl1[i]:
            t = l.split()
            if t and t[0] in d:
                d[t[0]].append(t[1:])
            elif t:
                d[t[0]] = t[1:]
        if "throw" in d or "xml" not in d:
            corr.count("records_not_adjusted_in_process")
            continue
        xml_bytes = unhexs(d["xml"][0])
        path = wd / f"rec{i}.xml"
        path.write_bytes(xml_bytes)
        try:
            root = ET.fromstring(xml_bytes)
        except ET.ParseError as e:
            corr.fail("the XML written in-process is not well-formed", payload, "LocalNetworkXML::write", str(e))
            continue
        byname = {}
        for e in root.iter():
            byname.setdefault(local(e.tag), e)
        ys, r2g, scale, kki, m0, n, band = d["frame"]
        sects = {}
        for sect in ("fixed", "approximate", "adjusted"):
            sects[sect] = [_leaves_of(p) for p in byname[sect] if local(p.tag) == "point"]
        oris = [_leaves_of(o) for o in byname["orientation-shifts"] if local(o.tag) == "orientation"]
        obs = [(local(o.tag), _leaves_of(o)) for o in byname["observations"]]
        cm = byname["cov-mat"]
        flt = [c.text for c in cm if local(c.tag) == "flt"]
        hdr = (int([c.text for c in cm if local(c.tag) == "dim"][0]), int([c.text for c in cm if local(c.tag) == "band"][0]))
        m = {"payload": payload, "i": i, "gkf": c["gkf"], "sects": sects, "oris": oris, "obs": obs, "flt": flt, "hdr": hdr, "w": {}, "r": {}}
        for sect in ("fixed", "approximate", "adjusted"):
            m["w"][sect] = len(ops)
            ops.append([" ".join(["wsec", sect, ys] + [v for p in d["pt"] for v in p])])
        m["w"]["ori"] = len(ops)
        ops.append([" ".join(["wori", ys, r2g] + [v for o in d["ori"] for v in (o[0], o[1], o[3], o[4])])])
        m["w"]["obs"] = len(ops)
        ops.append([" ".join(["wobs", ys, r2g, scale, kki] + [v for o in d["obs"] for v in o])])
        m["w"]["cov"] = len(ops)
        ops.append([" ".join(["wcov", m0, band, n] + [v for p in d["pt"] for v in p[1:6]] + ["|"]
                             + [v for o in d["ori"] for v in (o[1], o[2])] + ["|"] + d["qxx"])])
        for sect in ("fixed", "approximate", "adjusted"):
            m["r"][sect] = len(ops)
            ops.append([_recs_op("rsec", [sect], [("point", l) for l in sects[sect]])])
        kpts = sum(sum(1 for t, _ in l if t.lower() in "xyz") for l in sects["adjusted"])
        m["r"]["ori"] = len(ops)
        ops.append([_recs_op("roris", [str(kpts)], [("orientation", l) for l in oris])])
        m["r"]["obs"] = len(ops)
        ops.append([_recs_op("robs", [], obs)])
        m["read"] = len(ops)
        ops.append([f"read {path}"])
        toks = doc_tokens(xml_bytes.decode("utf-8", "replace"))
        m["doc"] = len(ops)
        ops.append(["doc " + " ".join(toks)] if toks is not None else ["doc ?"])
        m["n_ori"], m["mirror"] = len(d["ori"]), hex2float(ys) < 0
        meta.append(m)
    model, _ = run_cases(ctx.driver("drv_xml"), ops)
    impl, crashes = run_cases(exe, [o if o[0].startswith("read ") else ["nop"] for o in ops])
    for m in meta:
        payload = m["payload"]
        nontriv = m["mirror"] or m["n_ori"] > 0
        # ---- writer model vs the document
        for sect in ("fixed", "approximate", "adjusted"):
            out = [l.split() for l in model[m["w"][sect]]]
            pts = [t[1:] for t in out if t and t[0] == "point"]
            corr.case(key=("wsec", m["i"], sect, len(pts)) if pts else None)
            why = None
            if len(pts) != len(m["sects"][sect]):
                why = f"{len(pts)} points in the model, {len(m['sects'][sect])} in the document"
            else:
                for a, b in zip(pts, m["sects"][sect]):
                    why = _cmp_leaves(a, b, 1e-9 if sect == "adjusted" else 0.51e-6)
                    if why:
                        break
            corr.count("wsec_points", len(pts))
            if why:
                corr.disagree("wsec", [ops[m["w"][sect]][0][:300], {"gkf": m["gkf"], "section": sect}], [why], model[m["w"][sect]][:6])
        out = [l.split() for l in model[m["w"]["ori"]]]
        os_ = [t[1:] for t in out if t and t[0] == "ori"]
        corr.case(key=("wori", m["i"]) if os_ else None)
        why = None if len(os_) == len(m["oris"]) else f"{len(os_)} orientations in the model, {len(m['oris'])} in the document"
        for a, b in zip(os_, m["oris"]):
            why = why or _cmp_leaves(a, b, 0.51e-6)
        corr.count("wori_records", len(os_))
        if why:
            corr.disagree("wori", [ops[m["w"]["ori"]][0][:300], {"gkf": m["gkf"]}], [why], model[m["w"]["ori"]][:6])
        out = [l.split() for l in model[m["w"]["obs"]]]
        ob = [t[1:] for t in out if t and t[0] == "obs"]
        corr.case(key=("wobs", m["i"], nontriv))
        why = None if len(ob) == len(m["obs"]) else f"{len(ob)} observations in the model, {len(m['obs'])} in the document"
        for k, (a, (tag, leaves)) in enumerate(zip(ob, m["obs"])):
            if why:
                break
            if a[0] != tag:
                why = f"observation {k + 1}: <{a[0]}> in the model, <{tag}> in the document"
            else:
                w = _cmp_leaves(a[1:], leaves, 1e-9)
                why = w and f"observation {k + 1} <{tag}>: {w}"
            if any(t == "err-obs" for t, _ in leaves):
                corr.count("wobs_with_err_obs")
        corr.count("wobs_records", len(ob))
        if why:
            corr.disagree("wobs", [ops[m["w"]["obs"]][0][:300], {"gkf": m["gkf"]}], [why], model[m["w"]["obs"]][:4])
        out = model[m["w"]["cov"]]
        corr.case(key=("wcov", m["i"], m["hdr"]))
        why = None
        if len(out) != 2 or out[0].split() != ["hdr", str(m["hdr"][0]), str(m["hdr"][1])]:
            why = f"header: model {out[:1]} document {m['hdr']}"
        else:
            mv = out[1].split()[1:]
            if len(mv) != len(m["flt"]):
                why = f"{len(mv)} <flt> in the model, {len(m['flt'])} in the document"
            else:
                for k, (a, b) in enumerate(zip(mv, m["flt"])):
                    x, y = hex2float(a), float(b)
                    if abs(x - y) > 1.01e-7 * abs(y) + 1e-300:
                        why = f"<flt> #{k + 1}: m0^2*qxx(ind,ind) = {x!r}, document {b}"
                        break
            corr.count("wcov_flt", len(mv))
        if why:
            corr.disagree("wcov", [ops[m["w"]["cov"]][0][:300], {"gkf": m["gkf"]}], [why], [l[:300] for l in out])
        # ---- the regenerated skeleton accepts the real document's token sequence
        corr.case(key=("doc", m["i"]))
        got = model[m["doc"]]
        if not got or not got[0].startswith("accepts 1"):
            corr.disagree("doc", [ops[m["doc"]][0][:300], {"gkf": m["gkf"]}], ["the document LocalNetworkXML::write produced"], got[:2])
        else:
            corr.count("doc_tokens", int(got[0].split()[2]))
        # ---- reader model vs the real reader on the same document
        j = m["read"]
        if j in crashes:
            corr.fail("gama's result reader crashed on the XML written in-process", payload, "LocalNetworkAdjustmentResults::read_xml", crashes[j][1])
            continue
        dump = impl[j]
        for sect, name in (("fixed", "fixed"), ("approximate", "approx"), ("adjusted", "adjusted")):
            want = ["pt " + l.split(None, 1)[1] for l in dump if l.startswith(name + " ")] + ["end"]
            corr.case(key=("rsec", m["i"], sect) if len(want) > 1 else None)
            if not points_equal(want, model[m["r"][sect]]):
                corr.disagree("rsec", [ops[m["r"][sect]][0][:300], {"gkf": m["gkf"], "section": sect}], want[:8], model[m["r"][sect]][:8])
        want = [l for l in dump if l.startswith("orientation ")] + ["end"]
        corr.case(key=("roris", m["i"]) if len(want) > 1 else None)
        if not _recs_equal(want, model[m["r"]["ori"]], ids=(1,), nums=(2, 3)):
            corr.disagree("roris", [ops[m["r"]["ori"]][0][:300], {"gkf": m["gkf"]}], want[:8], model[m["r"]["ori"]][:8])
        want = [l for l in dump if l.startswith("obs ")] + ["end"]
        corr.case(key=("robs", m["i"]))
        if not _recs_equal(want, model[m["r"]["obs"]], ids=(1, 2, 3, 4, 5, 12, 13), nums=(6, 7, 8, 9, 10, 11)):
            corr.disagree("robs", [ops[m["r"]["obs"]][0][:300], {"gkf": m["gkf"]}], want[:6], model[m["r"]["obs"]][:6])
        corr.count("robs_records", len(want) - 1)
    corr.count("records_networks", len(meta))
    if good and len(meta) < max(2, len(good) // 2):
        corr.inconclusive.append(f"records stream: only {len(meta)} of {len(good)} networks adjusted in-process")


def _recs_equal(impl, model, ids, nums):
    """reader dump (hex doubles) vs model records (printed tokens)"""
    if len(impl) != len(model):
        return False
    for a, b in zip(impl, model):
        ta, tb = a.split(), b.split()
        if len(ta) != len(tb):
            return False
        for k, (u, v) in enumerate(zip(ta, tb)):
            if k in nums:
                try:
                    if hex2float(u) != float(v):
                        return False
                except ValueError:
                    return False
            elif u != v:
                return False
    return True


def corpus_net_info(gkf):
    root = ET.fromstring(gkf.encode("utf-8"))
    pts, desc = {}, ""
    for e in root.iter():
        if local(e.tag) == "point" and e.get("id") is not None:
            pts[e.get("id")] = {}
        if local(e.tag) == "description":
            desc = e.text or ""
    return {"points": pts, "obs": []}, desc


def points_equal(impl, model):
    """reader's point records (hex doubles) vs the model's (decimal strings of the XML)"""
    if len(impl) != len(model):
        return False
    for a, b in zip(impl, model):
        ta, tb = a.split(), b.split()
        if len(ta) != len(tb):
            return False
        if ta[0] != "pt":
            if ta != tb:
                return False
            continue
        if ta[1:6] != tb[1:6] or ta[9:] != tb[9:]:
            return False
        if any(hex2float(u) != float(v) for u, v in zip(ta[6:9], tb[6:9])):
            return False
    return True


def band_equal(impl, model):
    if len(impl) != len(model) or len(impl) != 3:
        return False
    if impl[0] != model[0] or impl[1] != model[1]:
        return False
    a, b = impl[2].split(), model[2].split()
    if len(a) != len(b) or a[0] != b[0]:
        return False
    return all(hex2float(x) == float(y) for x, y in zip(a[1:], b[1:]))


def band_oracle(impl, dim, req, full):
    if len(impl) != 3 or not impl[0].startswith("hdr"):
        return "reader output: " + " | ".join(impl)[:300]
    _, d, b = impl[0].split()
    d, b = int(d), int(b)
    want_b = dim - 1 if (req == -1 or req > dim - 1) else req
    if d != dim or b != want_b:
        return f"dim/band {d}/{b}, expected {dim}/{want_b}"
    mat = [hex2float(v) for v in impl[2].split()[1:]]
    if len(mat) != dim * dim:
        return "matrix size"
    k = 0
    for i in range(dim):
        for j in range(i, dim):
            v = float(full[k])
            k += 1
            want = v if j - i <= b else 0.0
            if mat[i * dim + j] != want or mat[j * dim + i] != want:
                return f"element ({i + 1},{j + 1}) = {mat[i * dim + j]} / {mat[j * dim + i]}, expected {want} (band {b})"
    return None


def compare_two(ctx, gdir, wd, r, c, corr):
    """second epoch = same network with fixed-point-preserving perturbation of the observations"""
    net2 = json.loads(json.dumps(c["net"]))
    rng = random.Random(r["idx"])
    for o in net2["obs"]:
        for it in o["items"]:
            if "val" in it and it.get("t") in ("distance", "s-distance", None):
                it["val"] += rng.gauss(0, 0.01)
    g2 = wd / f"n{r['idx']}_e2.gkf"
    g2.write_text(N.to_gkf2(net2, axes=c["axes"], angles=c["angles"], description="epoch 2"), encoding="utf-8")
    rc, out, err = run_gama(gdir, g2, wd / f"n{r['idx']}_e2", band=-1)
    if rc != 0:
        return
    x1p, x2p = f"{wd}/n{r['idx']}_full.xml", f"{wd}/n{r['idx']}_e2.xml"
    try:
        x2 = parse_xml_result(x2p)
    except ET.ParseError:
        return
    if not x2["adjusted"]:
        return
    a1 = r["adj"]
    a2 = {}
    for p in x2["adjusted"]:
        for cc in ("x", "y", "z", "X", "Y", "Z"):
            if cc in p:
                a2[(tok_id(p["id"]), cc.lower())] = p[cc]
    payload = dict(r["payload"], gkf2=g2.read_text(encoding="utf-8"))
    rc, out, err = sh([str(gdir / "compare-xyz"), "--set-tolerance", "1e9", x1p, x2p], timeout=60)
    mx = re.search(r"^max\s+(\S+)\s+(\S+)\s+(\S+)", out, re.M)
    # CompareXYZ::fetch_file keeps only points that have x, y and z adjusted ("compare-xyz")
    want = [0.0, 0.0, 0.0]
    for (pid, cc), v in a1.items():
        if (pid, cc) in a2 and all((pid, c3) in a1 and (pid, c3) in a2 for c3 in "xyz"):
            k = "xyz".index(cc)
            want[k] = max(want[k], abs(float(a2[(pid, cc)]) - float(v)))
    if any(want):
        corr.count("compare_two_xyz")
    if not mx:
        corr.fail("compare-xyz of two results prints no max line", payload, "CompareXYZ", (out + err)[-600:])
    else:
        got = [abs(float(v)) for v in mx.groups()]
        if any(abs(g - w) > 1e-9 + 1e-9 * w for g, w in zip(got, want)):
            corr.fail("compare-xyz does not report the plain coordinate difference of two results", dict(payload, got=got, want=want),
                      "CompareXYZ", f"got {got} want {want}")
    corr.count("compare_two")
    rc, out, err = sh([str(gdir / "gama-local-deformation"), x1p, x2p], timeout=60)
    if rc != 0:
        corr.fail("gama-local-deformation of two results failed", payload, "GamaLocalDeformation", (err or out)[-600:])
        return
    for m in re.finditer(r"^(.*?)\s+(\d+) \s*(\d+) \s*(\d+)\s+(-?\d+\.\d+)\s+(-?\d+\.\d+)\s+(-?\d+\.\d+)\s", out, re.M):
        pid = tok_id(m.group(1))
        for cc, idx, v in zip("xyz", m.group(2, 3, 4), m.group(5, 6, 7)):
            if int(idx) and (pid, cc) in a1 and (pid, cc) in a2:
                w = float(a2[(pid, cc)]) - float(a1[(pid, cc)])
                if abs(float(v) - w) > 0.51e-5:
                    corr.fail("gama-local-deformation shift is not epoch2 - epoch1", dict(payload, point=pid, got=v, want=w),
                              "GamaLocalDeformation", f"{pid} {cc}: {v} vs {w}")
                    return
    corr.count("deformation_two")


def languages(ctx, gdir, wd, r, c, corr):
    # the numeric-token comparison needs identifiers that cannot be mistaken for numbers in any encoding
    net = json.loads(json.dumps(c["net"]))
    N.rename_ids(net, {pid: f"P{k + 1}" for k, pid in enumerate(list(net["points"]))})
    gkf = wd / f"n{r['idx']}_plain.gkf"
    gkf.write_text(N.to_gkf2(net, axes=c["axes"], angles=c["angles"], description="plain"), encoding="utf-8")
    r = dict(r, payload=dict(r["payload"], gkf=gkf.read_text(encoding="utf-8")))
    ref = None
    # an encoding is only meaningful for the scripts it can represent (ru in iso-8859-2 is mojibake whose bytes
    # happen to look like digits): latin-2 family for the latin-script languages, cp-1251 for ru/ua, utf-8 for all
    latin = {"en", "ca", "cz", "du", "es", "fi", "fr", "hu"}
    combos = [(l, e) for l in LANGS for e in ENCS
              if e == "utf-8" or (e == "cp-1251" and l in ("ru", "ua", "en")) or (e != "cp-1251" and l in latin)]
    if not ctx.thorough:
        combos = random.Random(r["idx"]).sample(combos, 8) + [("en", "utf-8")]
    for lang, enc in combos:
        base = wd / f"n{r['idx']}_{lang}_{enc}"
        rc, out, err = run_gama(gdir, gkf, base, band=-1, outputs=("text", "xml"), extra=["--language", lang, "--encoding", enc])
        if rc != 0:
            corr.fail("gama-local fails with --language/--encoding where the default succeeds", dict(r["payload"], lang=lang, enc=enc),
                      "gama-local", err[-500:])
            return
        xml = Path(f"{base}.xml").read_bytes()
        # numbers are language independent: the adjustment XML must be byte-identical
        if ref is None:
            ref = xml
        elif xml != ref:
            corr.fail("adjustment XML depends on --language/--encoding", dict(r["payload"], lang=lang, enc=enc), "gama-local", "")
            return
        txt = Path(f"{base}.text").read_bytes()
        nums = re.findall(rb"-?\d+\.\d+", txt)
        r.setdefault("nums", nums)
        if nums != r["nums"]:
            corr.fail("numbers in the text output depend on --language/--encoding", dict(r["payload"], lang=lang, enc=enc),
                      "text output", f"{len(nums)} vs {len(r['nums'])} numeric tokens")
            return
        corr.count("language_runs")


def search(ctx, broken, corr):
    """something no longer checks and the quick oracle found no failing input: run the oracles with more cases"""
    big = Corr()
    ctx2 = Ctx(ID, "thorough", ctx.seed)
    ctx2.thorough = False           # keep the release build, but thorough sizes for the cheap streams
    ctx2.size = lambda q, t: min(t, q * 8)
    try:
        correspond(ctx2, big)
    except BuildError:
        return []
    return big.failures


def classify(ctx, f):
    w, d = f.what, f.detail or ""
    if "str2xml output does not decode" in w:
        return "F10"
    if "description in the XML differs" in w and "'" in str(f.replay.get("gkf", "")):
        return "F10"
    if "not well-formed" in w and f.site == "LocalNetworkXML::write":
        return "F11"
    if "gama-local-deformation of a result with itself failed" in w and "CovMat::operator()" in d:
        return "F16"
    if "reader does not return" in w and " read as " in d and "id" in d:
        return "F17"
    if "Octave output cannot be read back" in w:
        return "F18"
    if "read_html refuses gama's own HTML" in w and "not well-formed" in d and \
            re.search(r'id="[^"]*(&(amp|lt);|\]\]&gt;)', str(f.replay.get("gkf", ""))):
        return "F23"
    if "disagree on an adjusted observation" in w and f.replay.get("tag") == "coordinate-y" and "HTML" in w \
            and abs(float(f.replay.get("xml", 0)) + float(f.replay.get("html", 0))) < 1e-4:
        return "F24"
    if "XML and HTML (read by gama's HtmlParser) disagree on adjusted coordinates" in w and re.search(r"id=\"[^\"]*&(amp|lt|gt|apos|quot);", str(f.replay.get("gkf", ""))):
        return "F20"
    return None


def replay(ctx, payload):
    f = payload.get("failure") or {}
    inp = f.get("input") or {}
    print(json.dumps({k: (v if k != "gkf" else v[:1500]) for k, v in inp.items()}, indent=1, ensure_ascii=False)[:4000])
    gdir, exe = build(ctx)
    if inp.get("stream") == "esc":
        impl, _ = run_cases(exe, [[f"esc {inp['hex']}"]])
        s = unhexs(inp["hex"])
        out = unhexs(impl[0][0].split()[1])
        print("str2xml(", s[:80], ") =", out[:120], " decodes to", py_unescape(out))
        return 0 if py_unescape(out) == s else 1
    if inp.get("stream") == "net":
        wd = Path(tempfile.mkdtemp(prefix="c12r-"))
        (wd / "n.gkf").write_text(inp["gkf"], encoding="utf-8")
        args = (inp.get("cmd") or "").split()[2:] or ["--xml", "r.xml"]
        rc, out, err = sh([str(gdir / "gama-local"), "n.gkf"] + args, cwd=str(wd), timeout=120)
        print("gama-local rc", rc, err[-300:])
        bad = 0
        try:
            ET.parse(wd / "r.xml")
            print("XML well-formed")
        except Exception as e:
            print("XML NOT well-formed:", e)
            bad = 1
        if "band" in inp:
            sh([str(gdir / "gama-local"), "n.gkf", "--xml", "rb.xml", "--cov-band", str(inp["band"])], cwd=str(wd), timeout=120)
            rc, out, err = sh([str(gdir / "gama-local-deformation"), "rb.xml", "rb.xml"], cwd=str(wd), timeout=60)
            print("gama-local-deformation rb.xml rb.xml rc", rc, err[-300:])
            bad |= int(rc != 0)
        print("files in", wd)
        return bad
    print(json.dumps(payload.get("no_longer_checks"), indent=1)[:3000])
    return 0
