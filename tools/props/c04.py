"""C04 — solver answers do not depend on the order or history of queries."""
from lib.core import *

ID = "C04"
PROPS_FILES = ["Gama/Props/C04.lean"]
LEAN_TARGETS = ["Gama.Props.C04"]
DRIVERS = ["drv_mtf"]
RULE = ("op histories over MoveToFront<N> (N=1..5): get/erase with keys biased to revisit; "
        "non-trivial = history with at least one hit and one eviction; distinct by history text")
MODELLED = ["std::pair, template instantiation; object lifetime of buffers (slots are integers)",
            "resolves / nullity of the symbolic solver machines are input facts (computed from the numeric solver models by the drivers, "
            "agreement with the real object checked per info line)",
            "LocalNetwork members outside the translator's fixed ARTEFACTS list; levels Points / Observations of the network "
            "denotation are symbolic (.sym)"]


def gen_mtf_history(rng, maxlen):
    n = rng.choice([1, 2, 3, 3, 3, 4, 5])
    ops = [f"new {n}"]
    nkeys = rng.randint(1, n + 3)
    for _ in range(rng.randint(1, maxlen)):
        r = rng.random()
        if r < 0.07:
            ops.append("erase")
        else:
            ops.append(f"get {rng.randint(-1, nkeys)}")
    return ops


def correspond(ctx, corr):
    exe = ctx.build_cpp("c04_mtf", [ctx.verif / "harness" / "c04_mtf.cpp"])
    cases = []
    corpus = ctx.verif / "corpus" / "C04"
    if corpus.exists():
        for f in sorted(corpus.glob("mtf-*.txt")):
            cases.append(f.read_text().split("\n")[:-1])
    for _ in range(ctx.size(300, 20000)):
        cases.append(gen_mtf_history(ctx.rng, ctx.size(40, 200)))
    impl, crashes = run_cases(exe, cases)
    model, mcr = run_cases(ctx.driver("drv_mtf"), cases)
    for i, c in enumerate(cases):
        hits = sum(1 for l in impl[i] if l.endswith(" 1"))
        n = int(c[0].split()[1])
        distinct = len(set(l for l in c if l.startswith("get")))
        nontrivial = hits > 0 and distinct > n
        corr.case(key="\n".join(c) if nontrivial else None, sample={"mtf_history": c[:12], "impl": impl[i][:12]} if i < 2 else None)
        corr.count("mtf_hits", hits)
        if i in crashes:
            corr.fail("MoveToFront harness crashed (sanitizer)", {"stream": "mtf", "ops": c}, "MoveToFront::get", crashes[i][1])
        elif impl[i] != model[i]:
            corr.disagree("mtf", c, impl[i], model[i])


def replay(ctx, payload):
    print(json.dumps(payload.get("failure") or payload.get("no_longer_checks"), indent=1)[:4000])
    return 0

LEVEL_TEXT = ("Lean 4 theorems (all histories, unbounded; 81 theorems in Props/C04.lean, C04Full.lean, C04Pending.lean, C04Net.lean) "
              "about executable models of the solvers' cache/stage/flag state machines (AdjEnvelope, AdjCholDec/AdjGSO, AdjSVD+SVD, "
              "class Adj, LocalNetwork's update cascade); models tied to the C++ by differential correspondence on generated API "
              "histories and a fresh-object oracle on the implementation. One value per (problem, configuration, query): "
              "env_answer_denotes; full_answer_denotes (chol/gso: every history incl. refused solves, every op, outside the exact "
              "region Pending, under FactsF - derived for the drivers' inputs, full_driver_input_is_instance / "
              "adj_driver_input_is_instance - and the representation hypothesis hall on the initial configuration); "
              "svd_answer_denotes and adj_answer_denotes keep their validity hypotheses (SCfgOk/ValidS, AInput.Ok/HAValid). "
              "Negative regions are theorems: full_fresh_iff_not_pending (chol/gso, iff), svd_pending_differs_from_fresh "
              "(inequality only, converse not proved), net_raw_reader_on_adjusted_network. Network level: net_answer_denotes / "
              "net_answer_is_netSolve evaluate the cascade machine's answers through the executed models PE.projectEquations and "
              "Ls.Net.netSolve; lst is tied to np.minx (net_current_list_is_pe_minx).")
LEVEL_NOTE = ("Trusted: Lean kernel, the statements in the four Props/C04*.lean files, the correspondence harnesses and generators, "
              "tools/gen/c04_cascade.py (regex + brace matching on comment-stripped network.h/.cpp, adj_envelope.h: cascade table, "
              "hand-over site least_squares->min_x(min_n_, min_x_), set_algorithm, MoveToFront capacity; rfl ties handCode_eq, "
              "setAlgCode_eq, mtf_cache_size_is_source) and tools/gen/c20_icgs.py (ICGS error-counter sites). The state machines "
              "themselves (Model/EnvState, FullState, AdjState, NetState, MoveToFront) are hand-written and tied by the streams only. "
              "The network-level denotation: see the netdenote stream (round 13). Numeric content of cached vectors is compared with tolerance (IEEE rounding is not modelled).")
TECHNIQUE = "Lean 4 proof (invariant by induction over operation histories) + model/implementation correspondence"


# ---------------------------------------------------------------------------
# stream 2: API histories on the real solver objects, every answer compared with
# the answer of a fresh object of the same configuration (the property itself)
from lib import gen_ls as g

ALGS = ["env", "chol", "gso", "svd"]
SRC = ["lib/gnu_gama/adj/adj.cpp", "lib/gnu_gama/adj/icgs.cpp", "lib/gnu_gama/adj/adj_input_data.cpp"]


def adj_harness(ctx):
    return ctx.build_cpp("adj_harness", [ctx.verif / "harness" / "adj_harness.cpp"] + [ctx.repo / s for s in SRC],
                         includes=[ctx.verif / "harness"])


def gen_history(rng, maxlen):
    p = g.gen_problem(rng, rng.choice(["levelling", "levelling", "dense"]), correlated=rng.random() < 0.3)
    alg = rng.choice(ALGS)
    entry = rng.choice(["solver", "solver", "adj"])
    if entry == "solver" and alg != "env" and not p["unit_cov"]:
        entry = "adj"
    subs = [S for S, ok in g.gen_subsets(rng, p, 4) if ok]
    init = rng.choice([None, "all"] + subs)
    ops = g.problem_lines(p, init) + [f"new {alg} {entry}"]
    n, m = p["n"], p["m"]
    keys = [rng.randint(1, n) for _ in range(rng.randint(1, 5))]      # biased to revisit
    okeys = [rng.randint(1, m) for _ in range(rng.randint(1, 4))]

    def ij(ks):
        return rng.choice(ks), rng.choice(ks)
    qs = []
    for _ in range(rng.randint(1, maxlen)):
        r = rng.random()
        if entry == "solver":
            if r < 0.12:
                q = "x"
            elif r < 0.18:
                q = "r"
            elif r < 0.23:
                q = "rtr"
            elif r < 0.28:
                q = "defect"
            elif r < 0.50:
                q = "qxx %d %d" % ij(keys)
            elif r < 0.62:
                q = "q0xx %d %d" % ij(keys) if alg == "env" else "qxx %d %d" % ij(keys)
            elif r < 0.74:
                q = "qbb %d %d" % ij(okeys)
            elif r < 0.79:
                q = "lindep %d" % rng.choice(keys)
            elif r < 0.83 and alg != "env":
                q = "qbx %d %d" % (rng.choice(okeys), rng.choice(keys))
            elif r < 0.90:
                S = rng.choice(subs)
                q = "min_x %d %s" % (len(S), " ".join(map(str, S)))
            elif r < 0.94:
                q = "min_x_all"
            else:
                q = "reset"
        else:
            if r < 0.2:
                q = "x"
            elif r < 0.3:
                q = "r"
            elif r < 0.4:
                q = "rtr"
            elif r < 0.5:
                q = "defect"
            elif r < 0.7:
                q = "qxx %d %d" % ij(keys)
            elif r < 0.85:
                q = "qbb %d %d" % ij(okeys)
            elif r < 0.93:
                q = "set_alg " + rng.choice(ALGS)
            else:
                q = "reset"
        qs.append(q)
    return p, alg, entry, ops, qs


CONFIG_OPS = ("min_x", "min_x_all", "reset", "set_alg")


def with_fresh(qs):
    out = []
    for q in qs:
        out.append(q)
        if not q.startswith(CONFIG_OPS):
            out.append("fresh " + q)
    return out


def history_failures(case_ops, qs, out):
    """compare every answer with the fresh-object answer; returns list of (index, q, got, fresh)"""
    bad = []
    k = len(case_ops)          # first query output position
    o = out[len([l for l in case_ops if l == "end" or l.startswith("new ")]):]
    pos = 0
    for qi, q in enumerate(qs):
        if pos >= len(o):
            break
        a = o[pos]
        pos += 1
        if q.startswith(CONFIG_OPS):
            continue
        if pos >= len(o):
            break
        f = o[pos]
        pos += 1
        if not lines_equal(a, f, rtol=1e-8, atol=1e-9):
            bad.append((qi, q, a, f))
    return bad


def run_histories(ctx, corr, exe, n, maxlen, rng=None):
    rng = rng or ctx.rng
    gens = [gen_history(rng, maxlen) for _ in range(n)]
    cases = [ops + with_fresh(qs) for (_, _, _, ops, qs) in gens]
    impl, crashes = run_cases(exe, cases, timeout=1800)
    for i, (p, alg, entry, ops, qs) in enumerate(gens):
        evict = len(set(q for q in qs if q.startswith(("qxx", "q0xx")))) > 3
        nontrivial = p["defect"] > 0 and any(q.startswith(CONFIG_OPS) for q in qs) or evict
        corr.case(key=" ".join(ops + qs) if nontrivial else None,
                  sample={"alg": alg, "entry": entry, "history": qs[:15], "answers": impl[i][2:12]} if i < 2 else None)
        corr.count(f"hist_{alg}_{entry}")
        corr.count("hist_singular" if p["defect"] else "hist_regular")
        corr.count("hist_ops", len(qs))
        if i in crashes:
            corr.fail("history crashes the solver (sanitizer / abort)", {"stream": "history", "ops": ops + with_fresh(qs)},
                      f"{alg}/{entry}", crashes[i][1])
            continue
        bad = history_failures(ops, qs, impl[i])
        if bad:
            qi, q, a, f = bad[0]
            small = shrink_history(exe, ops, qs[:qi + 1])
            corr.fail(f"answer to '{q}' depends on history: got {a}, fresh object gives {f}",
                      {"stream": "history", "ops": ops + with_fresh(small), "alg": alg, "entry": entry, "history": small},
                      f"{alg}/{entry}", f"{a} vs {f}")


def shrink_history(exe, ops, qs):
    def still(cand):
        if not cand:
            return False
        out, cr = run_cases(exe, [ops + with_fresh(cand)], timeout=60)
        return bool(cr) or bool(history_failures(ops, cand, out[0]))
    try:
        return ddmin(qs, still, max_tests=80)
    except Exception:
        return qs


_mtf_correspond = correspond


def correspond(ctx, corr):          # noqa: F811  (extends the MoveToFront stream defined above)
    _mtf_correspond(ctx, corr)
    exe = adj_harness(ctx)
    run_histories(ctx, corr, exe, ctx.size(250, 8000), ctx.size(25, 120))


def search(ctx, broken, corr):
    c2 = Corr()
    exe = adj_harness(ctx)
    run_histories(ctx, c2, exe, 3000, 60, rng=random.Random(f"search-{ctx.seed}"))
    if not c2.failures:
        # histories that hand the object other inputs (reset_new / set): only harness/c04_full.cpp speaks them
        old = ctx.rng
        ctx.rng = random.Random(f"search-multi-{ctx.seed}")
        try:
            run_env_state(ctx, c2, c04_full.full_harness(ctx), 1500, 60)
        finally:
            ctx.rng = old
    return c2.failures


def classify(ctx, failure):
    return None


# ---------------------------------------------------------------------------
# stream 3: AdjEnvelope state machine (Model/EnvState.lean) against the real object:
# discrete state through GamaVerifProbe after every call + numeric answers
DRIVERS = ["drv_mtf", "drv_envstate"]


def gen_env_history(rng, maxlen, multi=False):
    """multi: the object is also given OTHER inputs (`reset_new k`): same-shape variants (other coefficients, weights,
    sparsity pattern) and problems of another size, regular and singular; cache-filling off-diagonal queries
    (unknowns / observations far apart: outside the envelope) before and after"""
    from props import c04_full as cf
    while True:
        ps = cf.gen_problems(rng, unit=False) if multi else \
            [g.gen_problem(rng, rng.choice(["levelling", "levelling", "levelling", "dense"]), correlated=rng.random() < 0.3)]
        if all(q_["n"] >= 2 for q_ in ps):
            break
    p = ps[0]
    order = ps[1:] + [p]
    p["_all"] = order

    def subsets(q_):
        return [S for S, ok in g.gen_subsets(rng, q_, 4) if ok and len(S) >= max(1, q_["defect"])]
    subs = subsets(p)
    init = rng.choice([None, "all"] + subs)
    ops = [l for q_ in ps[1:] for l in g.problem_lines(q_, None)] + g.problem_lines(p, init) + ["new env solver", "envinfo", "state"]
    n, m = p["n"], p["m"]
    keys = [rng.randint(1, n) for _ in range(rng.randint(2, 6))]
    okeys = [rng.randint(1, m) for _ in range(rng.randint(1, 4))]
    qs = []
    cur, cfg = p, init
    for _ in range(rng.randint(1, maxlen)):
        r = rng.random()
        if multi and r < 0.12:
            k = rng.randrange(len(order))
            old, cur = cur, order[k]
            qs.append(f"reset_new {k + 1}")
            if cfg in (None, "all"):
                # the default configuration rides across reset(data of another size): the list 1..n that solve_x()
                # materialised for the OLD size is dropped by reset (repo 65eea33; finding C04-env-allist-survives-reset)
                pass
            elif not cf._valid_for(cur, cfg):
                cs = subsets(cur)
                cfg = rng.choice(cs) if cs else "all"
                qs.append("min_x_all" if cfg == "all" else "min_x %d %s" % (len(cfg), " ".join(map(str, cfg))))
            n, m = cur["n"], cur["m"]
            keys = [rng.randint(1, n) for _ in range(rng.randint(2, 6))]
            okeys = [rng.randint(1, m) for _ in range(rng.randint(1, 4))]
            subs = subsets(cur)
            continue
        if multi and r < 0.30:
            qs.append(rng.choice(["qxx 1 %d" % n, "qxx %d 1" % n, "q0xx 1 %d" % n, "qbb 1 %d" % m, "qbb %d 1" % m,
                                  "qxx %d %d" % (rng.randint(1, n), n)]))
            continue
        if r < 0.10:
            q = "x"
        elif r < 0.15:
            q = "r"
        elif r < 0.19:
            q = "rtr"
        elif r < 0.23:
            q = "defect"
        elif r < 0.50:
            q = "qxx %d %d" % (rng.choice(keys), rng.choice(keys))
        elif r < 0.68:
            q = "q0xx %d %d" % (rng.choice(keys), rng.choice(keys))
        elif r < 0.78:
            q = "qbb %d %d" % (rng.choice(okeys), rng.choice(okeys))
        elif r < 0.82:
            q = "lindep %d" % rng.choice(keys)
        elif r < 0.90 and subs:
            S = rng.choice(subs)
            q = "min_x %d %s" % (len(S), " ".join(map(str, S)))
            cfg = S
        elif r < 0.94:
            q = "min_x_all"
            cfg = "all"
        else:
            q = "reset"
        qs.append(q)
    lines = []
    for q in qs:
        lines.append(q)
        if q.startswith("reset_new"):
            lines.append("envinfo")         # facts of the new input (they do not depend on the stored list)
        lines.append("state")
        if not q.startswith(CONFIG_OPS):
            lines.append("fresh " + q)
    return p, ops, qs, lines


def gen_env_refusal_history(rng, maxlen):
    """round 5, symmetry with the chol/gso/svd stream `fullstate-refusal`: an AdjEnvelope object that is refused
    (singular system, list too short) and then given a full-rank / a singular resolving system by `reset_new`"""
    from props import c04_full as cf
    p, _alg, ops, qs = cf.gen_refusal_history(rng, maxlen, alg="env")
    k0 = ops.index("new env solver")
    ops = ops[:k0] + ["new env solver", "envinfo", "state"]
    lines = []
    for q in qs:
        lines.append(q)
        if q.startswith("reset_new"):
            lines.append("envinfo")
        lines.append("state")
        if not q.startswith(CONFIG_OPS):
            lines.append("fresh " + q)
    return p, ops, qs, lines


def run_env_state(ctx, corr, exe, n, maxlen):
    gens = [gen_env_history(ctx.rng, maxlen, multi=(k % 2 == 1)) for k in range(n)]
    rgens = [gen_env_refusal_history(ctx.rng, maxlen) for _ in range(max(12, n // 10))]
    for (p_, _, _, _) in rgens:
        for k_, v_ in p_["_refusal"].items():
            corr.count("env_refusal_" + k_, v_)
    corr.count("env_refusal_histories", len(rgens))
    gens += rgens
    # regression inputs of fixed findings (corpus/C04/env-*.ops: stream format incl. envinfo/state/fresh lines)
    for f in sorted((ctx.verif / "corpus" / "C04").glob("env-*.ops")):
        ls = [l for l in f.read_text().splitlines() if l.strip() and not l.startswith(("#", "case "))]
        k0 = ls.index("new env solver")
        qs_ = [l for l in ls[k0 + 3:] if l not in ("state", "envinfo") and not l.startswith("fresh ")]
        gens.append(({"n": 0, "m": 0, "defect": 1, "_all": [{"n": -1}] * 9, "corpus": f.name}, ls[:k0 + 3], qs_, ls[k0 + 3:]))
    cases = [ops + lines for (_, ops, _, lines) in gens]
    impl, crashes = run_cases(exe, cases, timeout=1800)
    # second phase: hand the implementation's envinfo facts to the model (one per `envinfo` line, in order)
    SILENT = ("problem", "row", "cov", "rhs", "minx")
    mcases = []
    for c, o in zip(cases, impl):
        it = iter(o)
        mc = []
        for l in c:
            if l.split()[0] in SILENT:
                mc.append(l)
                continue
            ol = next(it, "")
            mc.append(ol if (l == "envinfo" and ol.startswith("envinfo ")) else l)
        mcases.append(mc)
    model, _ = run_cases(ctx.driver("drv_envstate"), mcases, timeout=1800)
    for i, (p, ops, qs, lines) in enumerate(gens):
        nontrivial = p["defect"] > 0 and len(set(q for q in qs if q.startswith(("qxx", "q0xx")))) >= 3
        corr.case(key=" ".join(ops + qs) if nontrivial else None,
                  sample={"env_history": qs[:12], "impl": impl[i][2:14], "model": model[i][2:14]} if i < 1 else None)
        corr.count("env_hist")
        corr.count("env_hist_singular" if p["defect"] else "env_hist_regular")
        rn = [int(q.split()[1]) - 1 for q in qs if q.startswith("reset_new")]
        corr.count("env_reset_new", len(rn))
        corr.count("env_reset_new_same_size", sum(1 for k in rn if p["_all"][k]["n"] == p["n"]))
        # default configuration ("all") carried across a reset to another size: the fixed finding's pattern
        cfg_, size_, cnt_ = "d", p["n"], 0
        for q in qs:
            if q.startswith("min_x_all"):
                cfg_ = "d"
            elif q.startswith("min_x "):
                cfg_ = "l"
            elif q.startswith("reset_new"):
                n2 = p["_all"][int(q.split()[1]) - 1]["n"]
                cnt_ += 1 if (cfg_ == "d" and n2 != size_ and n2 >= 0) else 0
                size_ = n2
        corr.count("env_default_cfg_across_other_size", cnt_)
        if i in crashes:
            corr.fail("history crashes AdjEnvelope (sanitizer / abort)", {"stream": "envstate", "ops": cases[i]},
                      "env/solver", crashes[i][1])
            continue
        a, b = impl[i], model[i]
        if len(a) != len(b) or not all(lines_equal(x, y, rtol=1e-8, atol=1e-9) for x, y in zip(a, b)):
            k = next((j for j, (x, y) in enumerate(zip(a, b)) if not lines_equal(x, y, rtol=1e-8, atol=1e-9)), min(len(a), len(b)))
            corr.disagree("envstate", cases[i], a[max(0, k - 2):k + 2], b[max(0, k - 2):k + 2], f"first difference at output line {k}")
        corr.count("env_cache_evictions", sum(1 for l in a if l.startswith("st ") and len(l.split("keys")[1].split()) == 3))
        # the property on the implementation itself: every answer equals the answer of a fresh object given the
        # CURRENT input and configuration (lines: <query>, state, fresh <query>)
        nsil = len([l for l in cases[i] if l.split()[0] in ("problem", "row", "cov", "rhs", "minx")])
        lines_ = cases[i][nsil:]
        if len(a) == len(lines_):
            ff = c04_full.fresh_failures(lines_, a, set())
            if ff:
                k, q, got, fr = ff[0]
                corr.fail(f"answer to '{q}' depends on history: got {got}, fresh object gives {fr}",
                          {"stream": "envstate", "ops": cases[i][:nsil] + lines_[:k + 1], "alg": "env", "entry": "solver"},
                          "env/solver", f"{got} vs {fr}")


_hist_correspond = correspond


def correspond(ctx, corr):          # noqa: F811
    _hist_correspond(ctx, corr)
    exe = c04_full.full_harness(ctx)      # same protocol as adj_harness.cpp + select / reset_new
    run_env_state(ctx, corr, exe, ctx.size(200, 6000), ctx.size(25, 100))


# ---------------------------------------------------------------------------
# streams 4-8: full solvers (chol/gso/svd + SVD), class Adj, LocalNetwork cascade (tools/props/c04_full.py)
from props import c04_full  # noqa: E402

PROPS_FILES = PROPS_FILES + c04_full.PROPS_FILES
LEAN_TARGETS = LEAN_TARGETS + c04_full.LEAN_TARGETS
DRIVERS = DRIVERS + c04_full.DRIVERS


def translate(ctx):
    c04_full.translate(ctx)          # regenerates lean/Gama/Gen/NetCascade.lean from network.h/.cpp


_env_correspond = correspond


def correspond(ctx, corr):          # noqa: F811
    _env_correspond(ctx, corr)
    c04_full.run_full_state(ctx, corr)
    c04_full.run_adj_state(ctx, corr)
    c04_full.run_net_cascade(ctx, corr)
    c04_full.run_plain_heap(ctx, corr)
    c04_full.run_corpus_programs(ctx, corr)
