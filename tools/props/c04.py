"""C04 — solver answers do not depend on the order or history of queries."""
from lib.core import *

ID = "C04"
PROPS_FILES = ["Gama/Props/C04.lean"]
LEAN_TARGETS = ["Gama.Props.C04"]
DRIVERS = ["drv_mtf"]
RULE = ("op histories over MoveToFront<N> (N=1..5): get/erase with keys biased to revisit; "
        "non-trivial = history with at least one hit and one eviction; distinct by history text")
MODELLED = ["std::pair, template instantiation; object lifetime of buffers (slots are integers)"]


def gen_mtf_history(rng, maxlen):
    n = rng.choice([1, 2, 3, 3, 3, 4, 5])
    ops = [f"new {n}"]
    nkeys = rng.randint(1, n + 3)
    for _ in range(rng.randint(1, maxlen)):
        r = rng.random()
        if r < 0.07:
            ops.append("erase")
        else:
            ops.append(f"get {rng.randint(-1, nkeys)}")
    return ops


def correspond(ctx, corr):
    exe = ctx.build_cpp("c04_mtf", [ctx.verif / "harness" / "c04_mtf.cpp"])
    cases = []
    corpus = ctx.verif / "corpus" / "C04"
    if corpus.exists():
        for f in sorted(corpus.glob("mtf-*.txt")):
            cases.append(f.read_text().split("\n")[:-1])
    for _ in range(ctx.size(300, 20000)):
        cases.append(gen_mtf_history(ctx.rng, ctx.size(40, 200)))
    impl, crashes = run_cases(exe, cases)
    model, mcr = run_cases(ctx.driver("drv_mtf"), cases)
    for i, c in enumerate(cases):
        hits = sum(1 for l in impl[i] if l.endswith(" 1"))
        n = int(c[0].split()[1])
        distinct = len(set(l for l in c if l.startswith("get")))
        nontrivial = hits > 0 and distinct > n
        corr.case(key="\n".join(c) if nontrivial else None, sample={"mtf_history": c[:12], "impl": impl[i][:12]} if i < 2 else None)
        corr.count("mtf_hits", hits)
        if i in crashes:
            corr.fail("MoveToFront harness crashed (sanitizer)", {"stream": "mtf", "ops": c}, "MoveToFront::get", crashes[i][1])
        elif impl[i] != model[i]:
            corr.disagree("mtf", c, impl[i], model[i])


def replay(ctx, payload):
    print(json.dumps(payload.get("failure") or payload.get("no_longer_checks"), indent=1)[:4000])
    return 0

LEVEL_TEXT = ("Lean 4 theorems (all histories, unbounded) about executable models of the solvers' cache/stage/flag "
              "state machines; models tied to the C++ by differential correspondence on generated API histories and a "
              "fresh-object oracle on the implementation.")
LEVEL_NOTE = ("Trusted: Lean kernel, the statements in Props/C04.lean, the correspondence harness and generator. "
              "Numeric content of cached vectors is compared with tolerance (IEEE rounding is not modelled).")
TECHNIQUE = "Lean 4 proof (invariant by induction over operation histories) + model/implementation correspondence"
