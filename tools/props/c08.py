"""C08 — choice of datum in a free network changes only the datum.

Two streams on every run:

  ls   solver level (harness/adj_harness.cpp, shared with C01): free problems (defect > 0) from
       tools/lib/gen_ls.py, several regularisation subsets that resolve the defect (decided exactly)
       per problem, four algorithms x {solver, adj}.  Model <-> implementation correspondence on
       x, r, rtr, defect exactly as C01; property oracle on the implementation's answers for every
       PAIR of admissible subsets: equal residuals, equal sum of squares, equal adjusted observations
       (A(x_S - x_S') evaluated in exact rational arithmetic on the returned doubles), x_S S-orthogonal
       to every exact kernel vector, sum_{i in S} x_i^2 not decreasing along kernel directions, equal defect.
  net  network level (gama-local from the current tree): generated free networks (levelling defect 1,
       2D defect 3/4, 3D defect 4), two different admissible sets of constrained points, four algorithms;
       all runs of one network must agree in residuals / adjusted observations and their standard
       deviations / [pvv] / degrees of freedom / defect / m0 and in all inter-point distances (height
       differences) of the adjusted coordinates; corrections of the constrained coordinates must be
       orthogonal to translations, rotation (and scale when no distance is observed).
"""
import concurrent.futures
import itertools
import math
import os
import subprocess
import tempfile
import time
from fractions import Fraction as F

from lib.core import *
from lib import gen_ls as g
from lib import gen_net as gn
from lib.exact_verdict import XJudge, exact_x_verdict      # the narrow rule for x lines on ill-conditioned problems
from props import c01 as c01p

ID = "C08"
PROPS_FILES = ["Gama/Props/C08.lean", "Gama/Props/C08Solvers.lean", "Gama/Props/C08Net.lean",
               "Gama/Props/C08SvdDecompose.lean", "Gama/Props/C08ProjectEquations.lean",
               "Gama/Props/C08NetWitness.lean", "Gama/Props/C08InputGap.lean",
               "Gama/Props/C08PeWitness.lean", "Gama/Props/C08Invariants.lean"]
LEAN_TARGETS = ["Gama.Props.C08", "Gama.Props.C08Solvers", "Gama.Props.C01.Spec", "Gama.Props.C08Net",
                "Gama.Props.C08SvdDecompose", "Gama.Props.C08ProjectEquations", "Gama.Props.C08NetWitness",
                "Gama.Props.C08InputGap", "Gama.Props.C08PeWitness", "Gama.Props.C08Invariants"]
DRIVERS = ["drv_ls", "drv_minx"]
RULE = ("ls: free problems (defect>0; dense with planted dependent columns, levelling graphs incl. disconnected; unit / "
        "diagonal / banded SPD covariance) x up to 4 regularisation subsets that resolve the defect (exact rational "
        "decision) x {env,chol,gso,svd} x {solver,adj}; a case is distinct by problem text + subset + algorithm + entry and "
        "non-trivial when the subset is a proper subset or the covariance is correlated. net: free levelling / 2D "
        "(direction+distance, distance, direction, angle+distance) / 3D networks x 2 different admissible constrained "
        "point sets x 4 algorithms through gama-local (one third with a planted gross error that gama-local removes); "
        "distinct by gkf text + algorithm. svdsub: dense problems with 2..4 planted dependent columns x subsets of size "
        "defect-1, defect (5 per problem), defect+1, defect+2 for the svd solver; distinct by problem + subset. minx: "
        "generated networks (levelling, 2D, 3D, vectors, isolated point; statuses fixed/adjusted/constrained at random, "
        "one planted gross error) x scripted histories of project_equations() calls; distinct by gkf + script, "
        "non-trivial when a coordinate is constrained")
LEVEL_TEXT = ("Lean 4 theorems (Props/C08.lean) about ANY two least-squares solutions (x,v,rtr), (x',v',rtr') of the same "
              "weighted problem (A,b,P), P symmetric positive definite, regularised over subsets S, S': v = v', rtr = rtr', "
              "A x = A x', x - x' in ker A, A Q A' identical for all generalised inverses of A'PA, dof a function of A "
              "alone, sum_{i in S} x_i^2 minimal <=> x S-orthogonal to ker A, x unique when S resolves the defect; for "
              "all sizes, weights, defects, subsets, over every linearly ordered field. They apply to each solver model "
              "through the C01 theorems (model output satisfies IsLSSolution). Tie: C01's model/implementation "
              "correspondence with several subsets per free problem, plus exact-rational and network-level "
              "(gama-local) metamorphic oracles on the implementation. Round 3: executable model of "
              "LocalNetwork::project_equations' numbering of the unknowns and construction of min_x_/min_n_ "
              "(Model/MinX.lean; recursion through singular_coords) with theorems for every state and every history of "
              "calls (the list handed to the solver is exactly the non-zero indexes the CURRENT numbering gives to the "
              "constrained coordinates, has length min_n_, distinct entries in 1..n, does not depend on what earlier calls "
              "left behind; another observation order renumbers it by a bijection), tied by harness/c08_minx.cpp (real "
              "LocalNetwork, friend probe) vs lean/Driver/MinX.lean on scripted histories (outlier removal, observation / "
              "point removal, re-linearisation); per-solver instances of the datum theorems (env, chol, gso, svd, Adj); "
              "SVD::min_subset_x: minimal subset norm for any defect, for the factors the model of SVD::svd returns "
              "(Props/C08SvdDecompose.lean: no certificate; hypothesis = the returned singular values are 0 or above "
              "tol*max W), tied by an svd stream with defect 2-4 and subsets of size exactly = defect; through LocalNetwork "
              "for any two algorithms and two lists: C08_net_datum. Rounds 7-8: the two lists are those of two CALLS of the "
              "executed model of project_equations() (Model/ProjectEquations.lean) on networks that differ only in which "
              "coordinate groups are constrained and which free - C08_pe_datum_same (value level, every carrier incl. Float, any "
              "depth of the singular_coords recursion: same rows, right-hand sides, clusters, m0, unknowns_, removed points; only "
              "min_x_ differs), C08_pe_datum (full: both lists = MinX.fillMin of the numbering and statuses each call ends with, "
              "distinct, in 1..n; equal residuals, [pvv], A x, defect, all q_bb; each x S-orthogonal to ker A over its own "
              "list), C08_pe_datum_gap / C08_net_datum_gap with ONE input-side solver hypothesis per run (InputGap on the same "
              "(A, P), once per list; RegListOK of both lists derived from the calls); C08_net_datum applied over R to a "
              "correlated network with cholesky on one list and the envelope on the other (C08_net_datum_witness). "
              "Round 11 (Props/C08Invariants.lean, clause 6 to FIRST ORDER on the regenerated linearisation): every regenerated row "
              "annihilates the datum generators of its class (C08_rows_annihilate_datum_generators), their span lies in ker A of the "
              "executed pass and of project_equations() output (C08_datum_generators_in_kernel, C08_pe_datum_generators_in_kernel), the "
              "linearised distance / angle between two adjusted points is the same for two datum solutions "
              "(C08_adjusted_distance_datum_invariant, C08_adjusted_angle_datum_invariant; hypothesis hker = ker A within that span, "
              "assumed); C08_pe_datum_gap applied over R to two evaluated project_equations() outputs (Props/C08PeWitness.lean).")
LEVEL_NOTE = ("Exact-arithmetic statements; IEEE rounding is outside. 'All distances and angles between adjusted points are "
              "the same' is proved to FIRST ORDER on the regenerated linearisation (Props/C08Invariants.lean, round 11): every "
              "row of the 13 regenerated classes annihilates the datum generators its class is invariant under "
              "(C08_rows_annihilate_datum_generators: tx, ty, tz, rot with 2000/pi cc on orientation unknowns, scale), "
              "span{g} is in ker of the executed pass / project_equations output (C08_pe_datum_generators_in_kernel), and a "
              "distance / angle between adjusted points has the same linearised value for two datum solutions "
              "(C08_adjusted_distance/angle_datum_invariant) under the hypothesis ker A within span{g} (hker: no configuration "
              "defect beyond the datum defect; assumed, no instance proved) or directly for x' - x in span{g}; second-order "
              "terms and printed precision after iteration are checked by the network oracle (inter-point distances, angles, "
              "height "
              "differences), not proved. In Model/MinX.lean the set of revised observations and the numeric half of "
              "singular_coords (1 - |cos| < 1e-12) are a parameter (World) the theorems quantify over; the driver runs the "
              "structural part of LocalRevision and the generator avoids histories in which the numeric test could fire "
              "(Model/ProjectEquations.lean, which the C08_pe_datum* theorems are about, executes both halves and the "
              "regenerated linearisation; it is tied by the pe stream of C01/C05, not by a stream of this check). "
              "C08_pe_datum compares two single calls; C08_pe_datum_partial is the round-7 form with the equality of the two "
              "assembled systems as a hypothesis (now derived); the pe forms keep S-orthogonality but not the two minimal-norm "
              "conjuncts of C08_net_datum. Solver premise at LocalNetwork level: Net.SolverHyp per run, or the input-side "
              "InputGap (thresholds + RankGap for envelope/cholesky/gso, SingGap for svd) in the _gap forms. The svd theorems "
              "no longer take the factorisation as a certificate: A = U W V', V'V = 1, U'U = 1 on kept columns are proved "
              "for what Svd.decompose returns (C08_svd_decompose_subset_min_norm, C08_svd_decompose_datum); not proved: "
              "convergence of the QR iteration (= decompose returns), rounding. Every per-solver instance carries its "
              "solver's 'tested quantity is exactly 0 or above the tolerance' premise; the real kernels' absolute "
              "tolerances under extreme weights are known findings (F22, C09-F2, C10-TINY; status known, F22 also recorded "
              "for C08 in known_findings.jsonl); F22 is met by the net stream "
              "itself (a 7-point free trilateration network refused by --algorithm envelope only; recognised by the "
              "solver-level defect count env < chol = gso = svd = expected, see classify).")
TECHNIQUE = "Lean 4 proof (Mathlib matrices over an ordered field) + model/implementation correspondence + metamorphic oracles"
MODELLED = c01p.MODELLED + ["gama-local's iteration of the linearisation and its text/XML output (observed, not modelled)"]
ASSUMPTIONS = c01p.ASSUMPTIONS + ["network oracle: generated networks are well determined apart from the datum defect "
                                  "(runs reporting another defect are counted and skipped)"]
TRUSTED = ["tools/lib/gen_ls.py exact rational kernel / 'resolves' decision / reference solution (the latter decides ls cases "
           "whose x lines miss the componentwise 1e-9 comparison on an ill-conditioned problem: tools/lib/exact_verdict.py)",
           "tools/lib/gen_net.py gkf writer and result reader",
           "tools/gen/c05_linearization.py (C08's translate regenerates Gen/Linearization.lean, which the clause-6 theorems read)",
           "hand models: Model/MinX.lean (numbering / min_x_ bookkeeping; its Obs.refs is hand-written, proved equal to the "
           "touches of the regenerated linearisation in C05_minx_refs_are_generated_touches), Lemmas/LS/Datum2D.lean (2D "
           "distance rows of the clause-6 reading)",
           "tools/gen/pe_stream.py pe_harness + harness/pe_net.cpp (solver_defects: the project equations of a failing gkf fed "
           "to adj_harness, root-cause clause of the F22 signature in classify); corpus/C08/f22-envelope-2d-dist-7pt.*"]

ALGS = c01p.ALGS
NET_ALGS = ("envelope", "cholesky", "gso", "svd")
harness = c01p.harness
vec = c01p.vec


# =========================================================================== solver level

def admissible_subsets(rng, p, want=4):
    """up to `want` distinct subsets (1-based index lists) that resolve the defect; first one is 'all'"""
    n, d = p["n"], p["defect"]
    out, seen = [list(range(1, n + 1))], {tuple(range(1, n + 1))}
    tries = 0
    while len(out) < want and tries < 40:
        tries += 1
        size = min(n, rng.choice([d, d, d + 1, d + 1, d + 2, rng.randint(1, n)]))
        S = tuple(sorted(rng.sample(range(1, n + 1), max(1, size))))
        if S in seen or not g.resolves(p, list(S)):
            continue
        seen.add(S)
        out.append(list(S))
    return out


def ls_quota(nprob, thorough=False):
    """guaranteed problems on top of the historical mix (tools/lib/gen_ls.py): free-network Jacobians with a datum
    defect of 3 and 4 (every kind of FREE_KINDS: the datum transformations of a real free network) and two-part
    problems, each with the constraint set 'all' and PROPER admissible constraint sets (coordinates of some points)"""
    return {"free": max(8, nprob // 6), "parts": max(4, nprob // 12)} if thorough else {"free": 8, "parts": 4}


def make_ls_cases(ctx, nprob, quota=None):
    """returns cases, meta=(pi, p, S, alg, entry) and groups {(pi, alg, entry): [case index…]}"""
    cases, meta, groups = [], [], {}
    quota = ls_quota(nprob, ctx.thorough) if quota is None else quota
    probs = []
    made = guard = 0
    while made < nprob and guard < 40 * nprob:
        guard += 1
        p = g.gen_problem(ctx.rng)
        if p["defect"] == 0:
            continue
        subs = admissible_subsets(ctx.rng, p)
        if len(subs) < 2:
            continue
        made += 1
        probs.append((p, subs))
    for fam, count in (("free", quota.get("free", 0)), ("parts", quota.get("parts", 0))):
        for k in range(count):
            family = "free-" + g.FREE_KINDS[k % len(g.FREE_KINDS)] if fam == "free" else "parts"
            p = g.gen_problem(ctx.rng, family=family, correlated=(k % 3 == 2))
            subs = [list(range(1, p["n"] + 1))] + [S for S, ok in g.gen_proper_subsets(ctx.rng, p, 3, 0)]
            if len(subs) >= 2:
                probs.append((p, subs))
    for pi, (p, subs) in enumerate(probs, 1):
        for alg in ALGS:
            for entry in ("solver", "adj"):
                if entry == "solver" and alg != "env" and not p["unit_cov"]:
                    continue
                for S in subs:
                    reg = "all" if (len(S) == p["n"] and ctx.rng.random() < 0.5) else S
                    cases.append(g.problem_lines(p, reg) + [f"new {alg} {entry}", "x", "r", "rtr", "defect"])
                    meta.append((pi, p, S, alg, entry))
                    groups.setdefault((pi, alg, entry), []).append(len(cases) - 1)
    return cases, meta, groups


def answer(out):
    """(x, r, rtr, defect) of one case's output lines, or an error string"""
    if len(out) < 6 or out[0] != "ok" or out[1] != "ok":
        return "harness protocol: " + " | ".join(out[:3])
    x, r, rtr = vec(out[2]), vec(out[3]), vec(out[4])
    if x is None or r is None or rtr is None or not out[5].startswith("int "):
        return "solver threw or returned nothing: " + " | ".join(out[2:6])
    return x, r, rtr[0], int(out[5].split()[1])


def single_oracle(p, S, ans):
    """second criterion on one answer: x_S S-orthogonal to the exact kernel; S-norm minimal along kernel directions"""
    x, r, rtr, defect = ans
    bad = []
    if len(x) != p["n"] or len(r) != p["m"]:
        return [f"dimension of x/r: {len(x)}/{len(r)} for n={p['n']} m={p['m']}"]
    if defect != p["defect"]:
        bad.append(f"defect reported {defect} but n - rank A = {p['defect']}")
    xq = [F(v) for v in x]
    nS = sum(xq[i - 1] ** 2 for i in S)
    margin = 0.0
    for gk in p["kernel"]:
        dot = sum(xq[i - 1] * gk[i - 1] for i in S)
        sc = sum(abs(xq[i - 1] * gk[i - 1]) for i in S)
        gg = sum(gk[i - 1] ** 2 for i in S)
        if abs(dot) > 1e-8 * (1 + sc):
            bad.append(f"x_S not orthogonal to the datum transformation {[str(v) for v in gk]} restricted to S: "
                       f"sum_S x_i g_i = {float(dot):.3g}")
        margin = max(margin, abs(float(dot)) / (1 + float(sc)))
        # S-norm along the kernel direction: optimal step and two fixed steps must not decrease it
        steps = [F(1, 1000), F(-1, 1000), F(1), F(-1)] + ([-dot / gg] if gg else [])
        for t in steps:
            nT = sum((xq[i - 1] + t * gk[i - 1]) ** 2 for i in S)
            if nT < nS - F(1, 10 ** 9) * (1 + nS):
                bad.append(f"sum_S x_i^2 = {float(nS):.12g} decreases to {float(nT):.12g} along the kernel direction "
                           f"{[str(v) for v in gk]} (step {float(t):.3g})")
                break
    return bad, margin


def pair_oracle(p, A, a1, a2):
    """datum invariance between the answers for two admissible subsets"""
    x1, r1, rtr1, d1 = a1
    x2, r2, rtr2, d2 = a2
    bad = []
    sc = 1.0 + max([abs(v) for v in x1 + x2 + r1 + r2] + [0.0])
    tol = 1e-8 * sc
    dr = max([abs(a - b) for a, b in zip(r1, r2)] + [0.0])
    if dr > tol:
        bad.append(f"residuals differ by {dr:.3g} between the two constraint sets")
    if abs(rtr1 - rtr2) > 1e-8 * (1 + abs(rtr1)):
        bad.append(f"sum of squares differs: {rtr1!r} vs {rtr2!r}")
    if d1 != d2:
        bad.append(f"defect (hence degrees of freedom) differs: {d1} vs {d2}")
    dx = [F(a) - F(b) for a, b in zip(x1, x2)]
    Adx = [sum(row[j] * dx[j] for j in range(len(dx)) if row[j] != 0) for row in A]
    anorm = 1.0 + max([float(abs(v)) for row in A for v in row] + [0.0])
    dk = max([abs(float(v)) for v in Adx] + [0.0])
    if dk > 1e-8 * sc * anorm * max(1, len(dx)):
        bad.append(f"adjusted observations differ: |A (x_S - x_S')| = {dk:.3g} (difference of the two solutions is not a "
                   f"kernel vector)")
    return bad, max(dr / sc, dk / (sc * anorm))


def ls_stream(ctx, corr, nprob, exe=None, with_model=True):
    exe = exe or harness(ctx)
    cases, meta, groups = make_ls_cases(ctx, nprob)
    impl, crashes = run_cases(exe, cases)
    model = run_cases(ctx.driver("drv_ls"), cases)[0] if with_model else None
    answers = {}
    judge = XJudge(corr, "ls_x")
    for i, (c, (pi, p, S, alg, entry)) in enumerate(zip(cases, meta)):
        nontrivial = len(S) < p["n"] or not p["unit_cov"]
        corr.case(key=("ls " + " ".join(c)) if nontrivial else None,
                  sample={"ops": c, "impl": impl[i]} if i in (1, 9) else None)
        corr.count(f"ls_alg_{alg}_{entry}")
        corr.count("ls_family_" + p["family"])
        corr.count("ls_correlated" if not p["unit_cov"] else "ls_unit_cov")
        corr.count("ls_proper_subset" if len(S) < p["n"] else "ls_all_unknowns")
        corr.count(f"ls_defect_{min(p['defect'], 3)}")
        if p["defect"] >= 3:
            corr.count(f"ls_cases_defect_exactly_{p['defect']}")
            if len(S) < p["n"]:
                corr.count("ls_cases_defect_ge3_proper_subset")
        site = f"{alg}/{entry}"
        if i in crashes:
            corr.fail("solver crashed / sanitizer report", {"stream": "ls", "ops": c}, site, crashes[i][1])
            continue
        if model is not None:
            nm, miss = False, []
            for k, (a, b) in enumerate(zip(impl[i], model[i])):
                if b == "not-modelled":
                    nm = True
                    continue
                if not lines_equal(a, b, rtol=1e-9, atol=1e-9):
                    miss.append(k)
            if miss:
                # only the x line misses the componentwise 1e-9 comparison: model or implementation wrong, or rounding on
                # an ill-conditioned problem?  decided against the EXACT solution (tools/lib/exact_verdict.py); never silently
                ok, why = judge.misses(p, S, impl[i], model[i], miss, x_at=(2,))
                if not ok:
                    corr.disagree("ls", c, impl[i], model[i], site + (": " + why if why else ""))
            elif len(impl[i]) != len(model[i]):
                corr.disagree("ls", c, impl[i], model[i], "length")
            corr.count("ls_not_modelled" if nm else "ls_modelled")
        ans = answer(impl[i])
        if isinstance(ans, str):
            corr.fail("admissible constraint set refused / no answer: " + ans, {"stream": "ls", "ops": c, "subset": S},
                      site, " | ".join(impl[i]))
            continue
        answers[i] = ans
        res = single_oracle(p, S, ans)
        bad, margin = res if isinstance(res, tuple) else (res, 0.0)
        corr.maxstat("ls_max_orth_margin", margin)
        if bad:
            corr.fail("; ".join(bad[:3]), {"stream": "ls", "ops": c, "subset": S}, site, " | ".join(impl[i]))
    npairs = 0
    dense_cache = {}
    for (pi, alg, entry), idx in sorted(groups.items()):
        for i, j in itertools.combinations(idx, 2):
            if i not in answers or j not in answers:
                continue
            p = meta[i][1]
            if pi not in dense_cache:
                dense_cache[pi] = g.dense(p)
            bad, dev = pair_oracle(p, dense_cache[pi], answers[i], answers[j])
            npairs += 1
            corr.maxstat("ls_max_pair_dev", dev)
            if bad:
                corr.fail("; ".join(bad[:3]), {"stream": "ls", "ops": cases[i], "ops2": cases[j],
                                               "subset": meta[i][2], "subset2": meta[j][2]},
                          f"{alg}/{entry}", " | ".join(impl[i]) + "  ||  " + " | ".join(impl[j]))
    corr.count("ls_pairs_checked", npairs)
    judge.finish(len(cases))
    for k, need in (("ls_cases_defect_exactly_3", 60), ("ls_cases_defect_exactly_4", 60), ("ls_cases_defect_ge3_proper_subset", 120)):
        if with_model and corr.stats.get(k, 0) < need:
            corr.inconclusive.append(f"ls case mix: {k} = {corr.stats.get(k, 0)} < {need}")
    return npairs


# =========================================================================== network level

FAMILIES = ["lev", "2d-dd", "3d", "2d-dist", "2d-dir", "2d-ang", "2d-dd", "lev", "3d"]


def make_net(rng, fam):
    """(net, ids, minimum number of constrained points, expected defect)"""
    if fam == "lev":
        n = rng.randint(3, 8)
        net = gn.levelling_network(rng, npts=n, extra=rng.randint(1, 4), noise=1.0, free=True)
        return net, list(net["points"]), 1, 1
    if fam == "3d":
        n = rng.randint(4, 6)
        net = gn.make_network(rng, npts=n, dim=3, kinds=("direction", "s-distance", "z-angle"), density=0.8,
                              noise=1.0, free=True)
        return net, list(net["points"]), 2, 4
    kinds, dens, defect = {"2d-dd": (("direction", "distance"), 0.6, 3), "2d-dist": (("distance",), 0.95, 3),
                           "2d-dir": (("direction",), 0.9, 4), "2d-ang": (("angle", "distance"), 0.8, 3)}[fam]
    n = rng.randint(4, 7)
    net = gn.make_network(rng, npts=n, dim=2, kinds=kinds, density=dens, noise=1.0, free=True)
    return net, list(net["points"]), 2, defect


def with_constraints(net, cons):
    out = {"dim": net["dim"], "obs": net["obs"], "params": net["params"], "points": {}}
    for pid, p in net["points"].items():
        q = dict(p)
        q["status"] = "con" if pid in cons else "adj"
        out["points"][pid] = q
    return out


def two_constraint_sets(rng, ids, kmin):
    while True:
        a = sorted(rng.sample(ids, rng.randint(kmin, len(ids))))
        b = sorted(rng.sample(ids, rng.randint(kmin, len(ids))))
        if a != b:
            return a, b


def run_gama(exe, tmp, tag, gkf, alg, iterations=None):
    """iterations=0: one linear adjustment at the given approximate coordinates (what the theorems are about);
    None: gama-local's default refinement of the linearisation"""
    base = os.path.join(tmp, tag)
    with open(base + ".gkf", "w") as f:
        f.write(gkf)
    extra = [] if iterations is None else ["--iterations", str(iterations)]
    rc, err = -8, "could not execute gama-local"
    for attempt in range(30):
        try:
            pr = subprocess.run([str(exe), base + ".gkf", "--algorithm", alg, "--xml", base + ".xml", "--text", os.devnull] + extra,
                                capture_output=True, text=True, errors="replace", timeout=120)
            rc, err = pr.returncode, (pr.stderr or "")[-600:]
            break
        except subprocess.TimeoutExpired:
            rc, err = -9, "timeout"
            break
        except OSError as e:          # executable being (re)linked by a concurrent build of the same tree
            err = f"could not execute gama-local: {e}"
            time.sleep(1.0)
    res = None
    if os.path.exists(base + ".xml"):
        with open(base + ".xml", errors="replace") as f:
            txt = f.read()
        res = gn.parse_result_xml(txt)
        res["approx"] = {}
        m = re.search(r"<approximate>(.*?)</approximate>", txt, re.S)
        if m:
            for pm in re.finditer(r"<point>\s*<id>(.*?)</id>(.*?)</point>", m.group(1), re.S):
                res["approx"][pm.group(1).strip()] = {k.lower(): float(v) for k, v in
                                                      re.findall(r"<([xyzXYZ])>\s*([^<\s]+)\s*</\1>", pm.group(2))}
        res["has_error"] = "<error" in txt
        me = re.search(r"<error[^>]*>(.*?)</error>", txt, re.S)
        res["error_text"] = " / ".join(x.strip() for x in re.findall(r"<description>(.*?)</description>", me.group(1), re.S)) if me else ""
    return rc, err, res


ANGULAR = ("direction", "angle", "zenith-angle", "azimuth")


def angdiff(a, b):
    d = (a - b) % 400.0
    return min(d, 400.0 - d)


def coords_of(res, pid):
    return res["adjusted"].get(pid) or res["fixed"].get(pid)


def net_compare(net, fam, runs, converged=False):
    """runs: list of (label, cons, res).  returns (list of violation strings, stats dict).
    converged=False: runs made with --iterations 0 (single linear adjustment; everything must be invariant);
    converged=True: default iteration of the linearisation: only dof/defect and the geometry of the adjusted
    coordinates are compared (1e-6 relative), residual-level quantities are recorded, not judged."""
    bad, st = [], {}
    dist_tol = 1e-6 if converged else 1e-7
    ref_label, _, ref = runs[0]
    ids = list(net["points"])
    for label, cons, r in runs[1:]:
        who = f"{label} vs {ref_label}"
        for k, rt, at in (("sum_of_squares", 1e-6, 1e-9), ("dof", 0, 0), ("defect", 0, 0), ("m0_apost", 1e-6, 1e-9)):
            a, b = ref.get(k), r.get(k)
            if a is None or b is None:
                if a != b:
                    bad.append(f"{who}: {k} missing in one output")
                continue
            if abs(a - b) > at + rt * abs(a) and not (converged and k in ("sum_of_squares", "m0_apost")):
                bad.append(f"{who}: {k} {b!r} != {a!r}")
            if k == "sum_of_squares":
                st["pvv_rel"] = max(st.get("pvv_rel", 0.0), abs(a - b) / (abs(a) + 1e-300) if a else 0.0)
        if len(ref["obs"]) != len(r["obs"]):
            bad.append(f"{who}: number of adjusted observations {len(r['obs'])} != {len(ref['obs'])}")
            continue
        for o1, o2 in ([] if converged else zip(ref["obs"], r["obs"])):
            if (o1["t"], o1.get("from"), o1.get("to")) != (o2["t"], o2.get("from"), o2.get("to")):
                bad.append(f"{who}: observation lists differ")
                break
            if "adj" in o1 and "adj" in o2:
                d = angdiff(o1["adj"], o2["adj"]) if o1["t"] in ANGULAR else abs(o1["adj"] - o2["adj"])
                st["adj_obs"] = max(st.get("adj_obs", 0.0), d)
                if d > 1e-8:
                    bad.append(f"{who}: adjusted {o1['t']} {o1.get('from')}->{o1.get('to')} differs by {d:.3g} "
                               f"(residual not invariant)")
            if "stdev" in o1 and "stdev" in o2:
                d = abs(o1["stdev"] - o2["stdev"])
                st["adj_stdev_rel"] = max(st.get("adj_stdev_rel", 0.0), d / (abs(o1["stdev"]) + 1e-12))
                if d > 1e-9 + 1e-6 * abs(o1["stdev"]):
                    bad.append(f"{who}: stdev of adjusted {o1['t']} {o1.get('from')}->{o1.get('to')} "
                               f"{o2['stdev']!r} != {o1['stdev']!r}")
        # inter-point distances / height differences of adjusted coordinates
        keys = ("x", "y", "z") if net["dim"] == 3 else ("x", "y")
        pairs, missing = [], False
        for a, b in itertools.combinations(ids, 2):
            pa, pb, qa, qb = coords_of(ref, a), coords_of(ref, b), coords_of(r, a), coords_of(r, b)
            if not (pa and pb and qa and qb):
                bad.append(f"{who}: adjusted point missing ({a} or {b})")
                missing = True
                continue
            if fam == "lev":
                pairs.append((a, b, pb["z"] - pa["z"], qb["z"] - qa["z"]))
            else:
                pairs.append((a, b, math.sqrt(sum((pb[k] - pa[k]) ** 2 for k in keys)),
                              math.sqrt(sum((qb[k] - qa[k]) ** 2 for k in keys))))
        if missing or not pairs:
            continue
        # no distance observed: the scale belongs to the datum, only the shape (distance ratios) is invariant
        scale = (sum(d1 for _, _, d1, _ in pairs) / sum(d2 for _, _, _, d2 in pairs)) if fam == "2d-dir" else 1.0
        for a, b, d1, d2 in pairs:
            if fam == "lev":
                dev = abs(d1 - d2)
                st["dh_abs"] = max(st.get("dh_abs", 0.0), dev)
                if dev > (1e-7 if converged else 1e-9):
                    bad.append(f"{who}: adjusted height difference {a}->{b} differs by {dev:.3g} m")
            else:
                dev = abs(d1 - d2 * scale) / d1
                st["dist_rel"] = max(st.get("dist_rel", 0.0), dev)
                if dev > dist_tol:
                    bad.append(f"{who}: distance {a}-{b} of adjusted coordinates differs by {dev:.3g} relative"
                               + (" (after removing the common scale)" if fam == "2d-dir" else ""))
        # round 11 (clause 6, Props/C08Invariants.lean): ANGLES between adjusted points (at a, from b to c) agree between
        # the two datum choices to first order.  The program reports X0 + x; two datum solutions differ by a datum
        # transformation of size D (largest coordinate difference between the two outputs), so an angle with shortest
        # leg d may differ at second order, (D/d)^2 rad, plus the printed precision of the coordinates (as for distances).
        if fam != "lev" and not missing:
            D = max(max(abs(coords_of(r, p)[k] - coords_of(ref, p)[k]) for k in ("x", "y")) for p in ids)
            st["shape_D"] = max(st.get("shape_D", 0.0), D)
            triples = [(a, b, c) for a in ids for b, c in itertools.combinations([p for p in ids if p != a], 2)]
            if len(triples) > 120:
                triples = triples[:: max(1, len(triples) // 120)]
            for a, b, c in triples:
                def ang(res):
                    pa, pb, pc = coords_of(res, a), coords_of(res, b), coords_of(res, c)
                    return (math.atan2(pc["y"] - pa["y"], pc["x"] - pa["x"])
                            - math.atan2(pb["y"] - pa["y"], pb["x"] - pa["x"]))
                pa, pb, pc = coords_of(ref, a), coords_of(ref, b), coords_of(ref, c)
                dmin = min(math.hypot(pb["x"] - pa["x"], pb["y"] - pa["y"]), math.hypot(pc["x"] - pa["x"], pc["y"] - pa["y"]))
                if dmin < 1e-3:
                    continue
                dev = abs((ang(ref) - ang(r) + math.pi) % (2 * math.pi) - math.pi)
                tol = 4.0 * (D / dmin) ** 2 + (2e-6 if converged else 2e-7)
                st["n_adj_shape_angles"] = st.get("n_adj_shape_angles", 0) + 1
                st["angle_rad"] = max(st.get("angle_rad", 0.0), dev)
                st["angle_dev_over_tol"] = max(st.get("angle_dev_over_tol", 0.0), dev / tol)
                st["angle_second_order_allowance"] = max(st.get("angle_second_order_allowance", 0.0), 4.0 * (D / dmin) ** 2)
                if dev > tol:
                    bad.append(f"{who}: angle at {a} from {b} to {c} between adjusted points differs by {dev:.3g} rad "
                               f"(first-order allowance {tol:.3g}: datum difference {D:.3g} m, shortest leg {dmin:.3g} m)")
            st["n_adj_shape_distances"] = st.get("n_adj_shape_distances", 0) + len(pairs)
    # corrections of constrained coordinates orthogonal to the datum transformations
    for label, cons, r in ([] if converged else runs):
        ap = r.get("approx", {})
        same = all(pid in ap and all(abs(ap[pid].get(k, 0.0) - net["points"][pid].get(k, 0.0)) < 2e-6
                                     for k in ("x", "y", "z") if k in net["points"][pid]) for pid in ids)
        if not same:
            st["iterated"] = st.get("iterated", 0) + 1
            continue                       # linearisation point moved (iteration): corrections not observable
        cor = {}
        for pid in cons:
            q = coords_of(r, pid)
            if q is None:
                continue
            cor[pid] = {k: q[k] - float(gn.fmt(net["points"][pid][k])) for k in ("x", "y", "z") if k in net["points"][pid]}
        size = max([abs(v) for c in cor.values() for v in c.values()] + [0.0])
        checks = []
        if fam == "lev" or net["dim"] == 3:
            checks.append(("translation z", [c["z"] for c in cor.values()]))
        if fam != "lev":
            checks.append(("translation x", [c["x"] for c in cor.values()]))
            checks.append(("translation y", [c["y"] for c in cor.values()]))
            cx = sum(net["points"][p]["x"] for p in cor) / max(1, len(cor))
            cy = sum(net["points"][p]["y"] for p in cor) / max(1, len(cor))
            checks.append(("rotation", [t for p, c in cor.items() for t in
                                        (-(net["points"][p]["y"] - cy) * c["x"], (net["points"][p]["x"] - cx) * c["y"])]))
            if fam == "2d-dir":
                checks.append(("scale", [t for p, c in cor.items() for t in
                                         ((net["points"][p]["x"] - cx) * c["x"], (net["points"][p]["y"] - cy) * c["y"])]))
        for name, terms in checks:
            s, sa = sum(terms), sum(abs(t) for t in terms)
            rel = abs(s) / (sa + 1e-300) if sa > 1e-12 else 0.0
            st["orth_rel"] = max(st.get("orth_rel", 0.0), rel if sa > 1e-7 else 0.0)
            if abs(s) > 1e-5 * sa + 1e-9 * max(1.0, sa / max(size, 1e-12)) * 1e-3:
                bad.append(f"{label}: corrections of the constrained coordinates not orthogonal to the datum "
                           f"{name}: sum = {s:.3g} (terms up to {max(abs(t) for t in terms):.3g})")
    return bad, st


def plant_outlier(rng, net):
    """a gross error (7 m / 3 gon; tol-abs is 1 m) in one distance / height difference / angle — preferably the FIRST
    observation of a cluster, which is the first to refer to its points: gama-local removes it
    (remove_huge_abs_terms), project_equations() runs a second time and numbers the unknowns differently"""
    cands = [(ci, ii) for ci, c in enumerate(net["obs"]) for ii, it in enumerate(c["items"])
             if c["kind"] == "hdiffs" or (c["kind"] == "obs" and it["t"] in OUTLIER_STEP)]
    deg = {}

    def ends(c, it):
        return [e for e in (c.get("from"), it.get("from"), it.get("to"), it.get("bs"), it.get("fs")) if e is not None]

    for c in net["obs"]:
        for it in c["items"]:
            for e in set(ends(c, it)):
                deg[e] = deg.get(e, 0) + 1
    # every end point keeps at least two other observations (a point that loses its only observation drops out of
    # the adjustment and is printed with its approximate coordinates: not comparable between two datum choices)
    cands = [(ci, ii) for ci, ii in cands if all(deg[e] >= 3 for e in ends(net["obs"][ci], net["obs"][ci]["items"][ii]))]
    # ... and the network must stay CONNECTED without the observation (a removed bridge of a levelling line splits a
    # free network into a part with and a part without constrained points: not adjustable, by the property's own
    # premise "constraint set that resolves the defect")

    def connected_without(skip):
        adj = {}
        for ci, c in enumerate(net["obs"]):
            for ii, it in enumerate(c["items"]):
                if (ci, ii) == skip:
                    continue
                es = list(set(ends(c, it)))
                for a in es:
                    adj.setdefault(a, set()).update(es)
        nodes = set(deg)
        if not nodes:
            return True
        seen, todo = set(), [next(iter(nodes))]
        while todo:
            v = todo.pop()
            if v in seen:
                continue
            seen.add(v)
            todo += [w for w in adj.get(v, ()) if w not in seen]
        return seen == nodes

    cands = [x for x in cands if connected_without(x)]
    if not cands:
        return None
    first = [x for x in cands if x[1] == 0]
    ci, ii = rng.choice(first) if first and rng.random() < 0.7 else rng.choice(cands)
    it = net["obs"][ci]["items"][ii]
    it["val"] += 7.0 if net["obs"][ci]["kind"] == "hdiffs" else OUTLIER_STEP[it["t"]]
    return (ci, ii)


def make_net_cases(ctx, n):
    out = []
    for k in range(n):
        fam = FAMILIES[k % len(FAMILIES)]
        net, ids, kmin, defect = make_net(ctx.rng, fam)
        outlier = plant_outlier(ctx.rng, net) if k % 3 == 1 else None
        c1, c2 = two_constraint_sets(ctx.rng, ids, kmin)
        out.append({"fam": fam, "net": net, "sets": [c1, c2], "defect": defect, "outlier": outlier})
    return out


def net_adjusted(rc, res):
    return rc == 0 and res is not None and res.get("sum_of_squares") is not None and not res.get("has_error")


def solver_defects(ctx, gkf):
    """the root cause of F22 made observable: the four solvers' OWN defect counts on the project equations of the file.
    The real LocalNetwork (harness/pe_net.cpp: parse, revision, project_equations()) gives rows, right-hand side,
    variances and min_x_; the rows are homogenised here by sigma-apr/stdev (diagonal clusters only, else None) and
    handed to harness/adj_harness.cpp: {"env": d, "chol": d, "gso": d, "svd": d} (None where a solver did not answer)"""
    from gen import pe_stream
    m = re.search(r'sigma-apr="([^"]+)"', gkf)
    m0 = float(m.group(1)) if m else 10.0
    with tempfile.TemporaryDirectory(prefix="c08-f22-") as tmp:
        path = os.path.join(tmp, "probe.gkf")
        with open(path, "w") as f:
            f.write(gkf)
        out, crashes = run_cases(pe_stream.pe_harness(ctx), [[f"load {path} env", "pass"]])
    if crashes or not out:
        return None
    rows, rhs, var, minx, dims = [], [], [], None, None
    for l in out[0]:
        t = l.split()
        if t[:2] == ["R", "n"]:
            dims = (int(t[2]), int(t[3]))
        elif t[:2] == ["R", "row"]:
            rhs.append(hex2float(t[2]))
            rows.append([(int(t[4 + 2 * k]), hex2float(t[5 + 2 * k])) for k in range(int(t[3]))])
        elif t[:2] == ["R", "cov"]:
            if int(t[3]) != 0:
                return None
            var += [hex2float(v) for v in t[4:4 + int(t[2])]]
        elif t[:2] == ["R", "minx"]:
            minx = [int(v) for v in t[3:]]
    if not dims or len(rows) != dims[0] or len(var) != dims[0] or any(v <= 0 for v in var):
        return None
    w = [m0 / math.sqrt(v) for v in var]
    prob = [f"problem {dims[0]} {dims[1]}"]
    for r, wi in zip(rows, w):
        prob.append("row %d %s" % (len(r), " ".join(f"{c} {float2hex(v * wi)}" for c, v in r)))
    prob.append(f"cov {dims[0]} 0 " + " ".join(float2hex(1.0) for _ in rows))
    prob.append("rhs " + " ".join(float2hex(b * wi) for b, wi in zip(rhs, w)))
    prob.append(("minx %d %s" % (len(minx), " ".join(map(str, minx)))) if minx else "minx none")
    prob.append("end")
    impl, _ = run_cases(harness(ctx), [prob + [f"new {a} solver", "defect"] for a in ALGS])
    return {a: (int(o[2].split()[1]) if len(o) > 2 and o[2].startswith("int ") else None) for a, o in zip(ALGS, impl)}


def net_others(results, ci, si, it, alg):
    """what the OTHER algorithms made of the same input file (same iteration mode when it was run, else the single
    linear adjustment): recorded with a failed run so that the failure carries its own signature"""
    out = {}
    for a2 in NET_ALGS:
        key = next((k for k in ((ci, si, a2, it), (ci, si, a2, 0)) if k in results), None)
        if a2 == alg or key is None:
            continue
        rc2, err2, res2 = results[key][1]
        res2 = res2 or {}
        out[a2] = {"iterations": key[3], "adjusted": net_adjusted(rc2, res2 or None), "defect": res2.get("defect"),
                   "dof": res2.get("dof"), "sum_of_squares": res2.get("sum_of_squares"), "error": res2.get("error_text", "")}
    return out


def net_stream(ctx, corr, n, gama_dir=None):
    gama_dir = gama_dir or ctx.build_gama(sanitize=False, targets=("gama-local",))
    exe = Path(gama_dir) / "gama-local"
    cases = make_net_cases(ctx, n)
    jobs = []
    for ci, c in enumerate(cases):
        for si, cons in enumerate(c["sets"]):
            gkf = gn.to_gkf(with_constraints(c["net"], cons), description=f"C08 {c['fam']} set{si + 1}")
            for alg in NET_ALGS:
                jobs.append((ci, si, alg, 0, gkf))
                if alg in ("envelope", "gso"):
                    jobs.append((ci, si, alg, None, gkf))
    results = {}
    with tempfile.TemporaryDirectory(prefix="c08-") as tmp:
        with concurrent.futures.ThreadPoolExecutor(max_workers=16) as ex:
            futs = {ex.submit(run_gama, exe, tmp, f"n{ci}_s{si}_{alg}_{it}", gkf, alg, it): (ci, si, alg, it, gkf)
                    for ci, si, alg, it, gkf in jobs}
            for fu in concurrent.futures.as_completed(futs):
                results[futs[fu][:4]] = (futs[fu][4], fu.result())
    checked = 0
    f22_nets, probes = set(), {}
    for ci, c in enumerate(cases):
        for it in (0, None):
            runs, texts, skip = [], {}, None
            for si, cons in enumerate(c["sets"]):
                for alg in NET_ALGS:
                    if (ci, si, alg, it) not in results:
                        continue
                    gkf, (rc, err, res) = results[(ci, si, alg, it)]
                    label = f"set{si + 1}={','.join(cons)}/{alg}" + ("" if it == 0 else "/iterated")
                    texts[label] = gkf
                    corr.case(key=("net " + sha(gkf) + alg + str(it)),
                              sample={"family": c["fam"], "sets": c["sets"]} if ci == 0 and alg == "envelope" and it == 0 else None)
                    corr.count("net_family_" + c["fam"])
                    if not net_adjusted(rc, res):
                        payload = {"stream": "net", "family": c["fam"], "gkf": gkf, "alg": alg, "iterations": it,
                                   "error": (res or {}).get("error_text", ""), "expected_defect": c["defect"],
                                   "others": net_others(results, ci, si, it, alg)}
                        if alg == "envelope" and payload["error"].endswith("No unknowns have been defined"):
                            if gkf not in probes:
                                try:
                                    probes[gkf] = solver_defects(ctx, gkf)
                                except BuildError:
                                    probes[gkf] = None
                            payload["solver_defect"] = probes[gkf]
                        corr.fail(f"gama-local did not adjust a free network with an admissible constraint set ({label}): rc={rc}",
                                  payload, "LocalNetwork", err)
                        if classify(ctx, corr.failures[-1]) == "F22":
                            # the envelope run is lost to the known finding; the property is still checked on the
                            # runs of the other algorithms (both constraint sets)
                            corr.count("net_envelope_runs_lost_to_F22")
                            f22_nets.add(ci)
                        else:
                            skip = "failed"
                        continue
                    if res.get("defect") is not None and res["defect"] < c["defect"]:
                        # round 11 (C08_datum_generators_in_kernel): no coordinate is fixed and every observation class of
                        # the family is invariant under the family's datum transformations, so the kernel of the design
                        # matrix contains their span and the defect cannot be smaller than its dimension
                        corr.count("net_defect_below_datum")
                        corr.fail(f"free network ({c['fam']}, no fixed coordinate): gama-local reports defect {res['defect']} "
                                  f"< {c['defect']} = number of datum transformations the observation classes are invariant "
                                  f"under - the design matrix does not annihilate the datum generators ({label})",
                                  {"stream": "net-defect", "family": c["fam"], "gkf": gkf, "alg": alg, "iterations": it,
                                   "expected_defect": c["defect"], "defect": res["defect"]},
                                  "LocalLinearization (rows) / LocalNetwork::project_equations", "")
                    if res.get("defect") != c["defect"]:
                        skip = skip or f"defect {res.get('defect')} (expected {c['defect']})"
                    runs.append((label, si, cons, res))
            if skip or len(runs) < 2:
                corr.count("net_skipped_" + ("failed" if skip == "failed" else "other_defect"))
                continue
            if it == 0:
                checked += 1
                if c.get("outlier"):
                    nobs = sum(len(o["items"]) for o in c["net"]["obs"])
                    if all(len(r["obs"]) == nobs - 1 for _, _, _, r in runs):
                        corr.count("net_outlier_removed_networks")
                    else:
                        corr.count("net_outlier_not_removed")
            bad, st = net_compare(c["net"], c["fam"], [(l, cons, r) for l, _, cons, r in runs], converged=(it is None))
            for k, v in st.items():
                if k == "iterated":
                    corr.count("net_runs_iterated", v)
                elif k.startswith("n_"):
                    corr.count(("net_" if it == 0 else "net_iterated_") + k[2:], v)
                else:
                    corr.maxstat(("net_max_" if it == 0 else "net_iterated_max_") + k, v)
            if bad:
                first2 = next(l for l, si, _, _ in runs if si == 1)
                corr.fail("; ".join(bad[:3]), {"stream": "net", "family": c["fam"], "sets": c["sets"], "iterations": it,
                                               "gkf1": texts[runs[0][0]], "gkf2": texts[first2],
                                               "violations": bad[:12]},
                          "LocalNetwork::project_equations / AdjBase::min_x", "\n".join(bad[:12]))
    corr.count("net_networks_checked", checked)
    corr.count("net_networks_with_F22", len(f22_nets))
    # F22 is rare on the unchanged tree (1 of 2000 generated networks at thorough size, none in quick seeds 1-5); a tree on
    # which envelope refuses many free networks with that signature has a different problem, which must not hide
    # behind the known finding
    if len(f22_nets) > max(1, len(cases) // 250):
        corr.fail(f"--algorithm envelope refuses {len(f22_nets)} of {len(cases)} generated free networks that cholesky, gso "
                  f"and svd adjust ('No unknowns have been defined'): far above the rate of known finding F22",
                  {"stream": "net-rate", "networks": sorted(f22_nets)[:20],
                   "gkf": next(f.replay["gkf"] for f in corr.failures if isinstance(f.replay, dict) and f.replay.get("gkf"))},
                  "Envelope::cholDec", "")
    return checked, len(cases)


# =========================================================================== construction of min_x_ (Model/MinX.lean)

MINX_FAMS = ["lev", "2d-dd", "2d-dist", "2d-ang", "3d", "2d-iso", "3d-vec", "2d-dd"]
OUTLIER_STEP = {"distance": 7.0, "s-distance": 7.0, "angle": 3.0, "z-angle": 3.0}
KIND_NAME = {"direction": "Direction", "distance": "Distance", "angle": "Angle", "s-distance": "S_Distance",
             "z-angle": "Z_Angle", "azimuth": "Azimuth"}


def minx_harness(ctx):
    for attempt in range(3):
        try:
            d = ctx.build_gama(sanitize=True)
            break
        except BuildError as e:
            if attempt == 2 or "No such file or directory" not in e.log:
                raise
            time.sleep(3 + 5 * attempt)
    objs = sorted(str(p) for p in (d / "CMakeFiles" / "libgama.dir").rglob("*.o"))
    if not objs:
        raise BuildError("c08_minx", "no libgama objects under " + str(d))
    return ctx.build_cpp("c08_minx", [ctx.verif / "harness" / "c08_minx.cpp"], libs=objs + ["-lexpat"],
                         includes=[ctx.verif / "harness"])


def make_minx_net(rng, fam):
    """a network with mixed statuses (fixed / adjusted / constrained) and, possibly, one planted gross error;
    returns (net, planted) with planted = (kind name, from id, to id, fs id or None) or None"""
    if fam == "lev":
        net = gn.levelling_network(rng, npts=rng.randint(3, 7), extra=rng.randint(1, 4), noise=0.5, free=True)
    elif fam in ("3d", "3d-vec"):
        kinds = ("direction", "s-distance", "z-angle") + (("vector", "dh") if fam == "3d-vec" else ())
        net = gn.make_network(rng, npts=rng.randint(3, 5), dim=3, kinds=kinds, density=0.7, noise=0.5, free=True)
    else:
        kinds = {"2d-dd": ("direction", "distance"), "2d-dist": ("distance",), "2d-ang": ("angle", "distance"),
                 "2d-iso": ("direction", "distance")}[fam]
        net = gn.make_network(rng, npts=rng.randint(3, 6), dim=2, kinds=kinds, density=0.6, noise=0.5, free=True)
    for pid, p in net["points"].items():
        p["status"] = rng.choice(["fix", "adj", "con", "con", "con"])
    if fam == "2d-iso":       # a point no observation refers to: singular_coords removes it, project_equations recurses
        net["points"]["ZZ" + str(rng.randint(1, 9))] = {"x": 5000.0, "y": 5000.0, "status": rng.choice(["adj", "con"]), "approx": True}
    planted = None
    cands = []
    for ci, c in enumerate(net["obs"]):
        for ii, it in enumerate(c["items"]):
            if c["kind"] == "obs" and it["t"] in OUTLIER_STEP:
                cands.append((ci, ii))
            elif c["kind"] == "hdiffs":
                cands.append((ci, ii))
    if cands and rng.random() < 0.8:
        first = [x for x in cands if x[1] == 0]
        ci, ii = rng.choice(first) if first and rng.random() < 0.6 else rng.choice(cands)
        c, it = net["obs"][ci], net["obs"][ci]["items"][ii]
        if c["kind"] == "hdiffs":
            it["val"] += 7.0
            planted = ("H_Diff", it["from"], it["to"], None)
        else:
            it["val"] += OUTLIER_STEP[it["t"]]
            planted = (KIND_NAME[it["t"]], c["from"], it.get("to", it.get("bs")), it.get("fs"))
    return net, planted


def parse_dump(lines):
    pts, obs, head = [], [], []
    for l in lines:
        t = l.split()
        if t and t[0] == "pt":
            pts.append((t[1], t[2]))
        elif t and t[0] == "ob":
            obs.append((t[1], t[2], int(t[3]), int(t[4]), int(t[5]), int(t[6])))
    return pts, obs


XY_KINDS = ("Direction", "Distance", "Angle", "S_Distance", "Azimuth", "Xdiff", "Ydiff", "X", "Y")


def minx_sim(st, obs, flags):
    """generator-side prediction of one project_equations() call (structure only): returns (statuses, safe);
    safe = for no adjusted xy point the NUMERIC half of singular_coords (1 - |cos(column x, column y)| < 1e-12,
    which the model takes as a parameter) may fire: the point is not left with observations to exactly one other
    point, and the rows it takes part in have at least two different gradient directions with respect to its own
    xy (thorough run 3: a point that was only the TARGET of two angles measured at one station has both rows
    perpendicular to the same ray — parallel columns, removed by the numeric test although it has three neighbours)"""
    st = [list(x) for x in st]

    def act(k):
        a, kd, sp, pf, pt, pfs = obs[k]
        if not flags[k]:
            return False
        ends = [pf] if kd in ("X", "Y", "Z") else [pf, pt] + ([pfs] if kd == "Angle" else [])
        if kd in ("H_Diff", "Zdiff", "Z", "Z_Angle"):
            return all(st[e][1] != "u" for e in ends)
        if kd == "S_Distance":
            return all(st[e][0] != "u" and st[e][1] != "u" for e in ends)
        return all(st[e][0] != "u" for e in ends)

    for _ in range(len(st) + 1):
        on = [k for k in range(len(obs)) if act(k)]
        for sp in set(obs[k][2] for k in on if obs[k][1] == "Direction"):
            ds = [k for k in on if obs[k][1] == "Direction" and obs[k][2] == sp]
            if len(set(obs[k][4] for k in ds)) < 2:
                on = [k for k in on if k not in ds]
        nb = {p: set() for p in range(len(st))}
        grad = {p: set() for p in range(len(st))}     # gradient directions of the point's rows w.r.t. its own (x, y)
        for k in on:
            a, kd, sp, pf, pt, pfs = obs[k]
            if kd in XY_KINDS or kd == "Z_Angle":
                ends = [pf] if kd in ("X", "Y") else [pf, pt] + ([pfs] if kd == "Angle" else [])
                for e in ends:
                    nb[e] |= set(x for x in ends if x != e) or {-1}
            if kd in ("Distance", "S_Distance", "Z_Angle"):          # along the ray to the other end
                grad[pf].add(("along", pt))
                grad[pt].add(("along", pf))
            elif kd in ("Direction", "Azimuth"):                     # perpendicular to the ray to the other end
                grad[pf].add(("perp", pt))
                grad[pt].add(("perp", pf))
            elif kd == "Angle":                                      # targets: perpendicular to the ray to the station
                grad[pf].add(("angle", frozenset((pt, pfs))))
                grad[pt].add(("perp", pf))
                grad[pfs].add(("perp", pf))
        removed = False
        for p in range(len(st)):
            if st[p][0] in ("a", "c"):
                if len(nb[p]) == 1 or any(obs[k][1] in ("X", "Y", "Xdiff", "Ydiff") for k in on if p in obs[k][3:5]):
                    return st, False
                if nb[p] and len(grad[p]) < 2:
                    return st, False
                if not nb[p]:
                    st[p][0] = "u"
                    removed = True
        if not removed:
            return st, True
    return st, False


def minx_script(rng, pts, obs, planted):
    """ops after `load`; every event is followed by `pass`; events that could make the numeric test of
    singular_coords fire (minx_sim) are not generated"""
    ops = ["dump", "pass"]
    pos = {pid: k for k, (pid, _) in enumerate(pts)}
    st = [list(s2) for _, s2 in pts]
    flags = [a == "1" for a, *_ in obs]
    st, safe = minx_sim(st, obs, flags)
    if not safe:
        return ops

    def attempt(new_st, new_flags, lines):
        nonlocal st, flags, ops
        st2, ok = minx_sim(new_st, obs, new_flags)
        if ok:
            st, flags = st2, new_flags
            ops += lines + ["pass"]
        return ok

    if planted:
        kind, f, t, fs = planted
        match = [k for k, (a, kd, sp, pf, pt, pfs) in enumerate(obs)
                 if kd == kind and pf == pos.get(f) and pt == pos.get(t) and (fs is None or pfs == pos.get(fs))]
        if len(match) == 1:                  # (a repeated observation cannot be told apart in the dump: no outlier op)
            nf = list(flags)
            nf[match[0]] = False
            if not attempt(st, nf, [f"outlier {match[0]}"]):
                return ops
    for _ in range(rng.randint(1, 4)):
        live = [k for k in range(len(obs)) if flags[k]]
        r = rng.random()
        if r < 0.4 and live:
            k = rng.choice(live[:3] if rng.random() < 0.5 else live)
            nf = list(flags)
            nf[k] = False
            attempt(st, nf, [f"rm_obs {k}"])
        elif r < 0.6 and live:                  # every observation of one point: the point loses its indexes
            p = rng.randrange(len(pts))
            ks = [k for k in live if p in (obs[k][3], obs[k][4]) or (obs[k][1] == "Angle" and obs[k][5] == p)]
            nf = list(flags)
            for k in ks:
                nf[k] = False
            attempt(st, nf, [f"rm_obs {k}" for k in ks])
        elif r < 0.85:
            p = rng.randrange(len(pts))
            g = "z" if st[p][0] == "u" or rng.random() < 0.2 else "xy"
            ns = [list(x) for x in st]
            ns[p][0 if g == "xy" else 1] = "u"
            attempt(ns, flags, [f"rm_pt {p} {g}"])
        else:
            ops += ["relin", "pass"]
    return ops


def minx_pass_oracle(out):
    """on the implementation's own output of one `pass`: min_x_ must be the indexes the numbering of THIS pass
    gives to the constrained coordinates (y, x per point, then z), min_n_ its length, entries distinct in 1..n"""
    head = out[0].split()
    if head[0] != "out":
        return None, None
    n, minn = int(head[1]), int(head[2])
    lst = [int(v) for v in head[4:]]
    idx, st = {}, []
    for l in out[1:]:
        t = l.split()
        if t[0] == "idx":
            idx[int(t[1])] = (int(t[2]), int(t[3]), int(t[4]))
        elif t[0] == "st":
            st = t[1:]
    want = []
    for p, s2 in enumerate(st):
        ix, iy, iz = idx.get(p, (0, 0, 0))
        if s2[0] == "c" and ix:
            want += [iy, ix]
        if s2[1] == "c" and iz:
            want += [iz]
    bad = []
    if lst != want:
        bad.append(f"min_x_ = {lst} but the constrained coordinates have indexes {want} in the numbering of this pass")
    if minn != len(lst):
        bad.append(f"min_n_ = {minn} but the list has {len(lst)} entries")
    if any(not (1 <= i <= n) for i in lst) or len(set(lst)) != len(lst):
        bad.append(f"min_x_ = {lst} is not a list of distinct indexes in 1..{n}")
    return bad, (tuple(lst), tuple(sorted(idx.items())))


def split_passes(ops, out):
    """output lines of each op (harness and driver print the same number of lines per op)"""
    res, i = [], 0
    for op in ops:
        if op.startswith("pass") or op == "dump":
            j = i + 1
            first = ("out",) if op == "pass" else ("sp",)
            while j < len(out) and out[j].split()[0] in ("idx", "ori", "st", "rm", "act", "pt", "ob") and not (
                    op == "dump" and out[j].split()[0] in ("idx", "ori", "st", "rm", "act")):
                j += 1
            res.append(out[i:j])
            i = j
        else:
            res.append(out[i:i + 1])
            i += 1
    return res


def minx_stream(ctx, corr, n):
    exe = minx_harness(ctx)
    nets = []
    with tempfile.TemporaryDirectory(prefix="c08-minx-") as tmp:
        for k in range(n):
            fam = MINX_FAMS[k % len(MINX_FAMS)]
            net, planted = make_minx_net(ctx.rng, fam)
            path = os.path.join(tmp, f"m{k}.gkf")
            with open(path, "w") as f:
                f.write(gn.to_gkf(net, description=f"C08 minx {fam}"))
            nets.append((fam, net, planted, path))
        corpus = sorted((ctx.verif / "corpus" / "C08").glob("minx-*.gkf")) if (ctx.verif / "corpus" / "C08").exists() else []
        for cp in corpus:
            nets.append(("corpus", None, None, str(cp)))
        dumps, crashes0 = run_cases(exe, [[f"load {path}", "dump"] for _, _, _, path in nets])
        cases = []
        for (fam, net, planted, path), d in zip(nets, dumps):
            pts, obs = parse_dump(d)
            ops = [f"load {path}"] + minx_script(ctx.rng, pts, obs, planted)
            desc = [l for l in d if l.split()[0] in ("sp", "pt", "ob")]
            cases.append((desc, ops))
        impl, crashes = run_cases(exe, [desc + ops for desc, ops in cases])
        model, _ = run_cases(ctx.driver("drv_minx"), [desc + ops for desc, ops in cases])
        renumbered = 0
        for i, ((fam, net, planted, path), (desc, ops)) in enumerate(zip(nets, cases)):
            gkf = open(path).read()
            nontrivial = any(l.split()[2][0] == "c" or l.split()[2][1] == "c" for l in desc if l.startswith("pt "))
            corr.case(key=("minx " + sha(gkf) + " ".join(ops[1:])) if nontrivial else None,
                      sample={"family": fam, "ops": ops[1:], "impl": impl[i][-8:]} if i in (1, 5) else None)
            corr.count("minx_family_" + fam)
            payload = {"stream": "minx", "family": fam, "gkf": gkf, "desc": desc, "ops": ops[1:]}
            if i in crashes:
                corr.fail("LocalNetwork crashed / sanitizer report", payload, "LocalNetwork::project_equations", crashes[i][1])
                continue
            if impl[i] != model[i]:
                corr.disagree("minx", desc + ops, impl[i], model[i], "LocalNetwork::project_equations")
            per = split_passes(ops, impl[i])
            prev = None
            for op, out in zip(ops, per):
                if op.startswith("outlier") and out and not out[0].startswith("ok"):
                    corr.count("minx_outlier_not_as_planted")
                if op != "pass" or not out:
                    continue
                corr.count("minx_passes")
                bad, sig = minx_pass_oracle(out)
                if bad is None:
                    corr.count("minx_pass_threw")
                    continue
                if bad:
                    corr.fail("; ".join(bad), payload, "LocalNetwork::project_equations (min_x_)", " | ".join(out[:12]))
                if prev is not None and sig[0] and len(prev[0]) == len(sig[0]) and prev[0] != sig[0]:
                    renumbered += 1
                if any(l.startswith("rm ") and len(l.split()) > 1 for l in out):
                    corr.count("minx_singular_recursion")
                prev = sig
        corr.count("minx_renumbered_same_length", renumbered)
    return len(cases), renumbered


# =========================================================================== SVD::min_subset_x, defect 2..4

def gen_defect_problem(rng, d):
    """dense problem with exactly d planted dependent columns (defect d), unit covariance"""
    nind = rng.randint(1, 3)
    n = nind + d
    m = rng.randint(n, n + 3)
    while True:
        B = [[F(rng.choice([-3, -2, -1, 0, 0, 1, 2, 3])) for _ in range(nind)] for _ in range(m)]
        if g.rank(B) == nind:
            break
    cols = [[B[i][j] for i in range(m)] for j in range(nind)]
    for _ in range(d):
        coef = [F(rng.choice([-2, -1, 0, 1, 1, 2])) for _ in range(len(cols))]
        if all(c == 0 for c in coef):
            coef[0] = F(1)
        cols.insert(rng.randint(0, len(cols)), [sum(c * col[i] for c, col in zip(coef, cols)) for i in range(m)])
    rows = [[(j + 1, cols[j][i]) for j in range(n) if cols[j][i] != 0] for i in range(m)]
    p = {"m": m, "n": n, "rows": rows, "family": f"defect{d}", "cov": g.gen_cov(rng, m, False),
         "rhs": [F(rng.randint(-8, 8), rng.choice([1, 2, 4])) for _ in range(m)]}
    p["kernel"] = g.kernel(g.dense(p), n)
    p["defect"] = len(p["kernel"])
    p["unit_cov"] = True
    return p


def svdsub_stream(ctx, corr, nprob):
    """the svd solver with regularisation subsets on problems of defect 2..4: proper subsets of size exactly =
    defect (resolving: must be ACCEPTED with x_S orthogonal to the exact kernel; not resolving: refused), of size
    defect - 1 (refused by the count) and larger ones; model (drv_ls) <-> implementation on every line"""
    exe = harness(ctx)
    cases, meta = [], []
    for k in range(nprob):
        d = 2 + k % 3
        p = gen_defect_problem(ctx.rng, d)
        if p["defect"] != d:
            continue
        n = p["n"]
        subs, seen = [], set()
        for size, cnt in ((d, 5), (d - 1, 1), (d + 1, 2), (min(n, d + 2), 1)):
            for _ in range(cnt):
                S = tuple(sorted(ctx.rng.sample(range(1, n + 1), min(n, size))))
                if S not in seen:
                    seen.add(S)
                    subs.append(list(S))
        for S in subs:
            cases.append(g.problem_lines(p, S) + ["new svd solver", "x", "r", "rtr", "defect"])
            meta.append((p, S, g.resolves(p, S)))
    impl, crashes = run_cases(exe, cases)
    model = run_cases(ctx.driver("drv_ls"), cases)[0]
    for i, (c, (p, S, res)) in enumerate(zip(cases, meta)):
        corr.case(key="svdsub " + " ".join(c), sample={"ops": c, "impl": impl[i]} if i in (0, 7) else None)
        tag = ("eq" if len(S) == p["defect"] else "lt" if len(S) < p["defect"] else "gt")
        corr.count(f"svdsub_size_{tag}_defect_{'resolving' if res else 'not_resolving'}")
        corr.count(f"svdsub_defect_{p['defect']}")
        payload = {"stream": "ls", "ops": c, "subset": S}
        if i in crashes:
            corr.fail("solver crashed / sanitizer report", payload, "svd/solver", crashes[i][1])
            continue
        # after a refused unknowns() the history-free model keeps refusing while the object goes on answering
        # defect() (`decomposed` stays set; histories are C04's business): compare up to the first throw
        cut = next((k + 1 for k, a in enumerate(impl[i]) if a.startswith("throw")), len(impl[i]))
        same = len(impl[i]) == len(model[i]) and all(b == "not-modelled" or lines_equal(a, b, rtol=1e-9, atol=1e-9)
                                                      for a, b in zip(impl[i][:cut], model[i][:cut]))
        if not same:
            corr.disagree("svdsub", c, impl[i], model[i], "SVD::min_subset_x")
        xline = impl[i][2] if len(impl[i]) > 2 else ""
        if not res:
            if xline != "throw BadRegularization":
                corr.fail(f"svd: subset {S} does not resolve the defect {p['defect']} but unknowns() -> {xline[:60]}",
                          payload, "SVD::min_subset_x", " | ".join(impl[i]))
            continue
        ans = answer(impl[i])
        if isinstance(ans, str):
            corr.fail(f"svd: subset {S} (size {len(S)}, defect {p['defect']}) resolves the defect but is refused: " + ans,
                      payload, "SVD::min_subset_x", " | ".join(impl[i]))
            continue
        r2 = single_oracle(p, S, ans)
        bad, margin = r2 if isinstance(r2, tuple) else (r2, 0.0)
        corr.maxstat("svdsub_max_orth_margin", margin)
        if bad:
            corr.fail("; ".join(bad[:3]), payload, "SVD::min_subset_x", " | ".join(impl[i]))
    return len(cases)


# =========================================================================== pipeline hooks

def translate(ctx):
    # round 11: Props/C08Invariants.lean is about the rows of the REGENERATED linearisation (Gen/Linearization.lean):
    # make sure it is the current tree's (C05's translator, validated by C05's correspondence)
    from gen import c05_linearization as tr_lin
    tr_lin.translate(ctx.repo, ctx.lean)


def correspond(ctx, corr):
    npairs = ls_stream(ctx, corr, ctx.size(40, 3000))
    if npairs < 50:
        corr.inconclusive.append(f"only {npairs} pairs of admissible subsets compared")
    tot = corr.stats.get("ls_proper_subset", 0) + corr.stats.get("ls_all_unknowns", 0)
    if tot and corr.stats.get("ls_proper_subset", 0) < 0.4 * tot:
        corr.inconclusive.append("fewer than 40% proper regularisation subsets")
    nsub = svdsub_stream(ctx, corr, ctx.size(24, 900))
    if corr.stats.get("svdsub_size_eq_defect_resolving", 0) < 10 or corr.stats.get("svdsub_size_eq_defect_not_resolving", 0) < 3:
        corr.inconclusive.append("too few svd subsets of size exactly = defect (resolving / not resolving)")
    ncase, renumbered = minx_stream(ctx, corr, ctx.size(60, 1500))
    if renumbered < max(5, ncase // 10):
        corr.inconclusive.append(f"only {renumbered} passes in which the list changed while keeping its length")
    checked, total = net_stream(ctx, corr, ctx.size(36, 2000))
    if corr.stats.get("net_outlier_removed_networks", 0) < max(3, total // 12):
        corr.inconclusive.append("too few free networks in which an outlying observation was removed (project_equations twice)")
    if checked < 0.6 * total:
        corr.inconclusive.append(f"only {checked}/{total} generated networks had the expected datum defect")


def classify(ctx, failure):
    """F22 (recorded under C02/C20, root cause shared with C09-F2, C10-TINY, C19-envelope-defect-undercount):
    Envelope::cholDec decides the rank with the ABSOLUTE pivot tolerance sqrt(eps) and no pivoting; on a free
    trilateration network the rounding residue of a dependent pivot can stay above it, the defect is counted 2 instead
    of 3 (solver level: corpus/C08/f22-envelope-2d-dist-7pt.ops — env `defect` 2, chol/gso/svd 3), the cofactors
    explode and LocalNetwork strips every point.  Recognised by its own signature, nothing else is excused:
      * net stream, the failed run is --algorithm envelope, exit status 0, the XML carries the error
        'No unknowns have been defined';
      * the input is a free network (constrained coordinates, no fixed point);
      * cholesky, gso AND svd all adjusted the very same file, each with the expected datum defect and the same
        degrees of freedom, and with the same sum of squares wherever they ran in the same iteration mode;
      * the root cause itself is observed (solver_defects): on the project equations of that file the envelope
        solver counts a SMALLER defect than expected while chol, gso and svd count the expected one (an envelope run
        that ends the same way for another reason — mutant M1 of thorough run 3: x not regularised — is not F22)."""
    inp = failure.replay if isinstance(failure.replay, dict) else {}
    if inp.get("stream") != "net" or inp.get("alg") != "envelope" or not failure.what.endswith("rc=0") \
            or not failure.what.startswith("gama-local did not adjust a free network with an admissible constraint set") \
            or not (inp.get("error") or "").endswith("No unknowns have been defined"):
        return None
    gkf = inp.get("gkf", "")
    if not re.search(r'adj="[XYZ]+"', gkf) or re.search(r'fix="', gkf):
        return None
    sd, want = inp.get("solver_defect") or {}, inp.get("expected_defect")
    if sd.get("env") is None or want is None or not sd["env"] < want or any(sd.get(a) != want for a in ("chol", "gso", "svd")):
        return None
    others = inp.get("others") or {}
    if set(others) != {"cholesky", "gso", "svd"}:
        return None
    if not all(o.get("adjusted") and o.get("defect") == inp.get("expected_defect") and o.get("dof") is not None
               for o in others.values()):
        return None
    if len({o["dof"] for o in others.values()}) != 1:
        return None
    for a, b in itertools.combinations(others.values(), 2):
        if a["iterations"] == b["iterations"] and \
                abs(a["sum_of_squares"] - b["sum_of_squares"]) > 1e-9 + 1e-6 * abs(a["sum_of_squares"]):
            return None
    return "F22"


def search(ctx, broken, corr):
    big = Ctx(ctx.id, "thorough", ctx.seed + 1000)
    big.thorough = True
    c2 = Corr()
    ls_stream(big, c2, 300, with_model=False)
    if not c2.failures:
        net_stream(big, c2, 120)
    out = list(c2.failures)
    out.sort(key=lambda f: len(json.dumps(f.replay)))
    return out[:5]


def replay(ctx, payload):
    f = payload.get("failure")
    if not f:
        print(json.dumps(payload.get("no_longer_checks"), indent=1)[:3000])
        return 1
    inp = f["input"]
    if inp.get("stream") in ("net", "net-rate", "net-defect"):
        exe = Path(ctx.build_gama(sanitize=False, targets=("gama-local",))) / "gama-local"
        with tempfile.TemporaryDirectory(prefix="c08-") as tmp:
            for k in ("gkf", "gkf1", "gkf2"):
                if k in inp:
                    for alg in ([inp["alg"]] if "alg" in inp else NET_ALGS):
                        rc, err, res = run_gama(exe, tmp, k + alg, inp[k], alg, inp.get("iterations"))
                        print(k, alg, "rc", rc, "pvv", res and res.get("sum_of_squares"), "dof", res and res.get("dof"),
                              "adjusted", res and res.get("adjusted"))
        print("\n".join(inp.get("violations", [])))
        return 1
    exe = harness(ctx)
    ops = [inp["ops"]] + ([inp["ops2"]] if "ops2" in inp else [])
    impl, crashes = run_cases(exe, ops)
    for o, r in zip(ops, impl):
        print("\n".join(o))
        print("->", r)
    print(crashes)
    return 1
