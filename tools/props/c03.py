"""C03 — reported cofactors are the true (generalised) inverse."""
import glob
from fractions import Fraction as F
from lib.core import *
from lib import gen_ls as g
from props import c01

ID = "C03"
PROPS_FILES = sorted("Gama/Props/C03/" + Path(f).name for f in glob.glob(str(LEAN / "Gama/Props/C03/*.lean")))
LEAN_TARGETS = [f[:-5].replace("/", ".") for f in PROPS_FILES]
DRIVERS = ["drv_ls"]
RULE = ("problems (A,b,C,S) from tools/lib/gen_ls.py (small-integer dense with planted dependent columns; levelling "
        "incidence graphs incl. disconnected; unit / diagonal / banded SPD covariance blocks; regularisation subsets "
        "that resolve the defect, decided exactly) x {env,chol,gso,svd} x {solver,adj}; per case q_xx(i,j) for ALL "
        "1<=i,j<=n, q0_xx(i,j) for all pairs (solver entry), q_bb(i,j) for ALL 1<=i,j<=m (inside and outside the "
        "envelope); non-trivial = defect>0 or correlated covariance; distinct by problem text + subset + algorithm + entry")
LEVEL_TEXT = ("Lean 4 theorems about the executable solver models: the matrix Q of reported weight coefficients of the "
              "unknowns is symmetric with N Q N = N and Q N Q = Q for N = A'PA (Q = N^-1 when the defect is zero), "
              "q_bb = A Q A', which for the homogenised system is a symmetric projector with diagonal in [0,1] whose "
              "redundancy numbers 1 - q_bb(i,i) sum to the degrees of freedom — in exact arithmetic over an ordered "
              "field, for all sizes and ALL index pairs, under the property's hypothesis that every tested pivot is "
              "exactly 0 or at least the tolerance. Models tied to the C++ by differential correspondence on every "
              "index pair (Float with tolerance; exact rationals for the square-root-free regular envelope kernel) "
              "plus an exact rational oracle (reference generalised inverse) on the implementation's answers.")
LEVEL_NOTE = ("Theorems are about exact arithmetic; IEEE rounding is not proved. For the envelope solver both the regular case "
              "(Q = N^-1) and the singular case (Q = T Q0 T' with the S-projector of the configured regularisation; "
              "q_bb = A Q A' for every g-inverse, projector, diagonal in [0,1], redundancy sum m - n + defect) are proved, "
              "for every ordering, with the homogenisation factor W (W'W = P) taken as given (C10) and the packed "
              "envelope profile / sparse inverse inside the envelope replaced by its dense definition (C16). "
              "The XML covariance band is checked at network level by C12.")
TECHNIQUE = "Lean 4 proof (ordered-field algebra, induction over the factorisation loops) + model/implementation correspondence"
MODELLED = ["IEEE rounding (proofs over exact ordered fields)",
            "envelope profile storage (dense model; C16 proves packed = dense)"]
ASSUMPTIONS = ["rank numerically unambiguous: generator keeps exact small-integer/dyadic data so every pivot is 0 or O(1)"]

ALGS = ["env", "chol", "gso", "svd"]


def queries(p, entry):
    n, m = p["n"], p["m"]
    q = ["defect"]
    q += [f"qxx {i} {j}" for i in range(1, n + 1) for j in range(1, n + 1)]
    if entry == "solver":
        q += [f"q0xx {i} {j}" for i in range(1, n + 1) for j in range(1, n + 1)]
    q += [f"qbb {i} {j}" for i in range(1, m + 1) for j in range(1, m + 1)]
    return q


def make_cases(ctx, nprob):
    cases, meta = [], []
    for _ in range(nprob):
        p = g.gen_problem(ctx.rng)
        subs = [s for s in g.gen_subsets(ctx.rng, p, 2) if s[1]]
        for S, _ok in subs[:2]:
            for alg in ALGS:
                for entry in ("solver", "adj"):
                    if entry == "solver" and alg != "env" and not p["unit_cov"]:
                        continue
                    reg = "all" if (len(S) == p["n"] and ctx.rng.random() < 0.5) else S
                    cases.append(g.problem_lines(p, reg) + [f"new {alg} {entry}"] + queries(p, entry))
                    meta.append((p, S, alg, entry))
    return cases, meta


def val(line):
    t = line.split()
    return hex2float(t[1]) if len(t) == 2 and t[0] == "val" and is_hex(t[1]) else None


def mat(out, off, r, c):
    M = [[val(out[off + i * c + j]) for j in range(c)] for i in range(r)]
    if any(x is None for row in M for x in row):
        return None
    return M


def mmul(A, B):
    return [[sum(A[i][k] * B[k][j] for k in range(len(B))) for j in range(len(B[0]))] for i in range(len(A))]


def maxabs(M):
    return max([abs(x) for r in M for x in r] + [0.0])


def maxdiff(A, B):
    return max([abs(a - b) for ra, rb in zip(A, B) for a, b in zip(ra, rb)] + [0.0])


def oracle(p, S, alg, entry, out, ref):
    """the property evaluated on the implementation's answers against the exact rational reference"""
    n, m = p["n"], p["m"]
    bad = []
    if len(out) < 3 or out[0] != "ok" or out[1] != "ok":
        return ["harness protocol: " + " | ".join(out[:3])]
    if out[2] != f"int {p['defect']}":
        bad.append(f"defect reported '{out[2]}' but n - rank A = {p['defect']}")
    off = 3
    Q = mat(out, off, n, n)
    off += n * n
    Q0 = None
    if entry == "solver":
        Q0 = mat(out, off, n, n)
        off += n * n
    B = mat(out, off, m, m)
    if Q is None or B is None or (entry == "solver" and Q0 is None):
        kinds = sorted({l for l in out[3:] if not l.startswith("val ")})
        return bad + ["a cofactor query threw / returned nothing: " + " | ".join(kinds)[:200]]
    Qr = [[float(x) for x in r] for r in ref["Q"]]
    N = [[float(x) for x in r] for r in ref["N"]]
    sq, sn = 1.0 + maxabs(Qr), 1.0 + maxabs(N)
    d = maxdiff(Q, Qr)
    if d > 1e-8 * sq:
        bad.append(f"q_xx deviates from the exact reflexive g-inverse of N belonging to S by {d:.3g}")
    d = max([abs(Q[i][j] - Q[j][i]) for i in range(n) for j in range(n)] + [0.0])
    if d > 1e-9 * sq:
        bad.append(f"q_xx not symmetric: {d:.3g}")
    NQN = mmul(mmul(N, Q), N)
    d = maxdiff(NQN, N)
    if d > 1e-7 * sn * sn * sq:
        bad.append(f"N Q N - N = {d:.3g}")
    QNQ = mmul(mmul(Q, N), Q)
    d = maxdiff(QNQ, Q)
    if d > 1e-7 * sq * sq * sn:
        bad.append(f"Q N Q - Q = {d:.3g}")
    if Q0 is not None:
        d = max([abs(Q0[i][j] - Q0[j][i]) for i in range(n) for j in range(n)] + [0.0])
        if d > 1e-9 * (1 + maxabs(Q0)):
            bad.append(f"q0_xx not symmetric: {d:.3g}")
        if p["defect"] == 0 and maxdiff(Q0, Q) > 1e-9 * sq:
            bad.append(f"defect 0 but q0_xx != q_xx: {maxdiff(Q0, Q):.3g}")
        d = maxdiff(mmul(mmul(N, Q0), N), N)
        if d > 1e-7 * sn * sn * (1 + maxabs(Q0)):
            bad.append(f"N Q0 N - N = {d:.3g}")
    d = max([abs(B[i][j] - B[j][i]) for i in range(m) for j in range(m)] + [0.0])
    sb = 1.0 + maxabs(B)
    if d > 1e-9 * sb:
        bad.append(f"q_bb not symmetric: {d:.3g}")
    A = [[float(x) for x in r] for r in g.dense(p)]
    AQA = mmul(mmul(A, Qr), [list(r) for r in zip(*A)])
    homog = entry == "solver"          # solver-level q_bb refers to the homogenised system
    if (not homog) or p["unit_cov"]:
        d = maxdiff(B, AQA)
        if d > 1e-8 * (1 + maxabs(AQA)):
            bad.append(f"q_bb deviates from A Q A' by {d:.3g}")
    if homog or p["unit_cov"]:
        # projector of the homogenised system: idempotent, diagonal in [0,1], trace = rank
        d = maxdiff(mmul(B, B), B)
        if d > 1e-8 * sb:
            bad.append(f"q_bb (homogenised) not idempotent: {d:.3g}")
        lo = min([B[i][i] for i in range(m)] + [0.0])
        hi = max([B[i][i] for i in range(m)] + [0.0])
        if lo < -1e-9 or hi > 1 + 1e-9:
            bad.append(f"diag q_bb outside [0,1]: min {lo!r} max {hi!r}")
        red = sum(1.0 - B[i][i] for i in range(m))
        if abs(red - (m - n + p["defect"])) > 1e-7 * (1 + m):
            bad.append(f"sum of redundancy numbers {red!r} != m - n + defect = {m - n + p['defect']}")
    return bad


def correspond(ctx, corr):
    exe = c01.harness(ctx)
    cases, meta = make_cases(ctx, ctx.size(30, 600))
    impl, crashes = run_cases(exe, cases)
    model, _ = run_cases(ctx.driver("drv_ls"), cases)
    # exact stream: regular, unit covariance, envelope solver (square-root free)
    ratidx = [i for i, (p, S, alg, entry) in enumerate(meta)
              if alg == "env" and entry == "solver" and p["unit_cov"] and p["defect"] == 0]
    ratout, _ = run_cases(ctx.driver("drv_ls"), [cases[i] for i in ratidx], args=("rat",))
    refs = {}
    for i, (c, (p, S, alg, entry)) in enumerate(zip(cases, meta)):
        nontrivial = p["defect"] > 0 or not p["unit_cov"]
        corr.case(key=(" ".join(c)) if nontrivial else None,
                  sample={"ops": c[:c.index("end") + 3] + ["..."], "impl": impl[i][:6]} if i in (0, 5) else None)
        corr.count(f"alg_{alg}_{entry}")
        corr.count("singular" if p["defect"] else "regular")
        corr.count("correlated" if not p["unit_cov"] else "unit_cov")
        corr.count("family_" + p["family"])
        if i in crashes:
            corr.fail("solver crashed / sanitizer report", {"stream": "ls", "ops": c}, f"{alg}/{entry}", crashes[i][1])
            continue
        nm, pairs = False, 0
        for a, b in zip(impl[i], model[i]):
            if b == "not-modelled":
                nm = True
                continue
            pairs += 1
            if not lines_equal(a, b, rtol=1e-9, atol=1e-9):
                corr.disagree("ls", c, impl[i], model[i], f"{alg}/{entry}")
                break
            va, vb = val(a), val(b)
            if va is not None and vb is not None:
                corr.maxstat("max_dev_model_impl", abs(va - vb))
        else:
            if len(impl[i]) != len(model[i]):
                corr.disagree("ls", c, impl[i], model[i], "length")
        corr.count("not_modelled" if nm else "modelled")
        corr.count("answers_compared", pairs)
        key = (id(p), tuple(S))
        if key not in refs:
            refs[key] = g.reference(p, S)
        bad = oracle(p, S, alg, entry, impl[i], refs[key])
        if bad:
            corr.fail("; ".join(bad), {"stream": "ls", "ops": c, "subset": S}, f"{alg}/{entry}", " | ".join(impl[i][:8]))
    for k, i in enumerate(ratidx):
        corr.count("rat_cases")
        if i in crashes:
            continue
        for a, b in zip(impl[i], ratout[k]):
            if b == "not-modelled":
                continue
            corr.count("rat_answers_compared")
            if not lines_equal(a, b, rtol=1e-10, atol=1e-10):
                corr.disagree("ls-rat", cases[i], impl[i], ratout[k], "env/solver exact")
                break
    tot = corr.stats.get("singular", 0) + corr.stats.get("regular", 0)
    if tot and corr.stats.get("singular", 0) < 0.25 * tot:
        corr.inconclusive.append("fewer than 25% singular problems")
    if not corr.stats.get("rat_cases"):
        corr.inconclusive.append("no regular unit-covariance problem for the exact stream")


def search(ctx, broken, corr):
    big = Ctx(ctx.id, "thorough", ctx.seed + 1000)
    big.thorough = True
    exe = c01.harness(ctx)
    cases, meta = make_cases(big, 150)
    impl, crashes = run_cases(exe, cases)
    out, refs = [], {}
    for i, (c, (p, S, alg, entry)) in enumerate(zip(cases, meta)):
        if i in crashes:
            out.append(Failure("solver crashed / sanitizer report", {"stream": "ls", "ops": c}, f"{alg}/{entry}", crashes[i][1]))
            continue
        key = (id(p), tuple(S))
        if key not in refs:
            refs[key] = g.reference(p, S)
        bad = oracle(p, S, alg, entry, impl[i], refs[key])
        if bad:
            out.append(Failure("; ".join(bad), {"stream": "ls", "ops": c, "subset": S}, f"{alg}/{entry}", " | ".join(impl[i][:8])))
        if len(out) >= 5:
            break
    out.sort(key=lambda f: len(" ".join(f.replay["ops"])))
    return out


def replay(ctx, payload):
    f = payload.get("failure")
    if not f:
        print(json.dumps(payload.get("no_longer_checks"), indent=1)[:3000])
        return 1
    exe = c01.harness(ctx)
    impl, crashes = run_cases(exe, [f["input"]["ops"]])
    print("\n".join(f["input"]["ops"]))
    print("->", impl[0], crashes)
    return 1


# per-run SVD factorisation certificate (tools/props/svd_cert.py): the one place where a numeric check
# stands in for a missing universal theorem (convergence/accuracy of the Golub-Reinsch iteration)
from props import svd_cert  # noqa: E402
_correspond_without_cert = correspond


def correspond(ctx, corr):  # noqa: F811
    _correspond_without_cert(ctx, corr)
    svd_cert.check_certificates(ctx, corr)
