"""C03 — reported cofactors are the true (generalised) inverse."""
import concurrent.futures
import glob
from fractions import Fraction as F
from lib.core import *
from lib import gen_ls as g
from props import c01

ID = "C03"
PROPS_FILES = sorted("Gama/Props/C03/" + Path(f).name for f in glob.glob(str(LEAN / "Gama/Props/C03/*.lean")))
LEAN_TARGETS = [f[:-5].replace("/", ".") for f in PROPS_FILES]
DRIVERS = ["drv_ls"]
RULE = ("problems (A,b,C,S) from tools/lib/gen_ls.py (small-integer dense with planted dependent columns; levelling "
        "incidence graphs incl. disconnected; unit / diagonal / banded SPD covariance blocks; regularisation subsets "
        "that resolve the defect, decided exactly) x {env,chol,gso,svd} x {solver,adj}; per case q_xx(i,j) for ALL "
        "1<=i,j<=n, q0_xx(i,j) for all pairs (solver entry), q_bb(i,j) for ALL 1<=i,j<=m (inside and outside the "
        "envelope); every third resolving case is asked of a REUSED object (first life on another problem of the same "
        "or another size or under another configuration/algorithm, random repeated-row cofactor queries, then "
        "reset/min_x/set_algorithm to the case's problem, the latest queries again next to a brand-new object, then all "
        "entries); non-trivial = defect>0 or correlated covariance; distinct by problem text + subset + algorithm + entry")
LEVEL_TEXT = ("Lean 4 theorems about the executable solver models: the matrix Q of reported weight coefficients of the "
              "unknowns is symmetric with N Q N = N and Q N Q = Q for N = A'PA (Q = N^-1 when the defect is zero), "
              "q_bb = A Q A', which for the homogenised system is a symmetric projector with diagonal in [0,1] whose "
              "redundancy numbers 1 - q_bb(i,i) sum to the degrees of freedom — in exact arithmetic over an ordered "
              "field, for all sizes and ALL index pairs, under the property's hypothesis that every tested pivot is "
              "exactly 0 or at least the tolerance. Models tied to the C++ by differential correspondence on every "
              "index pair (Float with tolerance; exact rationals for the square-root-free regular envelope kernel) "
              "plus an exact rational oracle (reference generalised inverse) on the implementation's answers. Rounds 6-9: every "
              "third resolving case is asked of a REUSED object (earlier problem of the same or another size, min_x / "
              "set_algorithm changes, repeated row queries; harness/c03_history.cpp) and Props/C03/History.lean proves, as "
              "corollaries of C04's state machines, that the cofactors after ANY history are those of a fresh object on the "
              "current problem (C03_cofactors_history_independent, _full, _svd, _adj, C03_envelope_cache_invariant; "
              "C03_history_cofactors_are_ginverse: one g-inverse of the current N, envelope only); through both facades the "
              "solver premise is ONE input-side hypothesis InputGap on (A, P, S) for all four algorithms "
              "(C03_net_cofactors_gap, C03_adj_cofactors_gap), applied over R to a correlated network "
              "(C03_net_cofactors_witness); the XML covariance matrix is tied to the executed models (C03_net_xml_cov).")
LEVEL_NOTE = ("Theorems are about exact arithmetic; IEEE rounding is not proved. For the envelope solver both the regular case "
              "(Q = N^-1) and the singular case (Q = T Q0 T' with the S-projector of the configured regularisation; "
              "q_bb = A Q A' for every g-inverse, projector, diagonal in [0,1], redundancy sum m - n + defect) are proved "
              "about envSolve, the function the driver runs: the homogenisation factor W (W'W = P, injective, At = W A) is "
              "PROVED for the model of Homogenization::run (C01_envsolve_homogenize), the ordering is the model's own RCM "
              "(C01_envsolve_ordering), and the sparse inverse inside the envelope equals the full dense "
              "L^-T D^+ L^-1 for ALL index pairs incl. outside the profile (C03_env_sparse_inverse_eq_full, _ldl, _solver; "
              "the packed profile storage = the dense entries inside the profile is C16_envelope_refines_ls_dense). Also "
              "proved: Q positive semi-definite and belonging to the regularisation for all four solvers, and the same "
              "statements through both facades (Adj: C03_adj_cofactors; LocalNetwork: C03_net_cofactors, q_bb = hat matrix of "
              "the ONE homogenised system for all four algorithms, C03_net_homogenisations_agree). svd: no factorisation "
              "certificate any more (Props/C03/SvdDecompose.lean: for the factors Svd.decompose returns, with unambiguous "
              "singular values; C03_svd_solve_decompose about svdSolve). Hypotheses that stay: per solver model each "
              "algorithm's 'every tested quantity is exactly 0 or above its tolerance' on its own trace; through Adj and "
              "LocalNetwork this follows from the one input-side hypothesis InputGap alg A P S tau (thresholds + RankGap for "
              "envelope/cholesky/gso, SingGap for svd: Props/C03/InputGap.lean; the definitions of SolverHyp are unchanged); "
              "convergence of the svd QR iteration (= Svd.decompose returns), IEEE rounding; the absolute tolerances of the "
              "real kernels under extreme weights are known findings (F22, C09-F2, C10-TINY; all status known). History "
              "theorems: hypotheses are C04's (valid history, the configured list resolves every system handed over); the "
              "composition with the g-inverse theorem exists for the envelope only. XML covariance band at network level: "
              "C03_net_xml_cov (Props/C03/XmlCov.lean) - for (np,u) returned by the model of project_equations(), the answer a "
              "of netSolve and the value of m_0(), the number streamed at (i,j) of <cov-mat> by the REGENERATED covariance site "
              "is m0^2 * a.qxx(ind[i],ind[j]), written on the clipped band and read back, ind = <original-index> from the points "
              "and orientations of u (no free Q, m0, points; C03_xml_cov_is_m0sq_Q of Props/C12.lean is the form with free "
              "Q); composed with the g-inverse theorem in C03_net_xml_cov_ginverse, with no range hypothesis on ind[]: "
              "1 <= ind[i] <= n for every position is C03_net_xml_ind_range (index_y() != 0 from singular_coords having "
              "returned false in the last inner call; a fixed point has index_x() == 0). Clause 'all index pairs' for the packed envelope: "
              "C16_envsolve_packed (full: hypotheses square-root law, RowsOK, HoldsProblem; well-formedness of Hom.run's sparse "
              "output and the ordering computed from it are conclusions) identifies envSolve's factor with the packed envelope of "
              "Homogenization::run's output and the packed inverse with the dense recursion INSIDE the profile; outside the "
              "profile the separate C03_env_sparse_inverse_eq_full_ldl, not chained into one statement. "
              "Comparison: cofactors entrywise at rtol = atol = 1e-9; entries that miss it on a matrix of large dynamic range are "
              "judged normwise against the exact rational Q (exact_q_verdict, capped at 0.1 % of the cases, see TRUSTED).")
TECHNIQUE = "Lean 4 proof (ordered-field algebra, induction over the factorisation loops) + model/implementation correspondence"
MODELLED = ["IEEE rounding (proofs over exact ordered fields)",
            "envelope profile storage (drv_ls runs the dense zEntry recursion; C03_env_sparse_inverse_eq_full proves it equals "
            "the full inverse for all index pairs, C16_envelope_refines_ls_dense proves the packed profile = these entries)",
            "SVD::svd: convergence of the QR iteration (= Svd.decompose returns) and negligibility under rounding; the "
            "factorisation it returns is proved (Svd.decompose_cert)"]
ASSUMPTIONS = ["rank numerically unambiguous: generator keeps exact small-integer/dyadic data so every pivot is 0 or O(1)"]
TRUSTED = ["tools/lib/gen_ls.py exact rational reference (generalised inverse, kernel, 'resolves' decision): the property oracle, and "
           "the judge of exact_q_verdict (this file; the cofactor analogue of tools/lib/exact_verdict.py): a q_xx entry (q0_xx at "
           "defect 0) that misses the entrywise 1e-9 comparison is accepted only if tol = min(eps*kappa, 1e-7)*(1 + max|Q|), "
           "kappa = |N|_inf |Q|_inf exact, exceeds what the comparator asked at that entry AND both whole matrices are within tol of "
           "the exact Q; at most 60 per run, INCONCLUSIVE above max(12, 0.1 %) of the cases; misses in defect, q_bb, q0_xx of a "
           "singular system stay disagreements",
           "harness/c03_history.cpp (adj_harness.cpp + reset_new / select / fresh: several problems per case on one object)",
           "hand valuation covEnv of Lemmas/C03XmlCov.lean (accessor atoms net.m_0(), net.qxx(ind[i],ind[j]) of the regenerated "
           "covariance site -> NetAnswer.m0, NetAnswer.qxx) used by C03_net_xml_cov",
           "corpus/C03/*.json (two thorough-run-3 cases) appended to every run"]

ALGS = ["env", "chol", "gso", "svd"]
# quick-tier minimum of the case mix (cases = problem x subset x algorithm x entry); not met -> inconclusive
CASE_MIN = {"cases_defect_3": 80, "cases_defect_4": 60, "cases_defect_ge3_proper_resolving": 100,
            "cases_defect_ge3_proper_not_resolving": 40, "chol_gs_cases_swapped": 15, "chol_gs_cases_offid": 6}


def queries(p, entry):
    n, m = p["n"], p["m"]
    q = ["defect"]
    q += [f"qxx {i} {j}" for i in range(1, n + 1) for j in range(1, n + 1)]
    if entry == "solver":
        q += [f"q0xx {i} {j}" for i in range(1, n + 1) for j in range(1, n + 1)]
    q += [f"qbb {i} {j}" for i in range(1, m + 1) for j in range(1, m + 1)]
    return q


def quota(nprob, thorough=False):
    """guaranteed problems on top of the historical mix: free-network Jacobians (defect 3 and 4, every kind) and
    two-part problems, each with PROPER regularisation subsets"""
    return {"free": max(12, nprob // 4), "parts": max(4, nprob // 8)} if thorough else {"free": 12, "parts": 4}


def make_cases(ctx, nprob, quota_=None):
    """meta = (p, S, alg, entry, ok); ok = False: S does not resolve the defect (every cofactor of the unknowns
    must be refused; asked of brand-new objects, `fresh`, so that no history is involved)"""
    cases, meta = [], []
    quota_ = quota(nprob, ctx.thorough) if quota_ is None else quota_
    probs = []
    for _ in range(nprob):
        p = g.gen_problem(ctx.rng)
        probs.append((p, [s for s in g.gen_subsets(ctx.rng, p, 2) if s[1]][:2]))
    for k in range(quota_.get("free", 0)):
        p = g.gen_problem(ctx.rng, family="free-" + g.FREE_KINDS[k % len(g.FREE_KINDS)], correlated=(k % 3 == 2))
        probs.append((p, g.gen_proper_subsets(ctx.rng, p, 3, 1) + ([(list(range(1, p["n"] + 1)), True)] if k % 2 else [])))
    for k in range(quota_.get("parts", 0)):
        p = g.gen_problem(ctx.rng, family="parts", correlated=(k % 3 == 2))
        probs.append((p, g.gen_proper_subsets(ctx.rng, p, 2, 1)))
    for p, subs in probs:
        for S, ok in subs:
            for alg in ALGS:
                for entry in ("solver", "adj"):
                    if entry == "solver" and alg != "env" and not p["unit_cov"]:
                        continue
                    reg = "all" if (len(S) == p["n"] and ctx.rng.random() < 0.5) else S
                    qs = queries(p, entry)
                    if not ok:
                        qs = ["fresh " + q for q in qs if not q.startswith("qbb") or q.split()[1] == q.split()[2]]
                    cases.append(g.problem_lines(p, reg) + [f"new {alg} {entry}"] + qs)
                    meta.append((p, S, alg, entry, ok))
    return cases, meta


# ---------------------------------------------------------------------------------- histories (round 6)
# Every HIST_EVERY-th resolving case is asked of a REUSED object (harness/c03_history.cpp): the object first holds
# another problem (same dimensions, or other ones) or another configuration, answers a random subset of cofactor
# queries (rows repeated), is then reset / re-configured to the case's problem and asked ALL entries.  The model side
# (drv_ls) and the exact reference get the case's problem ALONE (the unchanged fresh case): Props/C03/History.lean
# proves that the cofactors after any history are those of a fresh object.
HIST_EVERY = 3
HIST_KINDS = ("same", "same", "other", "none")      # reset to same dimensions | other dimensions | no new input
SILENT = ("problem", "row", "cov", "rhs", "minx")   # definition lines: no output


def hist_harness(ctx):
    return ctx.build_cpp("c03_history", [ctx.verif / "harness" / "c03_history.cpp"] + [ctx.repo / s for s in c01.SRC],
                         includes=[ctx.verif / "harness"])


def _finish(q):
    q["kernel"] = g.kernel(g.dense(q), q["n"])
    q["defect"] = len(q["kernel"])
    q["unit_cov"] = all(b["width"] == 0 and all(x == 1 for x in b["v"]) for b in q["cov"])
    return q


def same_shape_variant(rng, p, unit):
    """ANOTHER problem with the same m x n (the first problem a reused object holds): rows shuffled, other covariance
    and right-hand side; half of them keep the unknowns' numbering and rescale whole rows (same null space, same
    sparsity pattern of N: the keys of the envelope's row cache coincide and the same regularisation list is valid),
    the others renumber the unknowns and rescale single coefficients (defect and ordering may change)"""
    n, m = p["n"], p["m"]
    rows = [list(r) for r in p["rows"]]
    rng.shuffle(rows)
    perm = list(range(1, n + 1))
    if rng.random() < 0.5:
        rows = [[(c, v * f) for c, v in r] for r in rows for f in [rng.choice([1, 2, -1, 3, F(1, 2)])]]
    else:
        rng.shuffle(perm)
        rows = [[(perm[c - 1], v * rng.choice([1, 1, 2, -1, 3])) for c, v in r] for r in rows]
    q = {"m": m, "n": n, "rows": rows, "family": p["family"],
         "cov": [{"dim": m, "width": 0, "v": [F(1)] * m}] if unit else g.gen_cov(rng, m, True),
         "rhs": [F(rng.randint(-8, 8), rng.choice([1, 2, 4])) for _ in range(m)]}
    return _finish(q)


def other_problem(rng, unit):
    while True:
        q = g.gen_problem(rng, rng.choice(["levelling", "dense"]), correlated=(not unit and rng.random() < 0.5))
        if q["n"] >= 2:
            break
    if unit:
        q["cov"] = [{"dim": q["m"], "width": 0, "v": [F(1)] * q["m"]}]
        _finish(q)
    return q


def _valid_for(p, S):
    if S is None or S == "all":
        return True
    return all(1 <= i <= p["n"] for i in S) and (p["defect"] == 0 or g.resolves(p, S))


def _minx_op(reg):
    return "min_x_all" if reg == "all" else "min_x %d %s" % (len(reg), " ".join(map(str, reg)))


def _resolving(rng, p, k=3):
    return [S for S, ok in g.gen_subsets(rng, p, k) if ok]


def cof_queries(rng, p, entry, k):
    """k cofactor queries on few rows (the same row again and again: what the per-row caches key on), any column,
    every fifth the previous query verbatim"""
    n, m = p["n"], p["m"]
    xr = [rng.randint(1, n) for _ in range(rng.randint(1, 3))]
    br = [rng.randint(1, m) for _ in range(rng.randint(1, 2))]
    kinds = ["qxx", "qxx", "qbb", "qbb"] + (["q0xx", "qbx"] if entry == "solver" else [])
    out = []
    for _ in range(k):
        if out and rng.random() < 0.2:
            out.append(out[-1])
            continue
        t = rng.choice(kinds)
        if t in ("qxx", "q0xx"):
            out.append(f"{t} {rng.choice(xr)} {rng.randint(1, n)}")
        elif t == "qbb":
            out.append(f"qbb {rng.choice(br)} {rng.randint(1, m)}")
        else:
            out.append(f"qbx {rng.choice(br)} {rng.randint(1, n)}")
    return out


def _fits(q, p):
    t = q.split()
    i, j = int(t[1]), int(t[2])
    lim = {"qxx": (p["n"], p["n"]), "q0xx": (p["n"], p["n"]), "qbb": (p["m"], p["m"]), "qbx": (p["m"], p["n"])}[t[0]]
    return i <= lim[0] and j <= lim[1]


def case_reg(case):
    t = next(l for l in case if l.startswith("minx ")).split()
    return "all" if t[1] == "all" else None if t[1] == "none" else [int(x) for x in t[2:2 + int(t[1])]]


def make_history(rng, case, p, alg, entry, kind):
    """the ops of the reused object that ends in `case`'s problem / configuration / algorithm and then asks the case's
    queries; returns (ops, warm, info): `warm` = number of (query, fresh query) pairs right before the final sweep"""
    reg = case_reg(case)
    sweep = case[case.index("end") + 2:]
    unit = entry == "solver" and alg != "env"
    info = {"kind": kind, "minx": 0, "setalg": 0, "pre": 0}
    if kind == "same":
        p1 = same_shape_variant(rng, p, unit or rng.random() < 0.4)
    elif kind == "other":
        p1 = other_problem(rng, unit)
        if (p1["m"], p1["n"]) == (p["m"], p["n"]):
            info["kind"] = kind = "same"
    else:
        p1 = p
    subs1 = _resolving(rng, p1)
    cfg1 = reg if (_valid_for(p1, reg) and (kind == "none" and entry == "adj" or rng.random() < 0.85)) else rng.choice(subs1 + ["all"])
    ops = (g.problem_lines(p, reg) + g.problem_lines(p1, cfg1)) if kind != "none" else g.problem_lines(p, cfg1 if entry == "solver" else reg)
    pre = cof_queries(rng, p1, entry, rng.randint(3, 8))
    # the last query before the change is a q_bb or a q_xx on a row asked before (the envelope keeps rows of q_xx, so
    # there it is more often the q_xx; its q_bb walks q0_xx columns and recycles the three row buffers)
    if rng.random() < {"env": 0.2, "chol": 0.8}.get(alg if entry == "solver" else "", 0.5):
        pre.append(f"qbb {rng.randint(1, p1['m'])} {rng.randint(1, p1['m'])}")
    else:
        xs = [q.split()[1] for q in pre if q.startswith("qxx")] or [str(rng.randint(1, p1["n"]))]
        pre.append(f"qxx {rng.choice(xs)} {rng.randint(1, p1['n'])}")
    info["pre"] = len(pre)
    if entry == "solver":
        ops.append(f"new {alg} solver")
        if len(subs1) > 1 and rng.random() < 0.3:             # a min_x change in the first life
            k = rng.randint(1, len(pre) - 1)
            S1b = rng.choice(subs1)
            pre = pre[:k] + [_minx_op(S1b), _minx_op(cfg1) if rng.random() < 0.5 else "x"] + pre[k:]
            if not pre[k + 1].startswith("min_x"):
                cfg1 = S1b
            info["minx"] += 1
        ops += pre
        change = []
        if kind != "none":
            change.append("reset_new 1")
        elif rng.random() < 0.5 or cfg1 == reg:
            change.append("reset")
        if cfg1 != reg or rng.random() < 0.1:
            # before the new input only if the list is one for the system the object still holds (SVD::min_x(list)
            # re-regularises at once; indices beyond its size are the caller's error, outside the property)
            change.insert(rng.randint(0, len(change)) if _valid_for(p1, reg) else len(change), _minx_op(reg))
            info["minx"] += 1
        ops += change
        alt = [S for S in _resolving(rng, p) if S != reg and p["defect"] > 0]
        if alt and rng.random() < 0.2:                       # min_x change after queries on the final problem
            ops += [_minx_op(rng.choice(alt))] + [q for q in cof_queries(rng, p, entry, 3) if q.startswith("qxx")] + [_minx_op(reg)]
            info["minx"] += 2
    else:
        cur = rng.choice(ALGS)
        ops.append(f"new {cur} adj")
        pre = [q for q in pre if q.startswith(("qxx", "qbb"))]
        info["pre"] = len(pre)
        if rng.random() < 0.4:                                # set_algorithm in the first life
            k = rng.randint(0, len(pre))
            cur = rng.choice(ALGS)
            pre = pre[:k] + [f"set_alg {cur}"] + pre[k:]
            info["setalg"] += 1
        ops += pre
        before = cur != alg and rng.random() < 0.4
        if before:
            ops.append(f"set_alg {alg}")
            cur = alg
            info["setalg"] += 1
        if kind != "none":
            ops.append("reset_new 1")
        elif rng.random() < 0.5:
            ops.append("reset")
        if cur != alg or rng.random() < 0.4:                  # set_algorithm after queries on the final problem
            if cur == alg:
                cur = rng.choice([a for a in ALGS if a != alg])
                ops.append(f"set_alg {cur}")
                info["setalg"] += 1
            ops += [q for q in cof_queries(rng, p, entry, 3) if q.startswith(("qxx", "qbb"))] + [f"set_alg {alg}"]
            info["setalg"] += 1
    # the most recent cofactor queries again, most recent first (whatever was cached for them is now stale), each
    # followed by the same query on a brand-new object
    warm = []
    for q in reversed([q for q in pre if q.split()[0] in ("qxx", "q0xx", "qbb", "qbx") and _fits(q, p)]):
        if q not in warm:
            warm.append(q)
        if len(warm) == 3:
            break
    for q in warm:
        ops += [q, "fresh " + q]
    return ops + sweep, len(warm), info


def add_histories(rng, cases, meta):
    """hist[i] = (ops, warm, info) for every HIST_EVERY-th case whose subset resolves the defect"""
    hist = {}
    k = 0
    for i, (c, (p, S, alg, entry, ok)) in enumerate(zip(cases, meta)):
        if i % HIST_EVERY != HIST_EVERY - 1 or not ok:
            continue
        hist[i] = make_history(rng, c, p, alg, entry, HIST_KINDS[k % len(HIST_KINDS)])
        k += 1
    return hist


def load_corpus(ctx, cases, meta, hist):
    """past cases (corpus/C03/*.json: {"fresh": case lines, "history": ops of the reused object or null, "warm": n,
    "subset": S, "alg", "entry", "note"}) are appended and go through the same comparison and oracles on every run;
    the problem is rebuilt exactly from the hex doubles of the fresh case"""
    d = ctx.verif / "corpus" / "C03"
    names = []
    for f in sorted(d.glob("*.json")) if d.exists() else []:
        j = json.loads(f.read_text())
        p, _ = g.problem_from_lines(j["fresh"])
        p["family"] = "corpus"
        cases.append(j["fresh"])
        meta.append((p, j["subset"], j["alg"], j["entry"], True))
        if j.get("history"):
            hist[len(cases) - 1] = (j["history"], j.get("warm", 0), {"kind": j.get("kind", "same"), "minx": 0, "setalg": 0, "pre": 0})
        names.append(f.name)
    return names


def run_impl(ctx, cases, hist, jobs=4):
    """the implementation's answers in the layout of the fresh case (`ok ok <answers to the case's queries>`) for every
    case; history cases run on the reused object.  Returns (impl, crashes, warm): warm[i] = [(query, got, fresh)],
    and for a history case whose output is malformed impl[i] = the raw output (the oracle reports the protocol)"""
    plain = [i for i in range(len(cases)) if i not in hist]
    hidx = sorted(hist)
    with concurrent.futures.ThreadPoolExecutor(max_workers=2) as ex:
        fh = ex.submit(g.run_cases_par, hist_harness(ctx), [hist[i][0] for i in hidx], max(1, jobs // 2)) if hidx else None
        po, pc = g.run_cases_par(c01.harness(ctx), [cases[i] for i in plain], jobs)
        ho, hc = fh.result() if fh else ([], {})
    impl, crashes, warm = [None] * len(cases), {}, {}
    for k, i in enumerate(plain):
        impl[i] = po[k]
        if k in pc:
            crashes[i] = pc[k]
    for k, i in enumerate(hidx):
        ops, nw, info = hist[i]
        if k in hc:
            crashes[i] = hc[k]
        out = ho[k]
        ns = len(cases[i]) - (cases[i].index("end") + 2)
        expect = sum(1 for l in ops if not l.startswith(SILENT))
        if len(out) != expect or "bad-op" in out:
            impl[i] = ["history protocol: %d lines for %d ops" % (len(out), expect)] + out[:40]
            continue
        impl[i] = ["ok", "ok"] + out[len(out) - ns:]
        w = out[len(out) - ns - 2 * nw:len(out) - ns]
        qs = ops[len(ops) - ns - 2 * nw:len(ops) - ns]
        warm[i] = [(qs[2 * j], w[2 * j], w[2 * j + 1]) for j in range(nw)]
    return impl, crashes, warm


def warm_failures(warm_i):
    """a cofactor asked of the reused object right after its input / configuration changed must be the cofactor a
    brand-new object reports"""
    bad = []
    for q, got, fresh in warm_i:
        if not lines_equal(got, fresh, rtol=1e-9, atol=1e-10):
            bad.append(f"'{q}' on the reused object: {got}, brand-new object with the same input: {fresh}")
    return bad


def refused_oracle(p, S, alg, entry, case, out):
    """S does not resolve the defect: no cofactor of the unknowns may be reported"""
    k = case.index("end") + 2
    if len(out) < 2 or out[0] != "ok" or out[1] != "ok":
        return ["harness protocol: " + " | ".join(out[:3])]
    for q, l in zip(case[k:], out[2:]):
        q = q.replace("fresh ", "")
        if q.startswith("qxx") and not l.startswith("throw"):
            return [f"regularisation subset {S} does not resolve the defect {p['defect']} but '{q}' was answered ({l[:40]})"]
        if q == "defect" and l != f"int {p['defect']}" and not l.startswith("throw"):
            return [f"defect reported '{l}' but n - rank A = {p['defect']}"]
    return []


def gs_trace(ctx, cases, meta):
    """model-only probe `gstrace` of drv_ls (pivot order of AdjCholDec's null-space Gram-Schmidt): (swapped, offid) counts"""
    probe = []
    for c, (p, S, alg, entry, ok) in zip(cases, meta):
        if alg == "chol" and ok and p["defect"] >= 2:
            probe.append(c[:c.index("end") + 2] + ["gstrace"])
    out, _ = run_cases(ctx.driver("drv_ls"), probe)
    sw = off = 0
    for o in out:
        t = o[-1].split() if o else []
        if len(t) >= 7 and t[0] == "gstrace" and t[2] == "ok":
            sw += int(t[4]) > 0
            off += int(t[6])
    return len(probe), sw, off


def val(line):
    t = line.split()
    return hex2float(t[1]) if len(t) == 2 and t[0] == "val" and is_hex(t[1]) else None


def mat(out, off, r, c):
    M = [[val(out[off + i * c + j]) for j in range(c)] for i in range(r)]
    if any(x is None for row in M for x in row):
        return None
    return M


def mmul(A, B):
    return [[sum(A[i][k] * B[k][j] for k in range(len(B))) for j in range(len(B[0]))] for i in range(len(A))]


def maxabs(M):
    return max([abs(x) for r in M for x in r] + [0.0])


def maxdiff(A, B):
    return max([abs(a - b) for ra, rb in zip(A, B) for a, b in zip(ra, rb)] + [0.0])


def oracle(p, S, alg, entry, out, ref):
    """the property evaluated on the implementation's answers against the exact rational reference"""
    n, m = p["n"], p["m"]
    bad = []
    if len(out) < 3 or out[0] != "ok" or out[1] != "ok":
        return ["harness protocol: " + " | ".join(out[:3])]
    if out[2] != f"int {p['defect']}":
        bad.append(f"defect reported '{out[2]}' but n - rank A = {p['defect']}")
    off = 3
    Q = mat(out, off, n, n)
    off += n * n
    Q0 = None
    if entry == "solver":
        Q0 = mat(out, off, n, n)
        off += n * n
    B = mat(out, off, m, m)
    if Q is None or B is None or (entry == "solver" and Q0 is None):
        kinds = sorted({l for l in out[3:] if not l.startswith("val ")})
        return bad + ["a cofactor query threw / returned nothing: " + " | ".join(kinds)[:200]]
    Qr = [[float(x) for x in r] for r in ref["Q"]]
    N = [[float(x) for x in r] for r in ref["N"]]
    sq, sn = 1.0 + maxabs(Qr), 1.0 + maxabs(N)
    d = maxdiff(Q, Qr)
    if d > 1e-8 * sq:
        bad.append(f"q_xx deviates from the exact reflexive g-inverse of N belonging to S by {d:.3g}")
    d = max([abs(Q[i][j] - Q[j][i]) for i in range(n) for j in range(n)] + [0.0])
    if d > 1e-9 * sq:
        bad.append(f"q_xx not symmetric: {d:.3g}")
    NQN = mmul(mmul(N, Q), N)
    d = maxdiff(NQN, N)
    if d > 1e-7 * sn * sn * sq:
        bad.append(f"N Q N - N = {d:.3g}")
    QNQ = mmul(mmul(Q, N), Q)
    d = maxdiff(QNQ, Q)
    if d > 1e-7 * sq * sq * sn:
        bad.append(f"Q N Q - Q = {d:.3g}")
    if Q0 is not None:
        d = max([abs(Q0[i][j] - Q0[j][i]) for i in range(n) for j in range(n)] + [0.0])
        if d > 1e-9 * (1 + maxabs(Q0)):
            bad.append(f"q0_xx not symmetric: {d:.3g}")
        if p["defect"] == 0 and maxdiff(Q0, Q) > 1e-9 * sq:
            bad.append(f"defect 0 but q0_xx != q_xx: {maxdiff(Q0, Q):.3g}")
        d = maxdiff(mmul(mmul(N, Q0), N), N)
        if d > 1e-7 * sn * sn * (1 + maxabs(Q0)):
            bad.append(f"N Q0 N - N = {d:.3g}")
    d = max([abs(B[i][j] - B[j][i]) for i in range(m) for j in range(m)] + [0.0])
    sb = 1.0 + maxabs(B)
    if d > 1e-9 * sb:
        bad.append(f"q_bb not symmetric: {d:.3g}")
    A = [[float(x) for x in r] for r in g.dense(p)]
    AQA = mmul(mmul(A, Qr), [list(r) for r in zip(*A)])
    homog = entry == "solver"          # solver-level q_bb refers to the homogenised system
    if (not homog) or p["unit_cov"]:
        d = maxdiff(B, AQA)
        if d > 1e-8 * (1 + maxabs(AQA)):
            bad.append(f"q_bb deviates from A Q A' by {d:.3g}")
    if homog or p["unit_cov"]:
        # projector of the homogenised system: idempotent, diagonal in [0,1], trace = rank
        d = maxdiff(mmul(B, B), B)
        if d > 1e-8 * sb:
            bad.append(f"q_bb (homogenised) not idempotent: {d:.3g}")
        lo = min([B[i][i] for i in range(m)] + [0.0])
        hi = max([B[i][i] for i in range(m)] + [0.0])
        if lo < -1e-9 or hi > 1 + 1e-9:
            bad.append(f"diag q_bb outside [0,1]: min {lo!r} max {hi!r}")
        red = sum(1.0 - B[i][i] for i in range(m))
        if abs(red - (m - n + p["defect"])) > 1e-7 * (1 + m):
            bad.append(f"sum of redundancy numbers {red!r} != m - n + defect = {m - n + p['defect']}")
    return bad


def exact_q_verdict(p, entry, out_impl, out_model, miss, ref, corr=None):
    """some answers of implementation and model differ by more than the stream's ENTRYWISE comparator allows
    (|a - b| <= 1e-9 (1 + |b|)).  A factorisation-based (generalised) inverse is accurate NORMWISE, not entrywise: the
    first-order forward error of every entry of Q is eps * kappa * max|Q| with kappa = |N|_inf |Q|_inf (N = A'PA and its
    regularised inverse Q, both EXACT, gen_ls.reference; kappa(N) = kappa(A)^2 is the square the cofactors scale with), so
    an entry that is small against max|Q| may legitimately miss an entrywise 1e-9.  The verdict is narrow:
      * only q_xx entries (and q0_xx when the defect is 0, where q0_xx = q_xx) can be excused - a miss anywhere else
        (defect, q_bb, q0_xx of a singular system) stays a disagreement;
      * for EVERY missed entry rounding must be able to explain the miss: tol = min(eps*kappa, 1e-7) * (1 + max|Q|) has to
        exceed what the comparator asked there, 1e-9 (1 + |Q_ij|) (a well-conditioned or evenly scaled matrix never
        qualifies);
      * BOTH whole matrices (all n^2 entries, not only the missed ones) must lie within tol of the exact Q.
    (thorough run 3: 32 x 24 'parts' problem, defect 4, subset of 6, envelope: kappa = 9.2e5, max|Q| = 390, entry
    Q(1,23) = -0.226: implementation +6.8e-10, model -9.6e-10 from the exact value, worst entries 1.4e-9 / 1.9e-9 =
    4e-12 / 5e-12 of max|Q|; tol = 7.9e-8.)  returns (accepted, explanation)"""
    n, Q = p["n"], ref["Q"]
    blocks = {"qxx": 3}
    if entry == "solver" and p["defect"] == 0:
        blocks["q0xx"] = 3 + n * n
    where = {}
    for k in miss:
        b = next((nm for nm, off in blocks.items() if off <= k < off + n * n), None)
        if b is None:
            return False, f"answer #{k} (not a q_xx entry) differs"
        where[k] = (b, (k - blocks[b]) // n, (k - blocks[b]) % n)
    kappa = float(max(sum(abs(v) for v in r) for r in ref["N"]) * max(sum(abs(v) for v in r) for r in Q))
    qmax = float(max(abs(v) for r in Q for v in r))
    tol = min(1e-7, 2.2e-16 * kappa) * (1.0 + qmax)
    devs = {}
    for side, out in (("implementation", out_impl), ("model", out_model)):
        for b in sorted({w[0] for w in where.values()}):
            M = mat(out, blocks[b], n, n)
            if M is None:
                return False, f"{b} not answered by the {side}"
            devs[side] = max(devs.get(side, 0.0), max(abs(float(F(M[i][j]) - Q[i][j])) for i in range(n) for j in range(n)))
    b, i, j = where[miss[0]]
    why = (f"{len(miss)} entries, first {b}({i + 1},{j + 1}) = {float(Q[i][j]):.6g} exactly; against the exact Q (all entries): "
           f"implementation {devs['implementation']:.3g}, model {devs['model']:.3g}, tolerance {tol:.3g} = eps*kappa*(1+max|Q|), "
           f"kappa = {kappa:.3g}, max|Q| = {qmax:.3g}")
    if corr is not None:
        corr.maxstat("q_judged_max_kappa", kappa)
        corr.maxstat("q_judged_max_dev_impl_over_maxQ", devs["implementation"] / (1.0 + qmax))
        corr.maxstat("q_judged_max_dev_model_over_maxQ", devs["model"] / (1.0 + qmax))
    for k, (b, i, j) in where.items():
        if tol < 1e-9 * (1.0 + abs(float(Q[i][j]))):
            return False, "rounding does not explain the difference (matrix well conditioned / evenly scaled); " + why
    return (devs["implementation"] <= tol and devs["model"] <= tol), why


def correspond(ctx, corr):
    cases, meta = make_cases(ctx, ctx.size(30, 600))
    hist = add_histories(ctx.rng, cases, meta)      # the model gets the fresh case, the implementation the history
    corr.count("corpus_cases", len(load_corpus(ctx, cases, meta, hist)))
    with concurrent.futures.ThreadPoolExecutor(max_workers=2) as ex:
        fm = ex.submit(g.run_cases_par, ctx.driver("drv_ls"), cases, 3)
        impl, crashes, warm = run_impl(ctx, cases, hist, 4)
        model, _ = fm.result()
    traced, sw, off = gs_trace(ctx, cases, meta)
    corr.count("chol_gs_cases_traced", traced)
    corr.count("chol_gs_cases_swapped", sw)
    corr.count("chol_gs_cases_offid", off)
    # exact stream: regular, unit covariance, envelope solver (square-root free)
    ratidx = [i for i, (p, S, alg, entry, ok) in enumerate(meta)
              if alg == "env" and entry == "solver" and p["unit_cov"] and p["defect"] == 0]
    ratout, _ = run_cases(ctx.driver("drv_ls"), [cases[i] for i in ratidx], args=("rat",))
    refs = {}
    for i, (c, (p, S, alg, entry, ok)) in enumerate(zip(cases, meta)):
        nontrivial = p["defect"] > 0 or not p["unit_cov"]
        corr.case(key=(" ".join(c)) if nontrivial else None,
                  sample={"ops": c[:c.index("end") + 3] + ["..."], "impl": impl[i][:6]} if i in (0, 5) else None)
        corr.count(f"alg_{alg}_{entry}")
        corr.count("singular" if p["defect"] else "regular")
        corr.count(f"cases_defect_{p['defect']}")
        if p["defect"] >= 3 and len(S) < p["n"]:
            corr.count("cases_defect_ge3_proper_" + ("resolving" if ok else "not_resolving"))
        corr.count("correlated" if not p["unit_cov"] else "unit_cov")
        corr.count("family_" + p["family"])
        stream, site = "ls", f"{alg}/{entry}"
        if i in hist:
            # the implementation ran `hist[i][0]` on a reused object; everything below sees its answers to the
            # case's own queries, and failing inputs are the history
            c, nw, info = hist[i]
            stream, site = "ls-history", f"{alg}/{entry} reused object ({info['kind']})"
            corr.count("history_cases")
            corr.count("history_" + {"same": "reset_same_dimensions", "other": "reset_other_dimensions",
                                     "none": "same_input"}[info["kind"]])
            corr.count(f"history_alg_{alg}_{entry}")
            corr.count("history_min_x_changes", info["minx"])
            corr.count("history_set_algorithm", info["setalg"])
            corr.count("history_queries_before_the_change", info["pre"])
        if i in crashes:
            corr.fail("solver crashed / sanitizer report", {"stream": stream, "ops": c}, site, crashes[i][1])
            continue
        if i in warm:
            corr.count("history_requeries_vs_fresh_object", len(warm[i]))
            wbad = warm_failures(warm[i])
            if wbad:
                corr.fail("cofactor depends on the object's history: " + "; ".join(wbad[:3]),
                          {"stream": stream, "ops": c, "subset": S}, site, " | ".join(w[1] for w in warm[i]))
        nm, pairs, miss = False, 0, []
        for k, (a, b) in enumerate(zip(impl[i], model[i])):
            if b == "not-modelled":
                nm = True
                continue
            pairs += 1
            if not lines_equal(a, b, rtol=1e-9, atol=1e-9):
                miss.append(k)
                continue
            va, vb = val(a), val(b)
            if va is not None and vb is not None:
                corr.maxstat("max_dev_model_impl", abs(va - vb))
        if miss and ok and len(impl[i]) == len(model[i]) and corr.stats.get("q_judged_by_exact_reference", 0) < 60:
            # entries of q_xx miss the ENTRYWISE 1e-9 comparison: model or implementation wrong, or rounding at an entry
            # that is small against the matrix?  decided against the EXACT Q (see exact_q_verdict); never silently
            corr.count("q_judged_by_exact_reference")
            key = (id(p), tuple(S))
            if key not in refs:
                refs[key] = g.reference(p, S)
            okq, why = exact_q_verdict(p, entry, impl[i], model[i], miss, refs[key], corr)
            if okq:
                corr.count("q_rounding_at_entries_small_against_the_matrix")
            else:
                corr.disagree(stream, c, impl[i], model[i], site + ": " + why)
        elif miss:
            corr.disagree(stream, c, impl[i], model[i], site)
        elif len(impl[i]) != len(model[i]):
            corr.disagree(stream, c, impl[i], model[i], "length")
        corr.count("not_modelled" if nm else "modelled")
        corr.count("answers_compared", pairs)
        if not ok:
            bad = refused_oracle(p, S, alg, entry, c, impl[i])
        else:
            key = (id(p), tuple(S))
            if key not in refs:
                refs[key] = g.reference(p, S)
            bad = oracle(p, S, alg, entry, impl[i], refs[key])
        if bad:
            corr.fail("; ".join(bad), {"stream": stream, "ops": c, "subset": S}, site, " | ".join(impl[i][:8]))
    for k, i in enumerate(ratidx):
        corr.count("rat_cases")
        if i in crashes:
            continue
        for a, b in zip(impl[i], ratout[k]):
            if b == "not-modelled":
                continue
            corr.count("rat_answers_compared")
            if not lines_equal(a, b, rtol=1e-10, atol=1e-10):
                corr.disagree("ls-rat", cases[i], impl[i], ratout[k], "env/solver exact")
                break
    tot = corr.stats.get("singular", 0) + corr.stats.get("regular", 0)
    if tot and corr.stats.get("singular", 0) < 0.25 * tot:
        corr.inconclusive.append("fewer than 25% singular problems")
    if not corr.stats.get("rat_cases"):
        corr.inconclusive.append("no regular unit-covariance problem for the exact stream")
    for k, need in CASE_MIN.items():
        if corr.stats.get(k, 0) < need:
            corr.inconclusive.append(f"case mix: {k} = {corr.stats.get(k, 0)} < {need}")
    judged = corr.stats.get("q_judged_by_exact_reference", 0)
    if judged > max(12, len(cases) // 1000):
        corr.inconclusive.append(f"{judged} cases needed the exact reference to compare q_xx (more than 0.1% of the cases)")
    # histories: a fixed share of the cases, every algorithm at both entries, each kind of change
    nres = sum(1 for x in meta if x[4])
    if corr.stats.get("history_cases", 0) < nres // HIST_EVERY - 2:
        corr.inconclusive.append(f"history share: {corr.stats.get('history_cases', 0)} of {nres} resolving cases")
    for k in [f"history_alg_{a}_{e}" for a in ALGS for e in ("solver", "adj")] + \
            ["history_reset_same_dimensions", "history_reset_other_dimensions", "history_same_input",
             "history_min_x_changes", "history_set_algorithm", "history_requeries_vs_fresh_object"]:
        if corr.stats.get(k, 0) < 5:
            corr.inconclusive.append(f"history mix: {k} = {corr.stats.get(k, 0)} < 5")


def search(ctx, broken, corr):
    big = Ctx(ctx.id, "thorough", ctx.seed + 1000)
    big.thorough = True
    cases, meta = make_cases(big, 150)
    hist = add_histories(big.rng, cases, meta)
    impl, crashes, warm = run_impl(ctx, cases, hist, 4)
    out, refs = [], {}
    for i, (c, (p, S, alg, entry, ok)) in enumerate(zip(cases, meta)):
        if i in hist:
            c = hist[i][0]
        if i in crashes:
            out.append(Failure("solver crashed / sanitizer report", {"stream": "ls", "ops": c}, f"{alg}/{entry}", crashes[i][1]))
            continue
        wbad = warm_failures(warm.get(i, []))
        if wbad:
            out.append(Failure("cofactor depends on the object's history: " + "; ".join(wbad[:3]),
                               {"stream": "ls-history", "ops": c, "subset": S}, f"{alg}/{entry} reused object", ""))
        if not ok:
            bad = refused_oracle(p, S, alg, entry, c, impl[i])
        else:
            key = (id(p), tuple(S))
            if key not in refs:
                refs[key] = g.reference(p, S)
            bad = oracle(p, S, alg, entry, impl[i], refs[key])
        if bad:
            out.append(Failure("; ".join(bad), {"stream": "ls", "ops": c, "subset": S}, f"{alg}/{entry}", " | ".join(impl[i][:8])))
        if len(out) >= 5:
            break
    out.sort(key=lambda f: len(" ".join(f.replay["ops"])))
    return out


def replay(ctx, payload):
    f = payload.get("failure")
    if not f:
        print(json.dumps(payload.get("no_longer_checks"), indent=1)[:3000])
        return 1
    # harness/c03_history.cpp speaks the protocol of adj_harness.cpp plus `reset_new` (several problems per case)
    exe = hist_harness(ctx) if any(l.startswith("reset_new") for l in f["input"]["ops"]) else c01.harness(ctx)
    impl, crashes = run_cases(exe, [f["input"]["ops"]])
    print("\n".join(f["input"]["ops"]))
    print("->", impl[0], crashes)
    return 1


# per-run SVD factorisation certificate (tools/props/svd_cert.py): the one place where a numeric check
# stands in for a missing universal theorem (convergence/accuracy of the Golub-Reinsch iteration)
from props import svd_cert  # noqa: E402
_correspond_without_cert = correspond


def correspond(ctx, corr):  # noqa: F811
    _correspond_without_cert(ctx, corr)
    svd_cert.check_certificates(ctx, corr)
