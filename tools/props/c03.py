"""C03 — reported cofactors are the true (generalised) inverse."""
import concurrent.futures
import glob
from fractions import Fraction as F
from lib.core import *
from lib import gen_ls as g
from props import c01

ID = "C03"
PROPS_FILES = sorted("Gama/Props/C03/" + Path(f).name for f in glob.glob(str(LEAN / "Gama/Props/C03/*.lean")))
LEAN_TARGETS = [f[:-5].replace("/", ".") for f in PROPS_FILES]
DRIVERS = ["drv_ls"]
RULE = ("problems (A,b,C,S) from tools/lib/gen_ls.py (small-integer dense with planted dependent columns; levelling "
        "incidence graphs incl. disconnected; unit / diagonal / banded SPD covariance blocks; regularisation subsets "
        "that resolve the defect, decided exactly) x {env,chol,gso,svd} x {solver,adj}; per case q_xx(i,j) for ALL "
        "1<=i,j<=n, q0_xx(i,j) for all pairs (solver entry), q_bb(i,j) for ALL 1<=i,j<=m (inside and outside the "
        "envelope); non-trivial = defect>0 or correlated covariance; distinct by problem text + subset + algorithm + entry")
LEVEL_TEXT = ("Lean 4 theorems about the executable solver models: the matrix Q of reported weight coefficients of the "
              "unknowns is symmetric with N Q N = N and Q N Q = Q for N = A'PA (Q = N^-1 when the defect is zero), "
              "q_bb = A Q A', which for the homogenised system is a symmetric projector with diagonal in [0,1] whose "
              "redundancy numbers 1 - q_bb(i,i) sum to the degrees of freedom — in exact arithmetic over an ordered "
              "field, for all sizes and ALL index pairs, under the property's hypothesis that every tested pivot is "
              "exactly 0 or at least the tolerance. Models tied to the C++ by differential correspondence on every "
              "index pair (Float with tolerance; exact rationals for the square-root-free regular envelope kernel) "
              "plus an exact rational oracle (reference generalised inverse) on the implementation's answers.")
LEVEL_NOTE = ("Theorems are about exact arithmetic; IEEE rounding is not proved. For the envelope solver both the regular case "
              "(Q = N^-1) and the singular case (Q = T Q0 T' with the S-projector of the configured regularisation; "
              "q_bb = A Q A' for every g-inverse, projector, diagonal in [0,1], redundancy sum m - n + defect) are proved, "
              "for every ordering, with the homogenisation factor W (W'W = P) taken as given (C10) and the packed "
              "envelope profile / sparse inverse inside the envelope replaced by its dense definition (C16). "
              "The XML covariance band is checked at network level by C12.")
TECHNIQUE = "Lean 4 proof (ordered-field algebra, induction over the factorisation loops) + model/implementation correspondence"
MODELLED = ["IEEE rounding (proofs over exact ordered fields)",
            "envelope profile storage (dense model; C16 proves packed = dense)"]
ASSUMPTIONS = ["rank numerically unambiguous: generator keeps exact small-integer/dyadic data so every pivot is 0 or O(1)"]

ALGS = ["env", "chol", "gso", "svd"]
# quick-tier minimum of the case mix (cases = problem x subset x algorithm x entry); not met -> inconclusive
CASE_MIN = {"cases_defect_3": 80, "cases_defect_4": 60, "cases_defect_ge3_proper_resolving": 100,
            "cases_defect_ge3_proper_not_resolving": 40, "chol_gs_cases_swapped": 15, "chol_gs_cases_offid": 6}


def queries(p, entry):
    n, m = p["n"], p["m"]
    q = ["defect"]
    q += [f"qxx {i} {j}" for i in range(1, n + 1) for j in range(1, n + 1)]
    if entry == "solver":
        q += [f"q0xx {i} {j}" for i in range(1, n + 1) for j in range(1, n + 1)]
    q += [f"qbb {i} {j}" for i in range(1, m + 1) for j in range(1, m + 1)]
    return q


def quota(nprob, thorough=False):
    """guaranteed problems on top of the historical mix: free-network Jacobians (defect 3 and 4, every kind) and
    two-part problems, each with PROPER regularisation subsets"""
    return {"free": max(12, nprob // 4), "parts": max(4, nprob // 8)} if thorough else {"free": 12, "parts": 4}


def make_cases(ctx, nprob, quota_=None):
    """meta = (p, S, alg, entry, ok); ok = False: S does not resolve the defect (every cofactor of the unknowns
    must be refused; asked of brand-new objects, `fresh`, so that no history is involved)"""
    cases, meta = [], []
    quota_ = quota(nprob, ctx.thorough) if quota_ is None else quota_
    probs = []
    for _ in range(nprob):
        p = g.gen_problem(ctx.rng)
        probs.append((p, [s for s in g.gen_subsets(ctx.rng, p, 2) if s[1]][:2]))
    for k in range(quota_.get("free", 0)):
        p = g.gen_problem(ctx.rng, family="free-" + g.FREE_KINDS[k % len(g.FREE_KINDS)], correlated=(k % 3 == 2))
        probs.append((p, g.gen_proper_subsets(ctx.rng, p, 3, 1) + ([(list(range(1, p["n"] + 1)), True)] if k % 2 else [])))
    for k in range(quota_.get("parts", 0)):
        p = g.gen_problem(ctx.rng, family="parts", correlated=(k % 3 == 2))
        probs.append((p, g.gen_proper_subsets(ctx.rng, p, 2, 1)))
    for p, subs in probs:
        for S, ok in subs:
            for alg in ALGS:
                for entry in ("solver", "adj"):
                    if entry == "solver" and alg != "env" and not p["unit_cov"]:
                        continue
                    reg = "all" if (len(S) == p["n"] and ctx.rng.random() < 0.5) else S
                    qs = queries(p, entry)
                    if not ok:
                        qs = ["fresh " + q for q in qs if not q.startswith("qbb") or q.split()[1] == q.split()[2]]
                    cases.append(g.problem_lines(p, reg) + [f"new {alg} {entry}"] + qs)
                    meta.append((p, S, alg, entry, ok))
    return cases, meta


def refused_oracle(p, S, alg, entry, case, out):
    """S does not resolve the defect: no cofactor of the unknowns may be reported"""
    k = case.index("end") + 2
    if len(out) < 2 or out[0] != "ok" or out[1] != "ok":
        return ["harness protocol: " + " | ".join(out[:3])]
    for q, l in zip(case[k:], out[2:]):
        q = q.replace("fresh ", "")
        if q.startswith("qxx") and not l.startswith("throw"):
            return [f"regularisation subset {S} does not resolve the defect {p['defect']} but '{q}' was answered ({l[:40]})"]
        if q == "defect" and l != f"int {p['defect']}" and not l.startswith("throw"):
            return [f"defect reported '{l}' but n - rank A = {p['defect']}"]
    return []


def gs_trace(ctx, cases, meta):
    """model-only probe `gstrace` of drv_ls (pivot order of AdjCholDec's null-space Gram-Schmidt): (swapped, offid) counts"""
    probe = []
    for c, (p, S, alg, entry, ok) in zip(cases, meta):
        if alg == "chol" and ok and p["defect"] >= 2:
            probe.append(c[:c.index("end") + 2] + ["gstrace"])
    out, _ = run_cases(ctx.driver("drv_ls"), probe)
    sw = off = 0
    for o in out:
        t = o[-1].split() if o else []
        if len(t) >= 7 and t[0] == "gstrace" and t[2] == "ok":
            sw += int(t[4]) > 0
            off += int(t[6])
    return len(probe), sw, off


def val(line):
    t = line.split()
    return hex2float(t[1]) if len(t) == 2 and t[0] == "val" and is_hex(t[1]) else None


def mat(out, off, r, c):
    M = [[val(out[off + i * c + j]) for j in range(c)] for i in range(r)]
    if any(x is None for row in M for x in row):
        return None
    return M


def mmul(A, B):
    return [[sum(A[i][k] * B[k][j] for k in range(len(B))) for j in range(len(B[0]))] for i in range(len(A))]


def maxabs(M):
    return max([abs(x) for r in M for x in r] + [0.0])


def maxdiff(A, B):
    return max([abs(a - b) for ra, rb in zip(A, B) for a, b in zip(ra, rb)] + [0.0])


def oracle(p, S, alg, entry, out, ref):
    """the property evaluated on the implementation's answers against the exact rational reference"""
    n, m = p["n"], p["m"]
    bad = []
    if len(out) < 3 or out[0] != "ok" or out[1] != "ok":
        return ["harness protocol: " + " | ".join(out[:3])]
    if out[2] != f"int {p['defect']}":
        bad.append(f"defect reported '{out[2]}' but n - rank A = {p['defect']}")
    off = 3
    Q = mat(out, off, n, n)
    off += n * n
    Q0 = None
    if entry == "solver":
        Q0 = mat(out, off, n, n)
        off += n * n
    B = mat(out, off, m, m)
    if Q is None or B is None or (entry == "solver" and Q0 is None):
        kinds = sorted({l for l in out[3:] if not l.startswith("val ")})
        return bad + ["a cofactor query threw / returned nothing: " + " | ".join(kinds)[:200]]
    Qr = [[float(x) for x in r] for r in ref["Q"]]
    N = [[float(x) for x in r] for r in ref["N"]]
    sq, sn = 1.0 + maxabs(Qr), 1.0 + maxabs(N)
    d = maxdiff(Q, Qr)
    if d > 1e-8 * sq:
        bad.append(f"q_xx deviates from the exact reflexive g-inverse of N belonging to S by {d:.3g}")
    d = max([abs(Q[i][j] - Q[j][i]) for i in range(n) for j in range(n)] + [0.0])
    if d > 1e-9 * sq:
        bad.append(f"q_xx not symmetric: {d:.3g}")
    NQN = mmul(mmul(N, Q), N)
    d = maxdiff(NQN, N)
    if d > 1e-7 * sn * sn * sq:
        bad.append(f"N Q N - N = {d:.3g}")
    QNQ = mmul(mmul(Q, N), Q)
    d = maxdiff(QNQ, Q)
    if d > 1e-7 * sq * sq * sn:
        bad.append(f"Q N Q - Q = {d:.3g}")
    if Q0 is not None:
        d = max([abs(Q0[i][j] - Q0[j][i]) for i in range(n) for j in range(n)] + [0.0])
        if d > 1e-9 * (1 + maxabs(Q0)):
            bad.append(f"q0_xx not symmetric: {d:.3g}")
        if p["defect"] == 0 and maxdiff(Q0, Q) > 1e-9 * sq:
            bad.append(f"defect 0 but q0_xx != q_xx: {maxdiff(Q0, Q):.3g}")
        d = maxdiff(mmul(mmul(N, Q0), N), N)
        if d > 1e-7 * sn * sn * (1 + maxabs(Q0)):
            bad.append(f"N Q0 N - N = {d:.3g}")
    d = max([abs(B[i][j] - B[j][i]) for i in range(m) for j in range(m)] + [0.0])
    sb = 1.0 + maxabs(B)
    if d > 1e-9 * sb:
        bad.append(f"q_bb not symmetric: {d:.3g}")
    A = [[float(x) for x in r] for r in g.dense(p)]
    AQA = mmul(mmul(A, Qr), [list(r) for r in zip(*A)])
    homog = entry == "solver"          # solver-level q_bb refers to the homogenised system
    if (not homog) or p["unit_cov"]:
        d = maxdiff(B, AQA)
        if d > 1e-8 * (1 + maxabs(AQA)):
            bad.append(f"q_bb deviates from A Q A' by {d:.3g}")
    if homog or p["unit_cov"]:
        # projector of the homogenised system: idempotent, diagonal in [0,1], trace = rank
        d = maxdiff(mmul(B, B), B)
        if d > 1e-8 * sb:
            bad.append(f"q_bb (homogenised) not idempotent: {d:.3g}")
        lo = min([B[i][i] for i in range(m)] + [0.0])
        hi = max([B[i][i] for i in range(m)] + [0.0])
        if lo < -1e-9 or hi > 1 + 1e-9:
            bad.append(f"diag q_bb outside [0,1]: min {lo!r} max {hi!r}")
        red = sum(1.0 - B[i][i] for i in range(m))
        if abs(red - (m - n + p["defect"])) > 1e-7 * (1 + m):
            bad.append(f"sum of redundancy numbers {red!r} != m - n + defect = {m - n + p['defect']}")
    return bad


def correspond(ctx, corr):
    exe = c01.harness(ctx)
    cases, meta = make_cases(ctx, ctx.size(30, 600))
    with concurrent.futures.ThreadPoolExecutor(max_workers=2) as ex:
        fm = ex.submit(g.run_cases_par, ctx.driver("drv_ls"), cases, 3)
        impl, crashes = g.run_cases_par(exe, cases, 4)
        model, _ = fm.result()
    traced, sw, off = gs_trace(ctx, cases, meta)
    corr.count("chol_gs_cases_traced", traced)
    corr.count("chol_gs_cases_swapped", sw)
    corr.count("chol_gs_cases_offid", off)
    # exact stream: regular, unit covariance, envelope solver (square-root free)
    ratidx = [i for i, (p, S, alg, entry, ok) in enumerate(meta)
              if alg == "env" and entry == "solver" and p["unit_cov"] and p["defect"] == 0]
    ratout, _ = run_cases(ctx.driver("drv_ls"), [cases[i] for i in ratidx], args=("rat",))
    refs = {}
    for i, (c, (p, S, alg, entry, ok)) in enumerate(zip(cases, meta)):
        nontrivial = p["defect"] > 0 or not p["unit_cov"]
        corr.case(key=(" ".join(c)) if nontrivial else None,
                  sample={"ops": c[:c.index("end") + 3] + ["..."], "impl": impl[i][:6]} if i in (0, 5) else None)
        corr.count(f"alg_{alg}_{entry}")
        corr.count("singular" if p["defect"] else "regular")
        corr.count(f"cases_defect_{p['defect']}")
        if p["defect"] >= 3 and len(S) < p["n"]:
            corr.count("cases_defect_ge3_proper_" + ("resolving" if ok else "not_resolving"))
        corr.count("correlated" if not p["unit_cov"] else "unit_cov")
        corr.count("family_" + p["family"])
        if i in crashes:
            corr.fail("solver crashed / sanitizer report", {"stream": "ls", "ops": c}, f"{alg}/{entry}", crashes[i][1])
            continue
        nm, pairs = False, 0
        for a, b in zip(impl[i], model[i]):
            if b == "not-modelled":
                nm = True
                continue
            pairs += 1
            if not lines_equal(a, b, rtol=1e-9, atol=1e-9):
                corr.disagree("ls", c, impl[i], model[i], f"{alg}/{entry}")
                break
            va, vb = val(a), val(b)
            if va is not None and vb is not None:
                corr.maxstat("max_dev_model_impl", abs(va - vb))
        else:
            if len(impl[i]) != len(model[i]):
                corr.disagree("ls", c, impl[i], model[i], "length")
        corr.count("not_modelled" if nm else "modelled")
        corr.count("answers_compared", pairs)
        if not ok:
            bad = refused_oracle(p, S, alg, entry, c, impl[i])
        else:
            key = (id(p), tuple(S))
            if key not in refs:
                refs[key] = g.reference(p, S)
            bad = oracle(p, S, alg, entry, impl[i], refs[key])
        if bad:
            corr.fail("; ".join(bad), {"stream": "ls", "ops": c, "subset": S}, f"{alg}/{entry}", " | ".join(impl[i][:8]))
    for k, i in enumerate(ratidx):
        corr.count("rat_cases")
        if i in crashes:
            continue
        for a, b in zip(impl[i], ratout[k]):
            if b == "not-modelled":
                continue
            corr.count("rat_answers_compared")
            if not lines_equal(a, b, rtol=1e-10, atol=1e-10):
                corr.disagree("ls-rat", cases[i], impl[i], ratout[k], "env/solver exact")
                break
    tot = corr.stats.get("singular", 0) + corr.stats.get("regular", 0)
    if tot and corr.stats.get("singular", 0) < 0.25 * tot:
        corr.inconclusive.append("fewer than 25% singular problems")
    if not corr.stats.get("rat_cases"):
        corr.inconclusive.append("no regular unit-covariance problem for the exact stream")
    for k, need in CASE_MIN.items():
        if corr.stats.get(k, 0) < need:
            corr.inconclusive.append(f"case mix: {k} = {corr.stats.get(k, 0)} < {need}")


def search(ctx, broken, corr):
    big = Ctx(ctx.id, "thorough", ctx.seed + 1000)
    big.thorough = True
    exe = c01.harness(ctx)
    cases, meta = make_cases(big, 150)
    impl, crashes = run_cases(exe, cases)
    out, refs = [], {}
    for i, (c, (p, S, alg, entry, ok)) in enumerate(zip(cases, meta)):
        if i in crashes:
            out.append(Failure("solver crashed / sanitizer report", {"stream": "ls", "ops": c}, f"{alg}/{entry}", crashes[i][1]))
            continue
        if not ok:
            bad = refused_oracle(p, S, alg, entry, c, impl[i])
        else:
            key = (id(p), tuple(S))
            if key not in refs:
                refs[key] = g.reference(p, S)
            bad = oracle(p, S, alg, entry, impl[i], refs[key])
        if bad:
            out.append(Failure("; ".join(bad), {"stream": "ls", "ops": c, "subset": S}, f"{alg}/{entry}", " | ".join(impl[i][:8])))
        if len(out) >= 5:
            break
    out.sort(key=lambda f: len(" ".join(f.replay["ops"])))
    return out


def replay(ctx, payload):
    f = payload.get("failure")
    if not f:
        print(json.dumps(payload.get("no_longer_checks"), indent=1)[:3000])
        return 1
    exe = c01.harness(ctx)
    impl, crashes = run_cases(exe, [f["input"]["ops"]])
    print("\n".join(f["input"]["ops"]))
    print("->", impl[0], crashes)
    return 1


# per-run SVD factorisation certificate (tools/props/svd_cert.py): the one place where a numeric check
# stands in for a missing universal theorem (convergence/accuracy of the Golub-Reinsch iteration)
from props import svd_cert  # noqa: E402
_correspond_without_cert = correspond


def correspond(ctx, corr):  # noqa: F811
    _correspond_without_cert(ctx, corr)
    svd_cert.check_certificates(ctx, corr)
