"""C11, adjustment-results reader (LocalNetworkAdjustmentResults::Parser): translator hook and the event
correspondence stream.  Imported by tools/props/c11.py (`translate`, `run_stream`)."""
import importlib.util
from lib.core import *

PROPS_FILES = ["Gama/Props/C11AdjRes.lean", "Gama/Props/C11AdjResInit.lean", "Gama/Props/C11AdjResAccept.lean",
               "Gama/Props/C11AdjResWriter.lean"]
LEAN_TARGETS = ["Gama.Props.C11AdjRes", "Gama.Props.C11AdjResInit", "Gama.Props.C11AdjResAccept", "Gama.Props.C11AdjResWriter"]
DRIVERS = ["drv_adjres"]

_spec = importlib.util.spec_from_file_location("c11_adjres_gen", str(VERIF / "tools" / "gen" / "c11_adjres.py"))
_tr = importlib.util.module_from_spec(_spec)
_spec.loader.exec_module(_tr)
_tr.TieBroken = TieBroken

XMLNS = "http://www.gnu.org/software/gama/gama-local-adjustment"



def _is_wall_timeout(crash):
    """run_cases reports a wall-clock expiry of the whole batch as (-9, "timeout") on its first case: the machine is loaded;
    termination itself is judged by the harness' CPU timer (exit status 88)"""
    return crash is not None and crash[0] == -9 and crash[1] == "timeout"


def _wall_inconclusive(corr, what):
    corr.count("wall_clock_expired_without_cpu_exhaustion")
    if len(corr.inconclusive) < 20:
        corr.inconclusive.append("wall-clock limit expired without CPU exhaustion (loaded machine): " + what)


def _translate_writer_skeleton(ctx):
    """Props/C11AdjResWriter.lean evaluates the reader automaton over the WRITER skeleton of property C12
    (lean/Gama/Gen/XmlSkeleton.lean, which imports Gen/XmlSites.lean).  Both are regenerated here from ctx.repo with C12's own
    translators (called read-only, exactly as tools/props/c12.py::translate does; a file is written only if its content
    changed), so that a change of LocalNetworkXML::write re-checks the round-trip theorem in THIS check too."""
    try:
        spec = importlib.util.spec_from_file_location("c12_skeleton", str(VERIF / "tools" / "gen" / "c12_skeleton.py"))
        sk = importlib.util.module_from_spec(spec)
        spec.loader.exec_module(sk)
        sites = sk.S
    except Exception as e:                                   # C12's translator itself is not loadable: use the files on disk
        ctx.log(f"c11_adjres: C12 skeleton translator not loadable ({e!r}); using lean/Gama/Gen/XmlSkeleton.lean as it is on disk")
        return
    try:
        txt, _escmap, _sites = sites.generate(ctx.repo)
        txt2, _info = sk.generate(ctx.repo)
    except sites.SitesError as e:
        raise TieBroken("c12_skeleton (writer side of the C11 round trip)", str(e))
    except OSError as e:
        raise TieBroken("c12_skeleton (writer side of the C11 round trip)", f"source not readable: {e}")
    for name, t in (("XmlSites.lean", txt), ("XmlSkeleton.lean", txt2)):
        out = ctx.verif / "lean" / "Gama" / "Gen" / name
        if not out.exists() or out.read_text() != t:
            out.write_text(t)


def translate(ctx):
    _tr.run(ctx.repo, ctx.verif)
    _translate_writer_skeleton(ctx)


# ------------------------------------------------------------------ documents

def _f(rng):
    return rng.choice(["%.6f" % rng.uniform(-1e6, 1e6), "%.7e" % rng.uniform(-1e3, 1e3), str(rng.randrange(-50, 50)),
                       "%.3f" % rng.random(), ".5", "5.", "+1e-3"])


def _i(rng, hi=40):
    return str(rng.randrange(0, hi))


def _id(rng):
    return rng.choice(["A", "B1", "403", "p 7", "x-y", "Ž1"])


# regression inputs with an expectation: (band+1)*dim = INT_MAX passed the overflow test and made CovMat::reset allocate and clear
# 16 GB before any <flt> was seen (fixed by 3e87ff8): must be refused at the line of </band>, and fast (10 s CPU limit of the harness)
CORPUS_EXPECT = {"result-dim-intmax-band0.xml": ("refuse", 61)}


def gen_result(rng, size=None, excess=0):
    """a document the reader accepts: same element order as gama-local's own output, random sizes / options; self-consistent like
    gama-local's own results: <dim> = number of adjustment indexes announced before <cov-mat> (2 per adjusted point with x and y,
    1 per adjusted point with z, 1 per orientation).  excess > 0: dim exceeds that number (must be REFUSED, located; fix 3e87ff8);
    the line of </band>, where the test runs, is returned in gen_result.neg_line"""
    n = size if size is not None else rng.randrange(0, 5)
    L = ['<?xml version="1.0"?>', f'<gama-local-adjustment xmlns="{XMLNS}">', "", "<description>", rng.choice(["", "net & co", "a\nb"]).replace("&", "&amp;"), "</description>", ""]
    at = [("gama-local-version", "2.32"), ("gama-local-algorithm", "gso"), ("gama-local-compiler", "GNU"), ("axes-xy", "ne"),
          ("angles", "left-handed"), ("epoch", "0.0"), ("latitude", "50"), ("ellipsoid", "wgs84")]
    at = [a for a in at if rng.random() < 0.7]
    L.append("<network-general-parameters" + "".join(f'\n   {k}="{v}"' for k, v in at) + "\n/>")
    L += ["<network-processing-summary>", "<coordinates-summary>"]
    for k in ("adjusted", "constrained", "fixed"):
        L.append(f"   <coordinates-summary-{k}> <count-xyz>{_i(rng)}</count-xyz> <count-xy>{_i(rng)}</count-xy> <count-z>{_i(rng)}</count-z> </coordinates-summary-{k}>")
    L += ["</coordinates-summary>", "<observations-summary>"]
    for k in ("distances", "directions", "angles", "xyz-coords", "h-diffs", "z-angles", "s-dists", "vectors", "azimuths"):
        L.append(f"   <{k}>{_i(rng)}</{k}>")
    L += ["</observations-summary>", "<project-equations>"]
    for k in ("equations", "unknowns", "degrees-of-freedom", "defect"):
        L.append(f"   <{k}>{_i(rng)}</{k}>")
    L.append(f"   <sum-of-squares>{_f(rng)}</sum-of-squares>")
    if rng.random() < 0.6:
        L.append(f"   <linearization-iterations>{_i(rng, 5)}</linearization-iterations>")
    L.append(rng.choice(["   <connected-network/>", "   <disconnected-network/>", "   <connected-network> </connected-network>"]))
    L += ["</project-equations>", "<standard-deviation>"]
    L.append(f"   <apriori>{_f(rng)}</apriori>\n   <aposteriori>{_f(rng)}</aposteriori>\n   <used>{rng.choice(['apriori', 'aposteriori', ' aposteriori '])}</used>")
    for k in ("probability", "ratio", "lower", "upper"):
        L.append(f"   <{k}>{_f(rng)}</{k}>")
    L.append(rng.choice(["   <passed/>", "   <failed/>", "   <not-applicable/>"]))
    L += [f"   <confidence-scale>{_f(rng)}</confidence-scale>", "</standard-deviation>", "</network-processing-summary>", "<coordinates>"]

    def point(adj):
        r = rng.random()
        cap = adj and rng.random() < 0.3
        x, y, z = ("X", "Y", "Z") if cap else ("x", "y", "z")
        s = f"   <point> <id>{_id(rng)}</id>"
        k = 0
        if r < 0.7:
            s += f" <{x}>{_f(rng)}</{x}> <{y}>{_f(rng)}</{y}>"
            k += 2
        if r > 0.4:
            s += f" <{z}>{_f(rng)}</{z}>"
            k += 1
        return s + " </point>", k
    nunk = 0
    for sec in ("fixed", "approximate", "adjusted"):
        L.append(f"<{sec}>")
        for _ in range(rng.randrange(0, n + 2)):
            ps, k = point(sec == "adjusted")
            L.append(ps)
            if sec == "adjusted":
                nunk += k
        L.append(f"</{sec}>")
    if rng.random() < 0.6:
        L.append("<std-error-ellipses>")
        for _ in range(rng.randrange(0, n + 1)):
            L.append(f"   <ellipse> <id>{_id(rng)}</id> <major>{_f(rng)}</major> <minor>{_f(rng)}</minor> <alpha>{_f(rng)}</alpha> </ellipse>")
        L.append("</std-error-ellipses>")
    L.append("<orientation-shifts>")
    for _ in range(rng.randrange(0, n + 1)):
        L.append(f"   <orientation> <id>{_id(rng)}</id> <approx>{_f(rng)}</approx> <adj>{_f(rng)}</adj> </orientation>")
        nunk += 1
    L.append("</orientation-shifts>")
    dim = nunk + excess
    band = rng.randrange(0, max(min(dim, 4), 1))
    gen_result.neg_line = sum(x.count("\n") + 1 for x in L) + 2
    cnt = dim * (band + 1) - band * (band + 1) // 2
    nind = dim
    if excess:                      # refused at </band>: what follows is never read; keep the document small
        cnt, nind = min(cnt, 6), min(dim, 6)
    L.append(f"<cov-mat>\n<dim>{dim}</dim> <band>{band}</band>")
    L.append(" ".join(f"<flt>{_f(rng)}</flt>" for _ in range(cnt)))
    L.append("</cov-mat>")
    L.append("<original-index>\n" + " ".join(f"<ind>{_i(rng)}</ind>" for _ in range(nind)) + "\n</original-index>")
    L += ["</coordinates>", "<observations>"]
    for _ in range(rng.randrange(0, n + 2)):
        k = rng.choice(["distance", "direction", "angle", "slope-distance", "zenith-angle", "azimuth", "dx", "dy", "dz", "height-diff",
                        "coordinate-x", "coordinate-y", "coordinate-z"])
        if k.startswith("coordinate"):
            s = f"<{k}> <id>{_id(rng)}</id>"
        elif k == "angle":
            s = f"<{k}> <from>{_id(rng)}</from> <left>{_id(rng)}</left> <right>{_id(rng)}</right>"
        else:
            s = f"<{k}> <from>{_id(rng)}</from> <to>{_id(rng)}</to>"
        s += f" <obs>{_f(rng)}</obs> <adj>{_f(rng)}</adj> <stdev>{_f(rng)}</stdev> <qrr>{_f(rng)}</qrr> <f>{_f(rng)}</f>"
        r = rng.random()
        if r < 0.6:
            s += f" <std-residual>{_f(rng)}</std-residual>"
            if r < 0.3:
                s += f" <err-obs>{_f(rng)}</err-obs> <err-adj>{_f(rng)}</err-adj>"
        L.append(s + f" </{k}>")
    L += ["</observations>", "</gama-local-adjustment>", ""]
    return "\n".join(L)


def gen_error_doc(rng):
    return (f'<gama-local-adjustment xmlns="{XMLNS}">\n<error category="{rng.choice(["gamaLocalParserError", "x"])}">\n'
            f'<description>bad\n things</description>\n<lineNumber>{_i(rng)}</lineNumber>\n</error>\n</gama-local-adjustment>\n')


TOK = re.compile(r"<[^>]*>|[^<]+")
TAG_NAMES = None


def tag_names(ctx):
    """the strings of Parser::tag() from the generated table, plus names that are not tags"""
    global TAG_NAMES
    if TAG_NAMES is None:
        txt = (ctx.verif / "lean" / "Gama" / "Gen" / "AdjResAutomaton.lean").read_text()
        m = re.search(r"def tagTable[^\n]*\n(.*?)\n\]", txt, re.S)
        TAG_NAMES = re.findall(r'\("([^"]+)", ', m.group(1)) + ["bogus", "x-y", "Xx"]
    return TAG_NAMES


def mutate(rng, doc, names):
    toks = TOK.findall(doc)
    tags = [i for i, t in enumerate(toks) if t.startswith("<") and not t.startswith("<?")]
    texts = [i for i, t in enumerate(toks) if not t.startswith("<") and t.strip()]
    r = rng.random()
    if r < 0.15 and tags:
        i = rng.choice(tags)
        del toks[i]
        what = "delete a tag"
    elif r < 0.3 and tags:
        i = rng.choice(tags)
        toks.insert(i, toks[i])
        what = "duplicate a tag"
    elif r < 0.5 and tags:
        i = rng.choice(tags)
        m = re.match(r"<(/?)([\w-]+)", toks[i])
        if m:
            toks[i] = toks[i].replace(m.group(2), rng.choice(names), 1)
        what = "rename a tag"
    elif r < 0.7 and texts:
        i = rng.choice(texts)
        toks[i] = rng.choice(["", "x", "1e", "1 1", "-", "+", "99999999999", "-99999999999", "2147483647", "1.5", "-1", " 7 ", "0x10", "1e999", "12abc"])
        what = "replace character data"
    elif r < 0.8:
        # element-level surgery on the covariance matrix: more / fewer <flt>
        fl = [i for i, t in enumerate(toks) if t == "<flt>"]
        if fl and rng.random() < 0.5:
            i = rng.choice(fl)
            del toks[i:i + 3]
            what = "remove one <flt>"
        else:
            j = next((i for i, t in enumerate(toks) if t == "</cov-mat>"), len(toks) - 1)
            toks[j:j] = ["<flt>", "1.5", "</flt>"] * rng.randrange(1, 4)
            what = "surplus <flt>"
    elif r < 0.9 and tags:
        i = rng.choice(tags)
        if not toks[i].startswith("</"):
            toks[i] = toks[i].rstrip("/>").rstrip(">") + f' {rng.choice(["xmlns", "category", "bogus", "epoch"])}="v"' + ("/>" if toks[i].endswith("/>") else ">")
        what = "add an attribute"
    else:
        k = rng.randrange(len(toks) + 1)
        toks = toks[:k]
        what = "truncate"
    return "".join(toks), what


def cov_variants(rng):
    """documents whose <cov-mat> announces dim/band and supplies k elements: every verdict class"""
    pre = (f'<gama-local-adjustment xmlns="{XMLNS}"><description/><network-general-parameters/>'
           "<network-processing-summary></network-processing-summary><coordinates><fixed/><approximate/><adjusted/><orientation-shifts/>")
    out = []
    vals = ["0", "1", "2", "3", "5", "-1", "x", "", " 2 ", "2147483647", "65536", "46341", "99999999999", "+", "1.0", "12abc"]
    for _ in range(60):
        d, b = rng.choice(vals), rng.choice(vals[:8])
        try:
            di, bi = int(d), int(b)
            cnt = di * (bi + 1) - bi * (bi + 1) // 2 if 0 <= bi < max(di, 1) and di < 100 else 0
        except ValueError:
            cnt = 0
        k = max(0, cnt + rng.choice([0, 0, 0, -1, 1, 2, -cnt]))
        body = f"<cov-mat><dim>{d}</dim><band>{b}</band>" + "".join(f"<flt>{_f(rng)}</flt>" for _ in range(k)) + "</cov-mat>"
        out.append((f"cov-mat dim={d!r} band={b!r} elements={k}", pre + body + "<original-index/></coordinates></gama-local-adjustment>"))
    out.append(("cov-mat without dim/band", pre + "<cov-mat></cov-mat></coordinates></gama-local-adjustment>"))
    out.append(("cov-mat with dim only", pre + "<cov-mat><dim>2</dim></cov-mat></coordinates></gama-local-adjustment>"))
    out.append(("flt with a child", pre + "<cov-mat><dim>2</dim><band>0</band><flt><x/></flt><flt>1</flt><flt>2</flt><flt>3</flt></cov-mat></coordinates></gama-local-adjustment>"))
    out.append(("two cov-mat", pre + "<cov-mat><dim>2</dim><band>1</band><flt>1</flt></cov-mat><cov-mat><dim>1</dim><band>0</band><flt>1</flt><flt>1</flt></cov-mat></coordinates></gama-local-adjustment>"))
    return out


def hexs(b):
    return b.hex() if b else "-"


def _par_cases(exe, cases, workers=8):
    """run_cases on `workers` slices in parallel (one process each); indices are mapped back"""
    import concurrent.futures
    if len(cases) < 4 * workers:
        return run_cases(exe, cases, timeout=3600)
    step = (len(cases) + workers - 1) // workers
    slices = [(a, cases[a:a + step]) for a in range(0, len(cases), step)]
    with concurrent.futures.ThreadPoolExecutor(max_workers=workers) as ex:
        res = list(ex.map(lambda sl: run_cases(exe, sl[1], timeout=3600), slices))
    outs, crashes = [], {}
    for (a, _), (o, c) in zip(slices, res):
        outs += o
        for k, v in c.items():
            crashes[a + k] = v
    return outs, crashes


def run_events(ctx, exe, docs):
    """docs: list of (label, bytes, k) -> (impl outputs, model outputs, harness crashes, driver crashes, model cases)"""
    cases = [[f"doc {hexs(d)} {k}"] for _, d, k in docs]
    impl, crashes = _par_cases(exe, cases)
    mcases = [[l[2:] for l in out if l.startswith("E ")] + ["end"] for out in impl]
    model, mcr = _par_cases(ctx.driver("drv_adjres"), mcases)
    return impl, model, crashes, mcr, mcases


def r_equal(a, b):
    """impl R line vs model R line: everything equal, the message of the model is a prefix of the implementation's"""
    x, y = a.split(), b.split()
    if len(x) != len(y) or x[:2] != y[:2] or x[3:] != y[3:]:
        return False
    if (x[2] == "-") != (y[2] == "-"):
        return False
    return x[2].startswith(y[2])


def run_stream(ctx, corr, bases=None):
    rng = ctx.rng
    t0 = time.time()
    d = ctx.build_gama(sanitize=True)
    objs = sorted(__import__("glob").glob(str(d / "CMakeFiles" / "libgama.dir" / "**" / "*.o"), recursive=True))
    exe = ctx.build_cpp("c11_adjres", [ctx.verif / "harness" / "c11_adjres.cpp"], includes=[ctx.verif / "harness"], libs=objs + ["-lexpat"])
    names = tag_names(ctx)
    docs = []          # (label, bytes, k, expect)
    corpus = ctx.verif / "corpus" / "C11"
    if corpus.exists():
        for f in sorted(corpus.glob("result-*.xml")):
            docs.append(("corpus " + f.name, f.read_bytes(), -2, CORPUS_EXPECT.get(f.name)))
            if f.name in CORPUS_EXPECT:
                docs.append(("corpus " + f.name + " one chunk", f.read_bytes(), -1, CORPUS_EXPECT.get(f.name)))
    for name, x, _h in (bases or []):
        docs.append((f"result of {name}", x, -2, "accept"))
        docs.append((f"result of {name} one chunk", x, -1, "accept"))
        xs = x.decode("utf-8", "replace")
        if len(x) < 60000:
            for _ in range(ctx.size(4, 60)):
                m, what = mutate(rng, xs, names)
                docs.append((f"result of {name}: {what}", m.encode(), rng.choice([-1, -2]), None))
    # ---- the whole (state, tag) table: every prefix of a document that visits every section, then every tag name
    full = gen_result(random.Random(7), size=2)
    fulls = [full, gen_error_doc(random.Random(7))]
    probes = []
    for fi, fdoc in enumerate(fulls):
        toks = TOK.findall(fdoc)
        cuts = [k for k in range(1, len(toks) + 1) if toks[k - 1].startswith("<") or toks[k - 1].strip()]
        pre_docs = [(f"prefix {fi}/{k}", "".join(toks[:k]).encode(), -1) for k in cuts]
        impl, _, _, _, _ = run_events(ctx, exe, pre_docs)
        seen = {}
        for (lab, b, _), out in zip(pre_docs, impl):
            R = [l for l in out if l.startswith("R ") and len(l.split()) == 8]
            if R:
                key = (R[-1].split()[1], b.rstrip().endswith(b">"))
                seen.setdefault(key, b)
        for (st, _), b in seen.items():
            pre = b.decode()
            for t in names + ["X", "Y", "Z"]:
                probes.append((f"probe state {st} <{t}>", pre + f"<{t}>"))
            probes.append((f"probe state {st} text", pre + "x"))
            probes.append((f"probe state {st} blank", pre + " \n"))
            probes.append((f"probe state {st} close", pre + "</a>"))
            opened = []
            for tk in TOK.findall(pre):
                m = re.match(r"<(/?)([\w-]+)[^>]*?(/?)>$", tk, re.S)
                if m and not tk.startswith("<?"):
                    if m.group(1):
                        opened.pop()
                    elif not m.group(3):
                        opened.append(m.group(2))
            tail = ""
            for nm in reversed(opened):
                tail += f"</{nm}>"
                probes.append((f"probe state {st} close x{tail.count('</')}", pre + tail))
    corr.count("adjres_probe_pairs_total", len(probes))
    if not ctx.thorough:
        isk = [bool(re.search(r"<(flt|band|cov-mat)>$", p[1]) or "close" in p[0] or " text" in p[0]) for p in probes]
        keep = [p for p, k in zip(probes, isk) if k]
        rest = [p for p, k in zip(probes, isk) if not k]
        probes = keep + rng.sample(rest, min(len(rest), 400))
    for lab, t in probes:
        docs.append((lab, t.encode(), -1, None))
    for lab, t in cov_variants(rng):
        docs.append((lab, t.encode(), -1, None))
    for i in range(ctx.size(6, 100)):      # NEGATIVE cases: <dim> exceeds the unknowns announced before <cov-mat>
        g = gen_result(rng, excess=rng.choice([1, 1, 2, 5, 1000, 2147483647]))
        docs.append((f"generated inconsistent {i}: dim exceeds the announced unknowns", g.encode(), rng.choice([-1, -2]),
                     ("refuse", gen_result.neg_line)))
    for i in range(ctx.size(30, 1500)):
        g = gen_result(rng) if rng.random() < 0.9 else gen_error_doc(rng)
        b = g.encode()
        docs.append((f"generated {i}", b, rng.choice([-1, -2]), "accept"))
        docs.append((f"generated {i} split", b, rng.randrange(len(b) + 1), "accept"))
        for _ in range(ctx.size(3, 6)):
            m, what = mutate(rng, g, names)
            docs.append((f"mutation of generated {i}: {what}", m.encode(), rng.choice([-1, -2, rng.randrange(len(m) + 1)]), None))
    impl, model, crashes, mcr, mcases = run_events(ctx, exe, [(l, b, k) for l, b, k, _ in docs])
    states = set()
    for i, (label, b, k, expect) in enumerate(docs):
        out = impl[i]
        R = [l for l in out if l.startswith("R ") and len(l.split()) == 8]      # a crash may cut the last line
        O = [l for l in out if l.startswith("O ")]
        for l in R:
            states.add(l.split()[1])
        corr.case(key=("adjres", sha("\n".join(mcases[i]))) if len(R) >= 6 else None,
                  sample={"stream": "adjres-events", "doc": label, "events": len(R), "outcome": O[:1]} if i < 2 else None)
        corr.count("adjres_docs")
        payload = {"stream": "adjres-events", "label": label, "doc": b.decode("utf-8", "replace") if len(b) < 30000 else None,
                   "doc_hex": b.hex() if len(b) < 30000 else None, "split": k}
        if i in crashes and _is_wall_timeout(crashes[i]):
            _wall_inconclusive(corr, f"adjres event stream batch starting at {label}")
            continue
        if i in crashes:
            rc, err = crashes[i]
            what = "does not terminate (10 s CPU-time limit)" if rc == 88 else "sanitizer report / abnormal exit rc=%s" % rc
            m = re.search(r"SUMMARY: \w+: (\S+)", err or "")
            fr = re.findall(r"#\d+ 0x[0-9a-f]+ in (\S+)", err or "")
            corr.fail(f"adjustment-results reader: {what}{': ' + m.group(1) if m else ''} [{label}]", payload,
                      next((x for x in fr if "LocalNetworkAdjustmentResults" in x), fr[0] if fr else "LocalNetworkAdjustmentResults::Parser"),
                      (err or "")[:2500])
            continue
        if i in mcr and _is_wall_timeout(mcr[i]):
            _wall_inconclusive(corr, f"adjres model driver batch starting at {label}")
            continue
        if i in mcr:
            corr.disagree("adjres-events", payload, out[-3:], model[i][-3:], "model driver crashed: " + mcr[i][1][-300:])
            continue
        if not O:
            corr.disagree("adjres-events", payload, out[-3:], model[i][-3:], "no outcome line from the harness")
            continue
        t = O[0].split()
        expat_err = t[1] == "parser" and int(t[3]) > 0
        corr.count("adjres_outcome_" + t[1] + ("_expat" if expat_err else ""))
        mR = [l for l in model[i] if l.startswith("R ")]
        mO = [l for l in model[i] if l.startswith("O ")]
        if len(mR) != len(R) or not all(r_equal(a, c) for a, c in zip(R, mR)):
            j = next((j for j in range(min(len(R), len(mR))) if not r_equal(R[j], mR[j])), min(len(R), len(mR)))
            corr.disagree("adjres-events", payload, {"event": mcases[i][j] if j < len(mcases[i]) else None, "index": j, "R": R[max(0, j - 2):j + 1]},
                          mR[max(0, j - 2):j + 1], "state / error / stack / iterators after an event differ")
        elif not expat_err and mO != O:
            corr.disagree("adjres-events", payload, O, mO, "outcome differs")
        # ---- oracle on the implementation's own answers
        if t[1] == "exc":
            corr.fail(f"adjustment-results reader: exception {t[2]} leaves an expat callback: diagnostic has no line [{label}]", payload,
                      "LocalNetworkAdjustmentResults::Parser", "\n".join(out[-4:]))
        if t[1] == "parser" and int(t[2]) < 1:
            corr.fail(f"adjustment-results reader: refused without a line number ({O[0]}) [{label}]", payload,
                      "LocalNetworkAdjustmentResults::Parser", "\n".join(out[-4:]))
        if t[1] == "ok" and any(l.split()[2] != "-" for l in R):
            corr.fail(f"adjustment-results reader: error() was recorded but the document was accepted (error lost) [{label}]", payload,
                      "LocalNetworkAdjustmentResults::Parser", "\n".join(l for l in R if l.split()[2] != "-"))
        for l in R:       # the write iterator never passes the end of the storage
            f = l.split()
            if f[4] != "-" and f[5] != "-" and int(f[4]) > int(f[5]):
                corr.fail(f"adjustment-results reader: tmp_i beyond tmp_e ({l}) [{label}]", payload, "LocalNetworkAdjustmentResults::Parser::flt", l)
                break
        if isinstance(expect, tuple) and expect[0] == "refuse":
            corr.count("adjres_negative_docs")
            if not (t[1] == "parser" and int(t[2]) == expect[1]):
                corr.fail(f"adjustment-results reader: <dim> exceeds the unknowns announced before <cov-mat> but the answer is {O[0]} "
                          f"instead of a refusal naming line {expect[1]} [{label}]", payload,
                          "LocalNetworkAdjustmentResults::Parser::band", "\n".join(out[-4:]))
        # ---- ROUND TRIP on the implementation (next to C11_reader_accepts_writer_output): a document written by the built gama-local
        # must be accepted by the real reader AND by the run model on the same events, and the numeric <cov-mat> hypothesis of the
        # theorem (RunDemand, line `D 1` of the driver) must hold on it
        if label.startswith("result of ") and expect == "accept":
            corr.count("adjres_roundtrip_gama_local_docs")
            mD = [l for l in model[i] if l.startswith("D ")]
            if t[1] == "ok" and mO == ["O ok"]:
                corr.count("adjres_roundtrip_accepted_by_reader_and_model")
            if mD == ["D 1"]:
                corr.count("adjres_roundtrip_cov_demand_holds")
            else:
                corr.fail(f"adjustment-results round trip: gama-local's own result does not meet the <cov-mat> hypothesis of "
                          f"C11_reader_accepts_writer_output (dim/band/unknowns at </band>, all elements stored at </cov-mat>): {mD} [{label}]",
                          payload, "LocalNetworkXML::coordinates", "\n".join(out[-4:]))
        if expect == "accept" and t[1] != "ok":
            corr.fail(f"adjustment-results reader refuses a grammar-derived / gama-local's own result ({O[0]}) [{label}]", payload,
                      "LocalNetworkAdjustmentResults::Parser", "\n".join(out[-4:]))
    corr.count("adjres_states_reached", len(states))
    if len(states) < 100:
        corr.inconclusive.append(f"adjustment-results event stream reached only {len(states)} parser states")
    ctx.log(f"adjres event correspondence: {len(docs)} documents, {len(states)} parser states reached, {time.time() - t0:.1f}s")
