"""C01 — every solver returns the weighted least-squares minimiser."""
import glob
import math
import tempfile
from lib.core import *
from lib import gen_ls as g
from lib import gen_net as gn
from lib.exact_verdict import XJudge

ID = "C01"
PROPS_FILES = sorted("Gama/Props/C01/" + Path(f).name for f in glob.glob(str(LEAN / "Gama/Props/C01/*.lean")))
LEAN_TARGETS = [f[:-5].replace("/", ".") for f in PROPS_FILES]
DRIVERS = ["drv_ls", "drv_netfacade"]
RULE = ("problems (A,b,C,S) from tools/lib/gen_ls.py (small-integer dense with planted dependent columns; levelling "
        "incidence graphs incl. disconnected; unit / diagonal / banded SPD covariance blocks; regularisation subsets "
        "that resolve the defect, decided exactly) x {env,chol,gso,svd} x {solver,adj}; non-trivial = defect>0 or "
        "correlated covariance; distinct by problem text + subset + algorithm + entry"
        " || netfacade: class LocalNetwork on generated .gkf networks (tools/lib/gen_net.py: 2D direction/distance, "
        "levelling, 3D with vectors; fixed or free with constrained points; sigma-apr in {1, 2.5, 10}; noise 1 sigma; "
        "clusters <obs>/<height-differences>/<vectors>/<coordinates> with a generated SPD band covariance matrix "
        "(band >= 1), most of them with an observation to a point that is not part of the network = passive inside the "
        "correlated cluster) x {env,chol,gso,svd}: the system project_equations() assembled (harness/c01_net.cpp, P "
        "lines) is given to the model of the facade (drv_netfacade) and x, residuals, v'Pv, defect, homogenised A and b "
        "are compared; exact rational oracle on the implementation's answers (v = Ax-b, A'Pv = 0 with P = m0^2 Sigma^-1 "
        "of the active principal sub-matrices, v'Pv, minimum norm over min_x); the cofactor accessors are compared too "
        "(all pairs qxx(i,j) and qbb(i,j), weight_obs, stdev_obs, wcoef_res under the configured sigma-act, each entry "
        "relative to its natural size) with an exact oracle on the implementation's own numbers: Q=(qxx) symmetric, "
        "NQN = N, QNQ = Q for N = A'PA; B=(qbb) symmetric, = HQH' for the homogenised H, BB = B, diagonal in [0,1], "
        "trace = n - defect; weight_obs = m0^2/Sigma_ii at the observation's own position in its cluster, wcoef_res = "
        "max(0,(1-B_ii)/weight_obs), stdev_obs^2 m0^2 = m0act^2 B_ii Sigma_ii; non-trivial = correlated cluster or "
        "defect>0; distinct by gkf text + algorithm")
LEVEL_TEXT = ("Lean 4 theorems about executable models of the four solvers and of BOTH entry points, class Adj (gama-g3) "
              "and class LocalNetwork (gama-local: prepareProjectEquations = activeCov/m0^2, CovMat::cholDec + "
              "Adj::choldec, forward substitution per cluster; the sparse hand-over to AdjInputData; vyrovnani_'s "
              "back-transformed residuals r = L v and suma_pvv): the returned x, v satisfy "
              "v = Ax-b and the normal equations A'Pv = 0 (hence minimal v'Pv), x has minimal S-norm among minimisers, "
              "reported sum of squares = v'Pv — for the ORIGINAL system (LocalNetwork: P = m0^2 Sigma^-1, Sigma the "
              "covariance of the active observations as given in the input) — in exact arithmetic over an ordered field, "
              "for all sizes/bands/defects, "
              "under the property's own hypothesis that every tested pivot is exactly 0 or at least the tolerance. "
              "Models tied to the C++ by differential correspondence (Float with tolerance) plus an exact rational "
              "oracle on the implementation's answers.")
LEVEL_NOTE = ("The algebra of SVD::svd is proved (Props/C01/SvdDecomp.lean: every Householder / Givens "
              "step of the transliteration Svd.decompose is an orthogonal transformation, so whenever its run returns, "
              "A = U diag(W) V', V'V = 1, the columns of U with W != 0 are orthonormal, W >= 0), and every svd theorem is "
              "stated without a factorisation certificate (C01_svd_decompose, C01_svd_solve_decompose, C01_adj_svd_decompose, "
              "C01_net_svd_decompose: hypothesis = the run returned and the returned singular values are 0 or above "
              "W_tol*max W; from the input side that premise follows from SingGap A P tau = every eigenvalue of A'PA is 0 or above "
              "tau^2 x every eigenvalue: C01_singgap_unambiguous, so svd joins the one-hypothesis theorems C01_adj_of_gap_all, "
              "C01_net_of_gap_all, C01_net_of_inputgap, Props/C01/SvdGap.lean, InputGap.lean); what the per-run numeric certificate (tools/props/svd_cert.py) still stands for is that the "
              "double-precision run converges and that the elements it treats as negligible are negligible. "
              + "What remains outside the theorems, precisely: (1) IEEE rounding and libm (theorems over exact ordered fields); (2) convergence of the QR iteration of SVD::svd = that the model Svd.decompose RETURNS (it throws NoConvergence after 30 sweeps per singular value; in exact arithmetic it reaches an exact zero only for special inputs); (3) the exact-zero reading of every negligibility / rank test: each solver theorem asks that every quantity its run compares with a tolerance is exactly 0 or above it (FactUnambiguous / SolveUnambiguous, UnambiguousF, Gso.Unambiguous, Svd.Unambiguous of the returned singular values; from an exact gap of A'PA: Props/C01/Gap.lean, Gap2.lean, SvdGap.lean; ONE input-side hypothesis per facade theorem and algorithm, InputGap alg A P S tau = RankGap + thresholds for env/chol/gso, SingGap for svd: C01_net_of_inputgap, C01_adj_of_inputgap, and Net/AdjM.SolverHyp derived from it); (4) that the codes' ABSOLUTE tolerances (sqrt(eps) pivot tests of Envelope/BlockDiagonal/AdjCholDec) do not scale with the weights is a property of the real code recorded as known findings F22, C09-F2, C10-TINY, C19-envelope-defect-undercount, not something the theorems cover. "
              + "The LocalNetwork entry point is "
              "covered from the assembled system on (Props/C01/NetFacade.lean, stream netfacade on real LocalNetwork "
              "objects; the cofactor accessors qxx/qbb/weight_obs/stdev_obs/wcoef_res are in the model and the stream, their "
              "theorems are C03_net_cofactors, C02_same_net, C08_net_datum, Props/C09Net.lean) and, since rounds 3c-8, from the network on: "
              "project_equations() is an executed model (Model/ProjectEquations.lean, drv_pe, stream pe of C05) whose outputs are theorems "
              "(Props/C01/ProjectEquations.lean: rows in range, clusters partition the rows, the min_x list, every element of unknowns_ "
              "written once; an observation that names one point in two roles - gama-local accepts from == to - gives a row that stores one column "
              "index twice: since round 11/12 that needs no hypothesis (NoAlias is gone from every statement): RowsOK is the range condition only and the "
              "coefficients add up in Problem.dense exactly as in project_equations (52e994b), class Adj (a7902736), Homogenization::run (6d0f7107) and "
              "Envelope::set), composed in C01_net_of_project_equations_gap (network -> weighted LS solution for "
              "env/chol/gso from RankGap on (A, m0^2 Sigma^-1, min_x) alone) and C01_pe_matrix_is_jacobian (the matrix of that conclusion "
              "is C05's Jacobian, carrier R); a joint witness over R at LocalNetwork level (correlated cluster with an excluded "
              "observation, defect 1; Props/C01/NetWitness.lean, InputGap.lean) meets all hypotheses at once. The linearisation "
              "coefficients are C05's, revision C14's; the repeat loop of vyrovnani_ that removes points with huge covariances is C20's.")
TECHNIQUE = "Lean 4 proof (ordered-field algebra, induction over the factorisation loops) + model/implementation correspondence"
MODELLED = ["IEEE rounding (proofs over exact ordered fields)", "SVD::svd: convergence of the QR iteration and its negligibility tests under rounding (numeric certificate per run; the algebraic part is proved: C01_svd_decompose_cert)",
            "memory management of the solver objects",
            "LocalNetwork: the cluster loop of prepareProjectEquations (ind_0 += N) is written with block index/offset "
            "lookup (AdjM.locate); caching flags tst_rov_opr_/tst_vyrovnani_ (C04)"]
ASSUMPTIONS = ["rank numerically unambiguous: generator keeps exact small-integer/dyadic data so every pivot is 0 or O(1)"]
TRUSTED = ["tools/lib/exact_verdict.py + gen_ls.reference: decide ls cases whose x answer misses the fixed 1e-9 comparison on a "
           "demonstrably ill-conditioned problem (both sides against the exact solution; capped, counted)"]

ALGS = ["env", "chol", "gso", "svd"]
SRC = ["lib/gnu_gama/adj/adj.cpp", "lib/gnu_gama/adj/icgs.cpp", "lib/gnu_gama/adj/adj_input_data.cpp"]


def harness(ctx):
    return ctx.build_cpp("adj_harness", [ctx.verif / "harness" / "adj_harness.cpp"] + [ctx.repo / s for s in SRC],
                         includes=[ctx.verif / "harness"])


def ls_quota(nprob, thorough=False):
    """guaranteed problems on top of the historical mix: free-network Jacobians (datum defect 3 and 4, every kind of
    tools/lib/gen_ls.py::FREE_KINDS) and two-part problems, each with PROPER regularisation subsets that resolve the defect"""
    return {"free": max(8, nprob // 6), "parts": max(4, nprob // 12)} if thorough else {"free": 8, "parts": 4}


def make_cases(ctx, nprob, quota=None):
    cases, meta = [], []
    quota = ls_quota(nprob, ctx.thorough) if quota is None else quota
    probs = []
    for k in range(nprob):
        # every third problem has a planted defect >= 2 (several kernel vectors: pivoting / mutual orthogonalisation
        # of the null-space basis only matters there)
        p = g.gen_problem(ctx.rng, family="dense", min_defect=2) if k % 3 == 2 else g.gen_problem(ctx.rng)
        probs.append((p, [s for s in g.gen_subsets(ctx.rng, p, 2) if s[1]][:2]))
    for k in range(quota.get("free", 0)):
        p = g.gen_problem(ctx.rng, family="free-" + g.FREE_KINDS[k % len(g.FREE_KINDS)], correlated=(k % 3 == 2))
        probs.append((p, g.gen_proper_subsets(ctx.rng, p, 3, 0)))
    for k in range(quota.get("parts", 0)):
        p = g.gen_problem(ctx.rng, family="parts", correlated=(k % 3 == 2))
        probs.append((p, g.gen_proper_subsets(ctx.rng, p, 2, 0)))
    for p, subs in probs:
        for S, _ok in subs:
            ref = None
            for alg in ALGS:
                for entry in ("solver", "adj"):
                    if entry == "solver" and alg != "env" and not p["unit_cov"]:
                        continue
                    reg = "all" if (len(S) == p["n"] and ctx.rng.random() < 0.5) else S
                    lines = g.problem_lines(p, reg) + [f"new {alg} {entry}", "x", "r", "rtr", "defect"]
                    cases.append(lines)
                    meta.append((p, S, alg, entry))
                    if entry == "adj" and ctx.rng.random() < 0.5:
                        # the same Adj object solves again with another algorithm (gama-g3 keeps one Adj and its
                        # work matrices across algorithm switches and linearisation passes): same problem, so the
                        # answers after the switch must meet the same specification
                        alg2 = ctx.rng.choice([a for a in ALGS if a != alg])
                        cases.append(lines + [f"set_alg {alg2}", "x", "r", "rtr", "defect"])
                        meta.append((p, S, f"{alg}>{alg2}", entry))
    return cases, meta


def vec(line):
    t = line.split()
    return [hex2float(x) for x in t[1:]] if t and t[0] in ("vec", "val") else None


def oracle(p, S, out, ref):
    """the property evaluated on the implementation's answers against the exact rational solution"""
    bad = []
    if len(out) < 6 or out[0] != "ok" or out[1] != "ok":
        return ["harness protocol: " + " | ".join(out[:3])]
    x, r, rtr = vec(out[2]), vec(out[3]), vec(out[4])
    if x is None or r is None or rtr is None:
        return ["solver threw or returned nothing: " + " | ".join(out[2:6])]
    sc = 1.0 + max([abs(float(v)) for v in ref["x"]] + [abs(float(v)) for v in ref["v"]] + [0.0])
    tol = 1e-8 * sc
    dx = max(abs(a - float(b)) for a, b in zip(x, ref["x"])) if x else 0.0
    dr = max(abs(a - float(b)) for a, b in zip(r, ref["v"])) if r else 0.0
    if len(x) != p["n"] or dx > tol:
        bad.append(f"x deviates from the exact minimum-S-norm minimiser by {dx:.3g}")
    if len(r) != p["m"] or dr > tol:
        bad.append(f"residuals deviate from A x - b of the exact solution by {dr:.3g}")
    if abs(rtr[0] - float(ref["rtr"])) > 1e-8 * (1 + abs(float(ref["rtr"]))):
        bad.append(f"sum of squares {rtr[0]!r} != v'Pv {float(ref['rtr'])!r}")
    if out[5] != f"int {p['defect']}":
        bad.append(f"defect reported '{out[5]}' but n - rank A = {p['defect']}")
    return bad


def corpus_cases(ctx, corr, exe):
    """minimised past cases (corpus/C01/*.ops): raw protocol lines, model vs implementation only"""
    d = ctx.verif / "corpus" / "C01"
    files = sorted(d.glob("*.ops")) if d.exists() else []
    cases = [[l for l in f.read_text().splitlines() if l.strip() and not l.startswith("#") and not l.startswith("case ")] for f in files]
    if not cases:
        return
    impl, crashes = run_cases(exe, cases)
    model, _ = run_cases(ctx.driver("drv_ls"), cases)
    for i, f in enumerate(files):
        corr.case(key="corpus:" + f.name)
        corr.count("corpus_cases")
        if i in crashes:
            corr.fail("corpus case crashes the solver", {"stream": "ls", "ops": cases[i], "file": f.name}, "corpus", crashes[i][1])
        elif len(impl[i]) != len(model[i]) or any(b != "not-modelled" and not lines_equal(a, b, rtol=1e-9, atol=1e-9)
                                                  for a, b in zip(impl[i], model[i])):
            corr.disagree("ls-corpus", cases[i], impl[i], model[i], f.name)


def correspond(ctx, corr):
    exe = harness(ctx)
    corpus_cases(ctx, corr, exe)
    cases, meta = make_cases(ctx, ctx.size(75, 1500))
    impl, crashes = run_cases(exe, cases)
    model, _ = run_cases(ctx.driver("drv_ls"), cases)
    refs = {}
    judge = XJudge(corr, "ls_x")
    for i, (c, (p, S, alg, entry)) in enumerate(zip(cases, meta)):
        nontrivial = p["defect"] > 0 or not p["unit_cov"]
        corr.case(key=(" ".join(c)) if nontrivial else None,
                  sample={"ops": c, "impl": impl[i]} if i in (0, 7) else None)
        corr.count(f"alg_{alg}_{entry}")
        corr.count("singular" if p["defect"] else "regular")
        if p["defect"] >= 2:
            corr.count("defect_ge2")
        corr.count(f"cases_defect_{p['defect']}")
        if p["defect"] >= 3 and len(S) < p["n"]:
            corr.count("cases_defect_ge3_proper_subset")
        corr.count("correlated" if not p["unit_cov"] else "unit_cov")
        corr.count("family_" + p["family"])
        if i in crashes:
            corr.fail("solver crashed / sanitizer report", {"stream": "ls", "ops": c}, f"{alg}/{entry}", crashes[i][1])
            continue
        # model <-> implementation
        nm, miss = False, []
        for k, (a, b) in enumerate(zip(impl[i], model[i])):
            if b == "not-modelled":
                nm = True
                continue
            if not lines_equal(a, b, rtol=1e-9, atol=1e-9):
                miss.append(k)
        if miss:
            # a miss only in an x line (out[2]; out[7] after set_alg on the same object): wrong, or rounding on an
            # ill-conditioned problem?  decided against the EXACT solution (tools/lib/exact_verdict.py); any other miss
            # is a disagreement as before
            okj, why = judge.misses(p, S, impl[i], model[i], miss, x_at=(2, 7) if ">" in alg else (2,))
            if not okj:
                corr.disagree("ls", c, impl[i], model[i], f"{alg}/{entry}" + (": " + why if why else ""))
        elif len(impl[i]) != len(model[i]):
            corr.disagree("ls", c, impl[i], model[i], "length")
        corr.count("not_modelled" if nm else "modelled")
        # oracle on the implementation
        key = (id(p), tuple(S))
        if key not in refs:
            refs[key] = g.reference(p, S)
        bad = oracle(p, S, impl[i], refs[key])
        if not bad and ">" in alg and len(impl[i]) >= 11:      # answers after set_alg on the same object
            bad = ["after set_alg: " + b for b in oracle(p, S, impl[i][:2] + impl[i][7:11], refs[key])]
        if bad:
            corr.fail("; ".join(bad), {"stream": "ls", "ops": c, "subset": S}, f"{alg}/{entry}", " | ".join(impl[i]))
    judge.finish(len(cases))
    tot = corr.stats.get("singular", 0) + corr.stats.get("regular", 0)
    if tot and corr.stats.get("singular", 0) < 0.25 * tot:
        corr.inconclusive.append("fewer than 25% singular problems")
    if tot and corr.stats.get("defect_ge2", 0) < 0.15 * tot:
        corr.inconclusive.append("fewer than 15% problems with defect >= 2")
    for k, need in (("cases_defect_3", 60), ("cases_defect_4", 60), ("cases_defect_ge3_proper_subset", 120)):
        if tot and corr.stats.get(k, 0) < need:
            corr.inconclusive.append(f"ls case mix: {k} = {corr.stats.get(k, 0)} < {need}")


# ======================================================================================= netfacade
# Second entry point: class LocalNetwork (gama-local).  harness/c01_net.cpp adjusts a generated network with the
# real class and dumps the system project_equations() assembled ("P " lines) and the answers ("R " lines); the
# model of the facade (lean/Gama/Model/NetFacade.lean through drv_netfacade) answers on the same P lines.

NF_ALG_NAME = {"env": "envelope", "chol": "cholesky", "gso": "gso", "svd": "svd"}
NF_SIGMAS = (1, 2.5, 10)


def net_harness(ctx):
    for attempt in range(3):
        try:
            d = ctx.build_gama(sanitize=True, targets=("gama-local",))
            break
        except BuildError as e:
            if attempt == 2 or "No such file or directory" not in e.log:
                raise
            time.sleep(3 + 5 * attempt)
    objs = sorted(str(p) for p in (d / "CMakeFiles" / "libgama.dir").rglob("*.o"))
    if not objs:
        raise BuildError("c01_net", "no libgama objects under " + str(d))
    return ctx.build_cpp("c01_net", [ctx.verif / "harness" / "c01_net.cpp"], libs=objs + ["-lexpat"])


# ----------------------------------------------------------------------------- generators (all from rng)

def _nf_spd(rng, sds, band):
    """SPD band covariance matrix C = D L L' D / 4: L lower triangular with bandwidth `band` and diagonal 2..3,
    D = diag(sds) (the standard deviations in gama's input units: mm, cc).  Returns (band, matrix of floats)."""
    n = len(sds)
    band = max(1, min(band, n - 1)) if n > 1 else 0
    L = [[Fraction(0)] * n for _ in range(n)]
    for i in range(n):
        L[i][i] = Fraction(rng.choice((2, 2, 3)))
        for j in range(max(0, i - band), i):
            L[i][j] = Fraction(rng.choice((-2, -1, -1, 0, 1, 1, 2)), 2)
    if band:
        i = rng.randrange(band, n)
        if L[i][i - band] == 0:
            L[i][i - band] = Fraction(rng.choice((-1, 1)), 2)
    d = [Fraction(x) for x in sds]
    C = [[float(sum(L[i][k] * L[j][k] for k in range(n)) * d[i] * d[j] / 4) for j in range(n)] for i in range(n)]
    return band, C


def _nf_band(rng, n):
    return rng.choice([1, 1, 2, 3, n - 1, rng.randint(1, max(1, n - 1))])


def _nf_ghost_point(rng, net, mode):
    """the point G every passive observation refers to: not part of the network at all ("undefined") or listed with
    coordinates but neither fix nor adj ("unmarked": unused)"""
    g = {"x": rng.uniform(100, 900), "y": rng.uniform(100, 900), "z": rng.uniform(100, 300)}
    if mode == "unmarked":
        p = {"status": "none", "approx": True}
        if net["dim"] in (2, 3):
            p.update(x=g["x"], y=g["y"])
        if net["dim"] in (1, 3):
            p.update(z=g["z"])
        net["points"]["G"] = p
    return g


def _nf_correlate_obs(rng, net, o, ghost, gpt):
    """an <obs> cluster of make_network gets a band covariance matrix; with `ghost` one more observation (to G)"""
    items = o["items"]
    if ghost:
        s = net["points"][o["from"]]
        if rng.random() < 0.5:
            it = {"t": "distance", "to": "G", "val": gn.dist2(s, gpt), "stdev": 5.0}
        else:
            it = {"t": "direction", "to": "G", "val": (gn.bearing(s, gpt) * gn.GON - o["orient"]) % 400.0, "stdev": 10.0}
        items.insert(rng.randint(0, len(items)), it)
    sds = [it["stdev"] for it in items]
    for it in items:
        del it["stdev"]
    o["band"], o["cov"] = _nf_spd(rng, sds, _nf_band(rng, len(items)))


def _nf_plane(rng, free, corr, ghost, mode):
    npts = rng.randint(4, 6)
    net = gn.make_network(rng, npts=npts, dim=2, nfixed=2, kinds=("direction", "distance"), density=rng.choice((0.3, 0.5)),
                          noise=1.0, free=free)
    ids = [p for p in net["points"]]
    if free and rng.random() < 0.5:                    # only some of the points carry the regularisation
        keep = set(rng.sample(ids, rng.randint(2, npts - 1)))
        for p in ids:
            if p not in keep:
                net["points"][p]["status"] = "adj"
    adjustable = [p for p in ids if net["points"][p]["status"] != "fix"]
    gpt = _nf_ghost_point(rng, net, mode) if ghost else None
    if corr:
        what = rng.choice(("obs", "obs", "coords", "both"))
        g_left = ghost
        if what in ("obs", "both"):
            k = rng.randint(1, 2)
            for o in rng.sample(net["obs"], k):
                _nf_correlate_obs(rng, net, o, g_left, gpt)
                g_left = False
        if what in ("coords", "both"):
            items = []
            for p in rng.sample(adjustable, rng.randint(1, min(3, len(adjustable)))):
                t = net["points"][p]
                items.append({"id": p, "x": t["x"] + rng.gauss(0, 3e-3), "y": t["y"] + rng.gauss(0, 3e-3)})
            if g_left or (ghost and rng.random() < 0.5):
                items.insert(rng.randint(0, len(items)), {"id": "G", "x": gpt["x"], "y": gpt["y"]})
            sds = [rng.choice((2, 3, 5)) for _ in range(2 * len(items))]
            band, cov = _nf_spd(rng, sds, _nf_band(rng, len(sds)))
            net["obs"].insert(rng.randint(0, len(net["obs"])), {"kind": "coords", "items": items, "cov": cov, "band": band})
    return net


def _nf_lev(rng, free, corr, ghost, mode):
    npts = rng.randint(4, 7)
    net = gn.levelling_network(rng, npts=npts, nfixed=1, extra=rng.randint(2, 4), noise=1.0, free=free)
    ids = list(net["points"])
    if free and rng.random() < 0.5:
        keep = set(rng.sample(ids, rng.randint(1, npts - 1)))
        for p in ids:
            if p not in keep:
                net["points"][p]["status"] = "adj"
    gpt = _nf_ghost_point(rng, net, mode) if ghost else None
    if corr:
        g_left = ghost
        base = net["obs"][0]
        if rng.random() < 0.5:                       # the cluster of the whole network becomes correlated
            if g_left and rng.random() < 0.5:
                a = rng.choice(ids)
                base["items"].insert(rng.randint(0, len(base["items"])),
                                     {"from": a, "to": "G", "val": gpt["z"] - net["points"][a]["z"]})
                g_left = False
            for it in base["items"]:
                it.pop("dist", None)
            sds = [rng.choice((1, 1.5, 2, 3)) for _ in base["items"]]
            base["band"], base["cov"] = _nf_spd(rng, sds, _nf_band(rng, len(sds)))
        if g_left or rng.random() < 0.7 or not base.get("cov"):
            items = []
            for _ in range(rng.randint(2, 5)):
                a, b = rng.sample(ids, 2)
                items.append({"from": a, "to": b, "val": net["points"][b]["z"] - net["points"][a]["z"] + rng.gauss(0, 1e-3)})
            if g_left:
                a = rng.choice(ids)
                it = {"from": a, "to": "G", "val": gpt["z"] - net["points"][a]["z"]}
                if rng.random() < 0.5:
                    it = {"from": "G", "to": a, "val": -it["val"]}
                items.insert(rng.randint(0, len(items)), it)
            sds = [rng.choice((1, 1.5, 2, 3)) for _ in items]
            band, cov = _nf_spd(rng, sds, _nf_band(rng, len(sds)))
            net["obs"].insert(rng.randint(0, len(net["obs"])), {"kind": "hdiffs", "items": items, "cov": cov, "band": band})
    return net


def _nf_space(rng, free, corr, ghost, mode):
    npts = rng.randint(4, 5)
    net = gn.make_network(rng, npts=npts, dim=3, nfixed=2, kinds=("direction", "distance", "dh", "vector"),
                          density=0.3, noise=1.0, free=free)
    ids = list(net["points"])
    if free and rng.random() < 0.5:
        keep = set(rng.sample(ids, rng.randint(2, npts - 1)))
        for p in ids:
            if p not in keep:
                net["points"][p]["status"] = "adj"
    gpt = _nf_ghost_point(rng, net, mode) if ghost else None
    vec = [o for o in net["obs"] if o["kind"] == "vectors"][0]
    hd = [o for o in net["obs"] if o["kind"] == "hdiffs"][0]
    if corr:
        if ghost:
            ida = rng.choice(ids)
            a = net["points"][ida]
            it = {"from": ida, "to": "G", "dx": gpt["x"] - a["x"], "dy": gpt["y"] - a["y"], "dz": gpt["z"] - a["z"]}
            vec["items"].insert(rng.randint(0, len(vec["items"])), it)
        sds = [rng.choice((2, 3, 4)) for _ in range(3 * len(vec["items"]))]
        vec["band"], vec["cov"] = _nf_spd(rng, sds, rng.choice((1, 2, 2, 5, len(sds) - 1)))
        if rng.random() < 0.4:
            if ghost and rng.random() < 0.5:
                a = rng.choice(ids)
                hd["items"].insert(rng.randint(0, len(hd["items"])),
                                   {"from": a, "to": "G", "val": gpt["z"] - net["points"][a]["z"], "stdev": 1.0})
            sds = [it.pop("stdev") for it in hd["items"]]
            hd["band"], hd["cov"] = _nf_spd(rng, sds, _nf_band(rng, len(sds)))
    return net


def gen_facade_network(rng, free=None, corr=None, ghost=None):
    """one network as .gkf text + what the generator intended (flags not given are drawn from rng)"""
    fam = rng.choice(("plane", "plane", "lev", "lev", "space"))
    free = (rng.random() < 0.5) if free is None else free
    corr = (rng.random() < 0.9) if corr is None else corr
    ghost = corr and ((rng.random() < 0.72) if ghost is None else ghost)
    mode = rng.choice(("undefined", "unmarked"))
    net = {"plane": _nf_plane, "lev": _nf_lev, "space": _nf_space}[fam](rng, free, corr, ghost, mode)
    unresolved = False
    if fam == "plane" and free and rng.random() < 0.25:
        # a free network whose regularisation list cannot resolve the defect (one constrained point, or none):
        # every solver refuses with BadRegularization, and so must the model
        cons = [p for p, v in net["points"].items() if v["status"] == "con"]
        for p in cons[rng.randint(0, 1):]:
            net["points"][p]["status"] = "adj"
        unresolved = True
    sigma = rng.choice(NF_SIGMAS)
    net["params"]["sigma-apr"] = sigma
    net["params"]["sigma-act"] = rng.choice(("aposteriori", "apriori"))
    meta = {"family": fam, "free": free, "corr": corr, "ghost": ghost, "ghost_mode": mode if ghost else None, "sigma": sigma,
            "unresolved": unresolved}
    text = gn.to_gkf(net, description="C01 netfacade " + " ".join(f"{k}={v}" for k, v in meta.items()))
    return text, meta


def gen_facade_networks(rng, count):
    """stratified: 56% free, 90% with a correlated cluster, 68% with a passive observation inside one"""
    def flags(share):
        k = int(math.ceil(share * count))
        l = [True] * k + [False] * (count - k)
        rng.shuffle(l)
        return l
    frees, ghosts, plain = flags(0.56), flags(0.68), flags(0.10)
    out = []
    for i in range(count):
        corr = ghosts[i] or not plain[i]
        out.append(gen_facade_network(rng, frees[i], corr, ghosts[i]))
    return out


# ----------------------------------------------------------------------------- exact oracle on the answers

def _nf_fr(tok):
    return Fraction(hex2float(tok))


def nf_parse_problem(P):
    """the P lines (prefix stripped) -> dict; every double converted exactly"""
    pr = {"rows": [], "clusters": [], "minx": [], "rhs": None}
    for l in P:
        t = l.split()
        if t[0] == "net":
            pr["m"], pr["n"], pr["m0"] = int(t[1]), int(t[2]), _nf_fr(t[3])
        elif t[0] == "row":
            k = int(t[1])
            pr["rows"].append([(int(t[2 + 2 * j]), _nf_fr(t[3 + 2 * j])) for j in range(k)])
        elif t[0] == "rhs":
            pr["rhs"] = [_nf_fr(x) for x in t[1:]]
        elif t[0] == "cluster":
            dim, band, nobs = int(t[1]), int(t[2]), int(t[3])
            pr["clusters"].append({"dim": dim, "band": band, "active": [x == "1" for x in t[4:4 + nobs]],
                                   "buf": t[4 + nobs:]})
        elif t[0] == "minx":
            pr["minx"] = [int(x) for x in t[2:2 + int(t[1])]]
        elif t[0] == "act":
            pr["act"] = t[1]
    return pr


def nf_features(pr):
    corr = passive = False
    for c in pr["clusters"]:
        if c["band"] >= 1 and any(c["active"]):
            corr = True
            if not all(c["active"]):
                passive = True
    return corr, passive


def _nf_cov_entry(c, i, j):
    """element (i,j), 0-based, of the symmetric band matrix stored packed: row r holds the diagonal and the next
    min(band, dim-1-r) elements of the upper band"""
    if i > j:
        i, j = j, i
    if j - i > c["band"]:
        return Fraction(0)
    b, d = c["band"], c["dim"]
    off = c.setdefault("_off", None)
    if off is None:
        off, s = [], 0
        for r in range(d):
            off.append(s)
            s += min(b, d - 1 - r) + 1
        off.append(s)
        c["_off"] = off
    return _nf_fr(c["buf"][off[i] + (j - i)])


def _nf_inverse(M):
    """exact inverse by Gauss-Jordan elimination; None if singular"""
    n = len(M)
    W = [list(M[i]) + [Fraction(1 if i == j else 0) for j in range(n)] for i in range(n)]
    for c in range(n):
        p = next((r for r in range(c, n) if W[r][c] != 0), None)
        if p is None:
            return None
        W[c], W[p] = W[p], W[c]
        pv = W[c][c]
        W[c] = [v / pv for v in W[c]]
        for r in range(n):
            if r != c and W[r][c] != 0:
                f = W[r][c]
                W[r] = [a - f * b for a, b in zip(W[r], W[c])]
    return [row[n:] for row in W]


def nf_weights(pr):
    """P = m0^2 * blockdiag(Sigma_k^-1), Sigma_k = principal sub-matrix of cluster k's covariance matrix at its active
    observations; returned as list of (row offset, dense block of Fractions) — or a string if the description is unusable"""
    blocks, off = [], 0
    m02 = pr["m0"] * pr["m0"]
    for c in pr["clusters"]:
        idx = [i for i, a in enumerate(c["active"]) if a]
        if not idx:
            continue
        if c["dim"] != len(c["active"]):
            return f"cluster with {len(c['active'])} observations has a {c['dim']}x{c['dim']} covariance matrix"
        if c["band"] == 0:
            inv = [[(m02 / _nf_cov_entry(c, i, i)) if i == j else Fraction(0) for j in idx] for i in idx]
        else:
            S = [[_nf_cov_entry(c, i, j) for j in idx] for i in idx]
            inv = _nf_inverse(S)
            if inv is None:
                return "singular covariance block"
            inv = [[m02 * v for v in row] for row in inv]
        blocks.append((off, inv))
        off += len(idx)
    if off != pr["m"]:
        return f"active observations {off} != rows {pr['m']}"
    return blocks


def _nf_kernel(A, m, n):
    """numerical kernel of A (floats; complete pivoting on column-scaled A).  Returns (basis or None if the rank is
    not clear-cut, relative pivots)"""
    cs = [max([abs(A[i][j]) for i in range(m)] + [0.0]) or 1.0 for j in range(n)]
    M = [[A[i][j] / cs[j] for j in range(n)] for i in range(m)]
    cols = list(range(n))
    piv = []
    r = 0
    while r < min(m, n):
        best, bi, bj = 0.0, -1, -1
        for i in range(r, m):
            Mi = M[i]
            for jj in range(r, n):
                v = abs(Mi[cols[jj]])
                if v > best:
                    best, bi, bj = v, i, jj
        if bi < 0:
            break
        first = piv[0] if piv else best
        if best < 1e-7 * first:
            if best > 1e-11 * first:
                return None, piv + [best], cs
            break
        piv.append(best)
        M[r], M[bi] = M[bi], M[r]
        cols[r], cols[bj] = cols[bj], cols[r]
        c = cols[r]
        pv = M[r][c]
        M[r] = [v / pv for v in M[r]]
        for i in range(m):
            if i != r and M[i][c] != 0.0:
                f = M[i][c]
                Mr = M[r]
                M[i] = [a - f * b for a, b in zip(M[i], Mr)]
        r += 1
    rank = r
    Z = []
    for jj in range(rank, n):
        z = [0.0] * n
        z[cols[jj]] = 1.0
        for k in range(rank):
            z[cols[k]] = -M[k][cols[jj]]
        Z.append([z[j] / cs[j] for j in range(n)])
    return Z, piv, cs


from operator import mul as _nf_opmul  # noqa: E402

NF_COF_TAGS = ("qxx", "qbb", "wobs", "sobs", "wres")


def _nf_floats(toks):
    return [hex2float(t) for t in toks] if toks and all(is_hex(t) for t in toks) else None


def nf_cofactor_lines(R):
    """the cofactor lines of an answer: {"qxx": rows, "qbb": rows, "wobs"/"sobs"/"wres": vector} of floats; a line that
    is `R <tag> [i] throw <Kind>` (or otherwise not numeric) is kept as its text"""
    out = {"qxx": {}, "qbb": {}, "hA": {}}
    for l in R:
        t = l.split()
        if len(t) < 2:
            continue
        if t[1] in ("qxx", "qbb", "hA") and len(t) >= 3 and t[2].isdigit():
            v = _nf_floats(t[3:])
            out[t[1]][int(t[2])] = v if v is not None else " ".join(t[3:])
        elif t[1] in ("wobs", "sobs", "wres"):
            v = _nf_floats(t[2:])
            out[t[1]] = v if v is not None else " ".join(t[2:])
    return out


def _nf_square(rows, k):
    """dict i -> row  ->  k x k matrix of floats, or a string saying why not"""
    M = []
    for i in range(1, k + 1):
        r = rows.get(i)
        if r is None:
            return f"row {i} missing"
        if isinstance(r, str):
            return f"row {i}: {r}"
        if len(r) != k:
            return f"row {i} has {len(r)} entries, expected {k}"
        if not all(math.isfinite(v) for v in r):
            return f"row {i} has a non-finite entry"
        M.append(r)
    return M


def _nf_ints(M):
    """matrix of Fractions -> (matrix of ints, common denominator d) with M = ints/d: products of such matrices are exact
    integer products (no gcd per operation)"""
    d = 1
    for row in M:
        for v in row:
            d = math.lcm(d, v.denominator)
    return [[v.numerator * (d // v.denominator) for v in row] for row in M], d


def _nf_mul(X, Y):
    Yt = list(zip(*Y))
    return [[sum(map(_nf_opmul, r, c)) for c in Yt] for r in X]


def _nf_abs(X):
    return [[abs(float(v)) for v in row] for row in X]


def _nf_floor(Ma):
    """the natural size of entry (i,j) of a positive semidefinite matrix: sqrt(M_ii M_jj) (Cauchy-Schwarz bound of
    |M_ij|), plus 1e-3 of the largest entry for rows whose diagonal is (numerically) zero.  An entry that is a structural
    zero (decoupled unknowns) is rounding noise of THIS size, not of the size of its own (cancelled) terms."""
    k = len(Ma)
    mx = max([v for r in Ma for v in r] + [0.0])
    return [[math.sqrt(Ma[i][i] * Ma[j][j]) + 1e-3 * mx for j in range(k)] for i in range(k)]


def _nf_add(*Ms):
    return [[sum(v) for v in zip(*rows)] for rows in zip(*Ms)]


def _nf_worst(name, num, den, ref, scale, tol, bad, fmt):
    """entrywise test  |num/den - ref| <= tol * scale  (num: exact integers over the common denominator den; ref, scale
    floats); appends the worst violated entry to `bad`, returns the largest |dev|/scale"""
    worst, at, rel = 0.0, None, 0.0
    for i, row in enumerate(num):
        for j, v in enumerate(row):
            d = abs(v / den) if v else 0.0           # int / int: correctly rounded
            sc = scale[i][j]
            if sc > 0:
                rel = max(rel, d / sc)
            if d > tol * sc + 1e-300 and d - tol * sc > worst:
                worst, at = d - tol * sc, (i, j, d, sc)
    if at:
        i, j, d, sc = at
        bad.append(fmt(i + 1, j + 1, d, sc))
    return rel


def nf_sigma_diag(pr):
    """Sigma_ii of the i-th ACTIVE observation: the diagonal entry of its cluster's covariance matrix at the ORIGINAL
    position of the observation in the cluster (passive observations keep their position)"""
    return [_nf_cov_entry(c, k, k) for c in pr["clusters"] for k, a in enumerate(c["active"]) if a]


def nf_cofactor_oracle(pr, R, pre, ans, defect, info):
    """cofactor accessors of LocalNetwork judged on the implementation's own numbers, exactly (Fractions / integers
    over a common denominator from the hex doubles; only the scales the deviations are compared to are floats):
      (a) Q = (qxx(i,j)) symmetric, N Q N = N and Q N Q = Q with N = A'PA, P = m0^2 Sigma^-1: Q is a symmetric reflexive
          generalised inverse of the normal matrix (its inverse when the defect is 0);
      (b) B = (qbb(i,j)) symmetric, B = H Q H' for the homogenised design matrix H (R hA lines), B B = B, diagonal in
          [0,1], trace B = n - defect (B is the orthogonal projector onto the range of H);
      (c) weight_obs(i) = m0^2/Sigma_ii, wcoef_res(i) = max(0, (1 - B_ii)/weight_obs(i)),
          stdev_obs(i)^2 m0^2 = m0act^2 B_ii Sigma_ii with m0act = m0 (apriori) or sqrt(pvv/dof), 0 if dof <= 0.
    Every deviation is judged relative to the scale of the terms summed for that entry (sum of the absolute values)
    plus the natural size of the entry (sqrt(M_ii M_jj) for N and Q, 1 for the projector B: a structural zero between
    decoupled unknowns / observations is rounding noise of that size), tolerance 1e-7 as for the normal equations."""
    T = 1e-7
    bad = []
    m, n = pr["m"], pr["n"]
    cof = nf_cofactor_lines(R)
    Qf, Bf, Hf = _nf_square(cof["qxx"], n), _nf_square(cof["qbb"], m), None
    if isinstance(Qf, str):
        bad.append("qxx(i,j) after a successful adjustment: " + Qf)
    if isinstance(Bf, str):
        bad.append("qbb(i,j) after a successful adjustment: " + Bf)
    H = [cof["hA"].get(i) for i in range(1, m + 1)]
    if all(isinstance(h, list) and len(h) == n and all(math.isfinite(v) for v in h) for h in H):
        Hf = H
    vec = {}
    for tag, what in (("wobs", "weight_obs"), ("sobs", "stdev_obs"), ("wres", "wcoef_res")):
        v = cof.get(tag)
        if not isinstance(v, list) or len(v) != m:
            bad.append(f"{what}(i) after a successful adjustment: " + (v if isinstance(v, str) else f"{0 if v is None else len(v)} values for {m} observations"))
        else:
            vec[tag] = v
    # ---- (a)
    if not isinstance(Qf, str) and n:
        qmax = max(abs(v) for r in Qf for v in r)
        for i in range(n):
            for j in range(i):
                tol = T * (math.sqrt(abs(Qf[i][i] * Qf[j][j])) + 1e-3 * qmax)
                if abs(Qf[i][j] - Qf[j][i]) > tol:
                    bad.append(f"qxx is not symmetric: qxx({i + 1},{j + 1}) = {Qf[i][j]!r} but qxx({j + 1},{i + 1}) = {Qf[j][i]!r}")
                    break
            else:
                continue
            break
        if "Nint" not in pre:
            A, W = pre["A"], pre["W"]
            PA = [None] * m
            for off, blk in W:
                k = len(blk)
                for i in range(k):
                    PA[off + i] = [sum((blk[i][j] * A[off + j][c] for j in range(k) if blk[i][j] != 0 and A[off + j][c] != 0),
                                       Fraction(0)) for c in range(n)]
            N = [[sum((A[i][a] * PA[i][b] for i in range(m) if A[i][a] != 0), Fraction(0)) for b in range(n)] for a in range(n)]
            pre["Nint"], pre["Nden"] = _nf_ints(N)
            pre["Nabs"] = _nf_abs(N)
            pre["Nfloor"] = _nf_floor(pre["Nabs"])
        Ni, dN, Na = pre["Nint"], pre["Nden"], pre["Nabs"]
        Qi, dQ = _nf_ints([[Fraction(v) for v in r] for r in Qf])
        Qa = [[abs(v) for v in r] for r in Qf]
        NQ = _nf_mul(Ni, Qi)                       # over dN dQ
        NQN = _nf_mul(NQ, Ni)                      # over dN^2 dQ
        QNQ = _nf_mul(Qi, NQ)                      # over dN dQ^2
        NaQa = _nf_mul(Na, Qa)
        sc1 = _nf_add(_nf_mul(NaQa, Na), Na, pre["Nfloor"])
        sc2 = _nf_add(_nf_mul(Qa, NaQa), Qa, _nf_floor(Qa))
        D1 = [[NQN[i][j] - Ni[i][j] * dN * dQ for j in range(n)] for i in range(n)]
        D2 = [[QNQ[i][j] - Qi[i][j] * dN * dQ for j in range(n)] for i in range(n)]
        info["max_rel_NQN"] = _nf_worst("NQN", D1, dN * dN * dQ, None, sc1, T, bad, lambda i, j, d, sc:
                                        f"N Q N != N for Q = (qxx(i,j)), N = A'PA: entry ({i},{j}) deviates by {d:.6g}, "
                                        f"scale of its terms {sc:.6g} (N_ij = {Ni[i - 1][j - 1] / dN:.6g})")
        info["max_rel_QNQ"] = _nf_worst("QNQ", D2, dN * dQ * dQ, None, sc2, T, bad, lambda i, j, d, sc:
                                        f"Q N Q != Q for Q = (qxx(i,j)), N = A'PA: entry ({i},{j}) deviates by {d:.6g}, "
                                        f"scale of its terms {sc:.6g} (qxx({i},{j}) = {Qf[i - 1][j - 1]!r})")
    # ---- (b)
    if not isinstance(Bf, str) and m:
        bmax = max(abs(v) for r in Bf for v in r)
        for i in range(m):
            for j in range(i):
                tol = T * (math.sqrt(abs(Bf[i][i] * Bf[j][j])) + 1e-3 * bmax)
                if abs(Bf[i][j] - Bf[j][i]) > tol:
                    bad.append(f"qbb is not symmetric: qbb({i + 1},{j + 1}) = {Bf[i][j]!r} but qbb({j + 1},{i + 1}) = {Bf[j][i]!r}")
                    break
            else:
                continue
            break
        Bi, dB = _nf_ints([[Fraction(v) for v in r] for r in Bf])
        Ba = [[abs(v) for v in r] for r in Bf]
        if Hf is not None and not isinstance(Qf, str) and n:
            Hi, dH = _nf_ints([[Fraction(v) for v in r] for r in Hf])
            Ha = [[abs(v) for v in r] for r in Hf]
            Hit, Hat = [list(c) for c in zip(*Hi)], [list(c) for c in zip(*Ha)]
            HQH = _nf_mul(_nf_mul(Hi, Qi), Hit)    # over dH^2 dQ
            sc = [[v + 1.0 for v in r] for r in _nf_mul(_nf_mul(Ha, Qa), Hat)]     # B is a projector: |B_ij| <= 1
            D = [[HQH[i][j] * dB - Bi[i][j] * dH * dH * dQ for j in range(m)] for i in range(m)]
            info["max_rel_HQHt"] = _nf_worst("HQH", D, dH * dH * dQ * dB, None, sc, T, bad, lambda i, j, d, sc:
                                             f"qbb({i},{j}) = {Bf[i - 1][j - 1]!r} but (H Q H')[{i},{j}] = {HQH[i - 1][j - 1] / (dH * dH * dQ)!r} "
                                             f"(H = homogenised design matrix, Q = (qxx))")
        elif Hf is None:
            bad.append("homogenised design matrix (R hA lines) incomplete: B = H Q H' not checked")
        BB = _nf_mul(Bi, Bi)                       # over dB^2
        sc = [[v + 1.0 for v in r] for r in _nf_mul(Ba, Ba)]
        D = [[BB[i][j] - Bi[i][j] * dB for j in range(m)] for i in range(m)]
        info["max_rel_BB"] = _nf_worst("BB", D, dB * dB, None, sc, T, bad, lambda i, j, d, sc:
                                       f"B B != B for B = (qbb(i,j)): entry ({i},{j}) deviates by {d:.6g} (qbb({i},{j}) = {Bf[i - 1][j - 1]!r})")
        for i in range(m):
            if not -T <= Bf[i][i] <= 1 + T:
                bad.append(f"qbb({i + 1},{i + 1}) = {Bf[i][i]!r} is outside [0,1]")
                break
        tr = float(sum(Fraction(Bf[i][i]) for i in range(m)))
        info["trace_qbb_dev"] = abs(tr - (n - defect))
        if abs(tr - (n - defect)) > T * max(1, n):
            bad.append(f"trace of (qbb(i,j)) = {tr!r} but unknowns - defect = {n} - {defect}: "
                       f"sum of the redundancy numbers (1 - qbb(i,i)) = {m - tr!r}, degrees of freedom = {m - n + defect}")
    # ---- (c)
    sig = nf_sigma_diag(pr)
    m02 = pr["m0"] * pr["m0"]
    if len(sig) == m and "wobs" in vec and all(math.isfinite(v) for v in vec["wobs"]):
        w = [Fraction(v) for v in vec["wobs"]]
        for i in range(m):
            if sig[i] <= 0 or abs(w[i] * sig[i] - m02) > Fraction(T) * m02:
                bad.append(f"weight_obs({i + 1}) = {vec['wobs'][i]!r} but m0^2/Sigma_ii = {float(m02) / float(sig[i]) if sig[i] else float('inf')!r} "
                           f"(Sigma_ii = {float(sig[i])!r}: covariance matrix of its cluster at the observation's own position)")
                break
        if not isinstance(Bf, str) and "wres" in vec and all(v > 0 for v in w):
            for i in range(m):
                ref = max(Fraction(0), (1 - Fraction(Bf[i][i])) / w[i])
                v = vec["wres"][i]
                if not math.isfinite(v) or abs(Fraction(v) - ref) > Fraction(T) / w[i]:
                    bad.append(f"wcoef_res({i + 1}) = {v!r} but max(0, (1 - qbb(i,i))/weight_obs(i)) = {float(ref)!r} "
                               f"(qbb(i,i) = {Bf[i][i]!r}, weight_obs(i) = {vec['wobs'][i]!r})")
                    break
    if len(sig) == m and not isinstance(Bf, str) and "sobs" in vec and pr.get("act") in ("apriori", "aposteriori"):
        dof = m - n + defect
        act2 = m02 if pr["act"] == "apriori" else (ans["pvv"] / dof if dof > 0 else Fraction(0))
        info["dof"] = dof
        for i in range(m):
            v, bii = vec["sobs"][i], Fraction(Bf[i][i])
            if not math.isfinite(v):
                if bii >= 0 or act2 == 0:           # sqrt of a negative qbb(i,i) is reported by clause (b)
                    bad.append(f"stdev_obs({i + 1}) = {v!r} (qbb(i,i) = {Bf[i][i]!r})")
                    break
                continue
            if abs(Fraction(v) ** 2 * m02 - act2 * bii * sig[i]) > Fraction(T) * act2 * sig[i]:
                ref = math.sqrt(max(0.0, float(act2 * bii * sig[i] / m02))) if m02 else float("nan")
                bad.append(f"stdev_obs({i + 1}) = {v!r} but (m0act/m0) sqrt(qbb(i,i) Sigma_ii) = {ref!r} "
                           f"(sigma-act {pr['act']}: m0act^2 = {float(act2)!r}, m0 = {float(pr['m0'])!r}, qbb(i,i) = {Bf[i][i]!r}, "
                           f"Sigma_ii = {float(sig[i])!r} at the observation's own position in its cluster)")
                break
    elif pr.get("act") not in ("apriori", "aposteriori"):
        bad.append("harness protocol: no 'P act' line")
    return bad


def nf_oracle(P, R, cache=None):
    """the property on the implementation's own answers: v = Ax - b, A'Pv = 0, reported sum = v'Pv, x of minimum norm
    over min_x among the minimisers; then the cofactor accessors (nf_cofactor_oracle).
    Returns (list of violations, info dict)."""
    info = {}
    pr = nf_parse_problem(P)
    if "m" not in pr or pr["rhs"] is None or len(pr["rows"]) != pr["m"]:
        return ["harness protocol: incomplete system description"], info
    ans = {}
    for l in R:
        t = l.split()
        if t[1] in ("x", "r"):
            ans[t[1]] = [_nf_fr(v) for v in t[2:]]
        elif t[1] == "pvv":
            ans["pvv"] = _nf_fr(t[2])
        elif t[1] == "defect":
            ans["defect"] = t[2:]
    if not all(k in ans for k in ("x", "r", "pvv", "defect")):
        return ["no answers: " + " | ".join(R[:2])], info
    m, n = pr["m"], pr["n"]
    x, r = ans["x"], ans["r"]
    bad = []
    if len(x) != n or len(r) != m:
        return [f"solve() has {len(x)} elements for {n} unknowns, residuals() {len(r)} for {m} observations"], info
    if len(ans["defect"]) != 1 or not ans["defect"][0].isdigit():
        return ["defect(): " + " ".join(ans["defect"])], info
    defect = int(ans["defect"][0])
    info["defect"] = defect
    key = tuple(P)
    pre = cache.get(key) if cache is not None else None
    if pre is None:
        A = [[Fraction(0)] * n for _ in range(m)]
        for i, row in enumerate(pr["rows"]):
            for c, v in row:
                if not 1 <= c <= n:
                    return [f"row {i + 1} has column index {c} outside 1..{n}"], info
                A[i][c - 1] += v
        W = nf_weights(pr)
        Af = [[float(v) for v in row] for row in A]
        pre = {"A": A, "W": W, "Af": Af, "kernel": _nf_kernel(Af, m, n)}
        if cache is not None:
            cache[key] = pre
    A, W = pre["A"], pre["W"]
    if isinstance(W, str):
        return ["system description unusable: " + W], info
    b = pr["rhs"]
    # (i) residuals
    worst = 0.0
    for i in range(m):
        terms = [A[i][j] * x[j] for j in range(n) if A[i][j] != 0]
        ref = sum(terms, Fraction(0)) - b[i]
        scale = float(sum((abs(t) for t in terms), Fraction(0)) + abs(b[i]))
        d = abs(float(ref - r[i]))
        if d > 1e-7 * scale + 1e-9:
            worst = max(worst, d)
            if len(bad) < 3:
                bad.append(f"residual {i + 1}: residuals() = {float(r[i])!r} but (A x - b) = {float(ref)!r}")
    # (ii) normal equations, (iii) sum of squares
    y = [Fraction(0)] * m
    for off, blk in W:
        k = len(blk)
        for i in range(k):
            y[off + i] = sum((blk[i][j] * r[off + j] for j in range(k) if blk[i][j] != 0), Fraction(0))
    gmax = 0.0
    for j in range(n):
        terms = [A[i][j] * y[i] for i in range(m) if A[i][j] != 0]
        gj = float(sum(terms, Fraction(0)))
        scale = float(sum((abs(t) for t in terms), Fraction(0)))
        if scale > 1e-9:
            gmax = max(gmax, abs(gj) / scale)
        if abs(gj) > 1e-7 * scale + 1e-12:
            bad.append(f"normal equations: (A' P v)[{j + 1}] = {gj:.6g}, scale of its terms {scale:.6g} "
                       f"(P = m0^2 * inverse of the active covariance blocks)")
            if len(bad) > 5:
                break
    info["max_rel_normal_eq"] = gmax
    vpv = float(sum((r[i] * y[i] for i in range(m)), Fraction(0)))
    pvv = float(ans["pvv"])
    if abs(pvv - vpv) > 1e-7 * abs(vpv) + 1e-12:
        bad.append(f"trans_VWV() = {pvv!r} but v'Pv = {vpv!r}")
    # (iv) minimum norm over min_x
    Z, piv, cs = pre["kernel"]
    if Z is None:
        info["kernel"] = "ambiguous"
    else:
        Af = pre["Af"]
        okz = True
        for z in Z:                 # A z = 0 up to rounding, on the scale of the column-scaled quantities
            zmax = max([abs(z[j]) * cs[j] for j in range(n)] + [0.0])
            for i in range(m):
                amax = max([abs(Af[i][j]) / cs[j] for j in range(n)] + [0.0])
                if abs(sum(Af[i][j] * z[j] for j in range(n))) > 1e-8 * amax * zmax:
                    okz = False
        if not okz:
            info["kernel"] = "unverified"
        else:
            info["kernel"] = len(Z)
            if len(Z) != defect:
                bad.append(f"defect() = {defect} but the design matrix has a {len(Z)}-dimensional kernel "
                           f"(smallest accepted relative pivot {min(piv) / piv[0] if piv else 0:.3g})")
            elif defect and pr["minx"]:
                S = sorted(set(j - 1 for j in pr["minx"] if 1 <= j <= n))
                xf = [float(v) for v in x]
                for z in Z:
                    t = [z[j] * xf[j] for j in S]
                    zs = max([abs(z[j]) for j in S] + [0.0])
                    xs = max([abs(xf[j]) for j in S] + [0.0])
                    if abs(sum(t)) > 1e-6 * (sum(abs(v) for v in t) + zs * xs * 1e-3) + 1e-12:
                        bad.append(f"x is not the minimiser of minimum norm over min_x: <z_S, x_S> = {sum(t):.6g} for a kernel "
                                   f"vector z of A (terms up to {max(abs(v) for v in t):.6g})")
                        break
                info["minnorm_checked"] = True
    bad += nf_cofactor_oracle(pr, R, pre, ans, defect, info)
    return bad, info


# ----------------------------------------------------------------------------- the stream

def _nf_split(out):
    P = [l[2:] for l in out if l.startswith("P ")]
    R = [l for l in out if l.startswith("R ")]
    E = [l for l in out if not (l.startswith("P ") or l.startswith("R "))]
    return P, R, E


def _nf_close(x, y, tol):
    return x == y or (x != x and y != y) or (math.isfinite(x) and math.isfinite(y) and abs(x - y) <= tol)


def _nf_compare(alg, R, M, info=None):
    """implementation's answer lines against the model's.  x, r, pvv, hA, hb: per token rtol (1e-7, svd 1e-6) + atol 1e-9
    as before.  The cofactor lines have no common absolute unit (Q in (unit of the unknown)^2/m0^2 from 1e-3 to 1e2 and
    more, weights from 1e-3 to 1e2), so each is compared relative to the natural size of the entry instead of an absolute
    floor — never bit equality, and a factor m0^2 (>= 6.25 whenever sigma-apr != 1) or an entry read from the transposed
    position of a non-symmetric intermediate (an O(1) change relative to that size) is 1e6 times the tolerance:
      R qxx / R qbb  entry (i,j): rtol * (sqrt(|M_ii M_jj|) + 1e-3 max|M|) of the implementation's matrix M — the
                     Cauchy-Schwarz bound of |M_ij| for a positive semidefinite M; svd/gso round relative to the norm
                     of the whole matrix rather than entrywise, hence the second term;
      R wobs         rtol relative (a quotient and a product, no cancellation);
      R wres         rtol / weight_obs(i): wcoef_res(i) = max(0, 1 - qbb(i,i))/weight_obs(i) with 1 - qbb(i,i) in [0,1]
                     cancelling to rounding noise for an uncontrolled observation;
      R sobs         compared as squares (stdev_obs(i)^2 is linear in qbb(i,i); the square root magnifies the noise of a
                     qbb(i,i) that is exactly 0), rtol * max_k(stdev_obs(k)^2 weight_obs(k)) / weight_obs(i), i.e.
                     relative to (m0act/m0)^2 Sigma_ii max_k qbb(k,k).
    `info` (optional dict) receives the number of (i,j) pairs compared and the largest deviation in units of that size."""
    rtol = 1e-6 if alg == "svd" else 1e-7
    if len(R) != len(M):
        return f"{len(R)} answer lines, model {len(M)}"
    cof = nf_cofactor_lines(R)
    floors = {}
    for tag in ("qxx", "qbb"):
        sq = _nf_square(cof[tag], len(cof[tag]))
        if not isinstance(sq, str) and sq:
            floors[tag] = _nf_floor([[abs(v) for v in r] for r in sq])
    w = cof.get("wobs")
    w = w if isinstance(w, list) and all(math.isfinite(v) and v > 0 for v in w) else None
    so = cof.get("sobs")
    smax = max([a * a * b for a, b in zip(so, w) if math.isfinite(a)] + [0.0]) if w and isinstance(so, list) and len(so) == len(w) else None
    pairs, dev = 0, {}
    for a, b in zip(R, M):
        ta, tb = a.split(), b.split()
        tag = ta[1] if len(ta) > 1 else ""
        ok = None
        if tag in floors and ta[:3] == tb[:3] and len(ta) == len(tb):
            xa, xb = _nf_floats(ta[3:]), _nf_floats(tb[3:])
            i = int(ta[2]) - 1
            if xa is not None and xb is not None and i < len(floors[tag]) and len(xa) == len(floors[tag]):
                fl = floors[tag][i]
                ok = all(_nf_close(x, y, rtol * f) for x, y, f in zip(xa, xb, fl))
                pairs += len(xa)
                dev[tag] = max([dev.get(tag, 0.0)] + [abs(x - y) / f for x, y, f in zip(xa, xb, fl) if f > 0 and math.isfinite(x - y)])
        elif tag in ("wobs", "wres", "sobs") and w and ta[:2] == tb[:2] and len(ta) == len(tb) == len(w) + 2:
            xa, xb = _nf_floats(ta[2:]), _nf_floats(tb[2:])
            if xa is not None and xb is not None:
                if tag == "wobs":
                    ok = all(_nf_close(x, y, rtol * abs(x)) for x, y in zip(xa, xb))
                elif tag == "wres":
                    ok = all(_nf_close(x, y, rtol / wi) for x, y, wi in zip(xa, xb, w))
                elif smax is not None:
                    ok = all(_nf_close(x * x, y * y, rtol * smax / wi) and (x >= 0) == (y >= 0) for x, y, wi in zip(xa, xb, w))
        if ok is None:
            ok = lines_equal(a, b, rtol=rtol, atol=1e-9)
        if not ok:
            return "line '" + " ".join(ta[:3]) + "' differs"
    if info is not None:
        info["pairs"] = pairs
        info["dev"] = dev
    return None


def nf_run(ctx, texts, tmp):
    """harness + driver on every (network, algorithm).  Returns list of dicts."""
    exe = net_harness(ctx)
    cases, idx = [], []
    for i, text in enumerate(texts):
        p = tmp / f"n{i}.gkf"
        p.write_text(text)
        for alg in ALGS:
            cases.append([f"load {p} {alg}", "dump"])
            idx.append((i, alg))
    impl, crashes = run_cases(exe, cases)
    mcases = []
    split = []
    for k, out in enumerate(impl):
        P, R, E = _nf_split(out)
        split.append((P, R, E))
        mcases.append(P + [f"run {idx[k][1]}"] if P else [])
    model, mcr = run_cases(ctx.driver("drv_netfacade"), mcases)
    res = []
    for k, (i, alg) in enumerate(idx):
        P, R, E = split[k]
        res.append({"net": i, "alg": alg, "P": P, "R": R, "E": E, "model": model[k], "ops": mcases[k],
                    "crash": crashes.get(k), "model_crash": mcr.get(k)})
    return res


def nf_judge(corr, texts, metas, res, fails, stats=True):
    """model <-> implementation and the oracle for every run; failures appended to `fails`"""
    cache = {}
    for e in res:
        text, meta, alg = texts[e["net"]], metas[e["net"]], e["alg"]
        payload = {"stream": "netfacade", "gkf": text, "alg": alg}
        P, R = e["P"], e["R"]
        if e["crash"]:
            corr.case()
            fails.append(Failure("LocalNetwork adjustment crashed / sanitizer report", payload, "LocalNetwork::vyrovnani_",
                                 e["crash"][1]))
            continue
        if not P or not R:
            corr.case()
            corr.count("netfacade_unusable")
            corr.count("netfacade_unusable:" + (" ".join(e["E"][-1].split()[:4]) if e["E"] else "no output")[:60])
            continue
        pr = nf_parse_problem(P)
        is_corr, passive = nf_features(pr)
        threw = len(R) == 1 and R[0].startswith("R throw")
        defect = None
        for l in R:
            if l.startswith("R defect ") and l.split()[2].isdigit():
                defect = int(l.split()[2])
        nontrivial = is_corr or bool(defect)
        corr.case(key=("netfacade", sha(text), alg) if nontrivial else None,
                  sample={"stream": "netfacade", "alg": alg, "meta": meta, "ops": [o[:160] for o in e["ops"][:4]],
                          "impl": [l[:160] for l in R[:4]]} if (e["net"], alg) == (0, "env") else None)
        if stats:
            corr.count("netfacade_cases")
            corr.count("netfacade_alg_" + alg)
            corr.count("netfacade_family_" + meta.get("family", "?"))
            corr.count("netfacade_sigma_" + str(meta.get("sigma", "?")))
            if is_corr:
                corr.count("netfacade_correlated")
            if passive:
                corr.count("netfacade_passive_in_correlated")
            if defect:
                corr.count("netfacade_singular")
            if threw:
                corr.count("netfacade_throws")
                corr.count("netfacade_throw:" + " ".join(R[0].split()[2:5])[:60])
            corr.maxstat("netfacade_max_rows", pr.get("m", 0))
            corr.maxstat("netfacade_max_unknowns", pr.get("n", 0))
        cmpinfo = {}
        why = "model driver crashed" if e["model_crash"] else _nf_compare(alg, R, e["model"], cmpinfo)
        if why:
            corr.disagree("netfacade", e["ops"], R, e["model"], f"{alg}: {why}")
        if stats and not threw:
            corr.count("netfacade_" + pr.get("act", "no-act"))
            corr.count("netfacade_cofactor_pairs", cmpinfo.get("pairs", 0))
            for tag, d in cmpinfo.get("dev", {}).items():
                corr.maxstat(f"netfacade_max_dev_{tag}_model", d)
        if threw:
            if R[0].startswith("R throw local") or R[0].startswith("R throw gama") or R[0].startswith("R throw std"):
                corr.count("netfacade_throws_outside_model")
            continue
        bad, info = nf_oracle(P, R, cache)
        if stats:
            if info.get("minnorm_checked"):
                corr.count("netfacade_minnorm_checked")
            if info.get("kernel") in ("ambiguous", "unverified"):
                corr.count("netfacade_kernel_" + info["kernel"])
            corr.maxstat("netfacade_max_rel_normal_eq", info.get("max_rel_normal_eq", 0.0))
            for k in ("max_rel_NQN", "max_rel_QNQ", "max_rel_HQHt", "max_rel_BB", "trace_qbb_dev"):
                if k in info:
                    corr.maxstat("netfacade_" + k, info[k])
        if bad:
            fails.append(Failure("netfacade oracle: " + "; ".join(bad[:4]), dict(payload, meta=meta), "LocalNetwork::vyrovnani_",
                                 " | ".join(l[:400] for l in R[:4])))


def netfacade_stream(ctx, corr):
    t0 = time.time()
    count = ctx.size(25, 300)
    gen = gen_facade_networks(ctx.rng, count)
    texts, metas = [t for t, _ in gen], [m for _, m in gen]
    corpus = ctx.verif / "corpus" / "C01"
    for f in sorted(corpus.glob("net-*.gkf")) if corpus.exists() else []:
        texts.append(f.read_text())
        metas.append({"family": "corpus", "corpus": f.name})
    tmp = Path(tempfile.mkdtemp(prefix="c01net-", dir=str(ctx.build)))
    fails = []
    try:
        res = nf_run(ctx, texts, tmp)
        nf_judge(corr, texts, metas, res, fails)
    finally:
        shutil.rmtree(tmp, ignore_errors=True)
    for f in fails:
        corr.failures.append(f)
    tot = corr.stats.get("netfacade_cases", 0)
    if tot < 0.8 * 4 * count:
        corr.inconclusive.append(f"netfacade: only {tot} of {4 * count} runs usable")
    if corr.stats.get("netfacade_passive_in_correlated", 0) < 0.4 * tot:
        corr.inconclusive.append("netfacade: fewer than 40% of the cases have a passive observation in a correlated cluster")
    if corr.stats.get("netfacade_singular", 0) < 0.25 * tot:
        corr.inconclusive.append("netfacade: fewer than 25% singular (free) networks")
    corr.stats["netfacade_seconds"] = round(time.time() - t0, 1)


def netfacade_search(ctx, count=80):
    """more networks, oracle only (called when the netfacade tie broke and no failing input is at hand)"""
    big = Ctx(ctx.id, "thorough", ctx.seed + 2000)
    gen = gen_facade_networks(big.rng, count)
    texts, metas = [t for t, _ in gen], [m for _, m in gen]
    tmp = Path(tempfile.mkdtemp(prefix="c01net-", dir=str(ctx.build)))
    fails = []
    try:
        res = nf_run(ctx, texts, tmp)
        nf_judge(Corr(), texts, metas, res, fails, stats=False)
    finally:
        shutil.rmtree(tmp, ignore_errors=True)
    fails.sort(key=lambda f: len(f.replay["gkf"]))
    return fails[:5]


def netfacade_replay(ctx, inp):
    tmp = Path(tempfile.mkdtemp(prefix="c01net-", dir=str(ctx.build)))
    try:
        algs = [inp["alg"]] if inp.get("alg") in ALGS else ALGS
        res = [e for e in nf_run(ctx, [inp["gkf"]], tmp) if e["alg"] in algs]
    finally:
        shutil.rmtree(tmp, ignore_errors=True)
    print(inp["gkf"])
    failed = 0
    for e in res:
        print(f"--- algorithm {e['alg']}")
        for l in e["E"]:
            print("   ", l)
        if e["crash"]:
            print("    CRASH", e["crash"][1][-2000:])
            failed = 1
            continue
        for l in e["P"]:
            print("    P", l[:240])
        for l in e["R"]:
            print("    impl ", l[:240])
        for l in e["model"]:
            print("    model", l[:240])
        cmpinfo = {}
        why = _nf_compare(e["alg"], e["R"], e["model"], cmpinfo) if e["P"] else "no system dumped"
        print("    model <-> implementation:", why or "agree",
              f"(cofactor pairs compared {cmpinfo.get('pairs', 0)}, largest deviation in units of the entry's size {cmpinfo.get('dev', {})})")
        if e["P"] and e["R"] and not e["R"][0].startswith("R throw"):
            bad, info = nf_oracle(e["P"], e["R"])
            print("    oracle (v = Ax-b, A'Pv = 0, v'Pv, min norm; qxx: symmetric, NQN = N, QNQ = Q; qbb: symmetric, = HQH', "
                  "BB = B, diagonal in [0,1], trace = n - defect; weight_obs, wcoef_res, stdev_obs):")
            for b in bad:
                print("      VIOLATED:", b)
            print("     ", "ok" if not bad else f"{len(bad)} clause(s) violated", info)
            failed |= 1 if bad else 0
        failed |= 1 if why else 0
    return failed


def search(ctx, broken, corr):
    if any(getattr(b, "name", "") == "netfacade" or "NetFacade" in getattr(b, "name", "") for b in broken):
        found = netfacade_search(ctx)
        if found:
            return found
    c2 = Corr()
    big = Ctx(ctx.id, "thorough", ctx.seed + 1000)
    big.thorough = True
    exe = harness(ctx)
    cases, meta = make_cases(big, 600)
    impl, crashes = run_cases(exe, cases)
    out, refs = [], {}
    for i, (c, (p, S, alg, entry)) in enumerate(zip(cases, meta)):
        if i in crashes:
            out.append(Failure("solver crashed / sanitizer report", {"stream": "ls", "ops": c}, f"{alg}/{entry}", crashes[i][1]))
            continue
        key = (id(p), tuple(S))
        if key not in refs:
            refs[key] = g.reference(p, S)
        bad = oracle(p, S, impl[i], refs[key])
        if bad:
            out.append(Failure("; ".join(bad), {"stream": "ls", "ops": c, "subset": S}, f"{alg}/{entry}", " | ".join(impl[i])))
        if len(out) >= 5:
            break
    out.sort(key=lambda f: len(" ".join(f.replay["ops"])))
    return out


def replay(ctx, payload):
    if payload.get("stream") == "netfacade":
        return netfacade_replay(ctx, payload)
    f = payload.get("failure")
    if not f:
        print(json.dumps(payload.get("no_longer_checks"), indent=1)[:3000])
        return 1
    if f["input"].get("stream") == "netfacade":
        return netfacade_replay(ctx, f["input"])
    exe = harness(ctx)
    impl, crashes = run_cases(exe, [f["input"]["ops"]])
    print("\n".join(f["input"]["ops"]))
    print("->", impl[0], crashes)
    return 1


# per-run SVD factorisation certificate (tools/props/svd_cert.py): the one place where a numeric check
# stands in for a missing universal theorem (convergence/accuracy of the Golub-Reinsch iteration)
from props import svd_cert  # noqa: E402
_correspond_without_cert = correspond


def correspond(ctx, corr):  # noqa: F811
    _correspond_without_cert(ctx, corr)
    svd_cert.check_certificates(ctx, corr)
    netfacade_stream(ctx, corr)
