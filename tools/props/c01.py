"""C01 — every solver returns the weighted least-squares minimiser."""
import glob
from lib.core import *
from lib import gen_ls as g

ID = "C01"
PROPS_FILES = sorted("Gama/Props/C01/" + Path(f).name for f in glob.glob(str(LEAN / "Gama/Props/C01/*.lean")))
LEAN_TARGETS = [f[:-5].replace("/", ".") for f in PROPS_FILES]
DRIVERS = ["drv_ls"]
RULE = ("problems (A,b,C,S) from tools/lib/gen_ls.py (small-integer dense with planted dependent columns; levelling "
        "incidence graphs incl. disconnected; unit / diagonal / banded SPD covariance blocks; regularisation subsets "
        "that resolve the defect, decided exactly) x {env,chol,gso,svd} x {solver,adj}; non-trivial = defect>0 or "
        "correlated covariance; distinct by problem text + subset + algorithm + entry")
LEVEL_TEXT = ("Lean 4 theorems about executable models of the four solvers and of class Adj: the returned x, v satisfy "
              "v = Ax-b and the normal equations A'Pv = 0 (hence minimal v'Pv), x has minimal S-norm among minimisers, "
              "reported sum of squares = v'Pv — in exact arithmetic over an ordered field, for all sizes/bands/defects, "
              "under the property's own hypothesis that every tested pivot is exactly 0 or at least the tolerance. "
              "Models tied to the C++ by differential correspondence (Float with tolerance) plus an exact rational "
              "oracle on the implementation's answers.")
LEVEL_NOTE = ("Theorems are about exact arithmetic; IEEE rounding, libm and the convergence of the Golub-Reinsch SVD "
              "iteration are not proved (SVD factorisation enters as a per-run certificate). LocalNetwork entry point is "
              "covered by the network-level oracles of C02/C08/C09, not by this harness.")
TECHNIQUE = "Lean 4 proof (ordered-field algebra, induction over the factorisation loops) + model/implementation correspondence"
MODELLED = ["IEEE rounding (proofs over exact ordered fields)", "SVD::svd iteration (certificate per run)",
            "memory management of the solver objects"]
ASSUMPTIONS = ["rank numerically unambiguous: generator keeps exact small-integer/dyadic data so every pivot is 0 or O(1)"]

ALGS = ["env", "chol", "gso", "svd"]
SRC = ["lib/gnu_gama/adj/adj.cpp", "lib/gnu_gama/adj/icgs.cpp", "lib/gnu_gama/adj/adj_input_data.cpp"]


def harness(ctx):
    return ctx.build_cpp("adj_harness", [ctx.verif / "harness" / "adj_harness.cpp"] + [ctx.repo / s for s in SRC],
                         includes=[ctx.verif / "harness"])


def make_cases(ctx, nprob):
    cases, meta = [], []
    for k in range(nprob):
        # every third problem has a planted defect >= 2 (several kernel vectors: pivoting / mutual orthogonalisation
        # of the null-space basis only matters there)
        p = g.gen_problem(ctx.rng, family="dense", min_defect=2) if k % 3 == 2 else g.gen_problem(ctx.rng)
        subs = [s for s in g.gen_subsets(ctx.rng, p, 2) if s[1]]
        for S, _ok in subs[:2]:
            ref = None
            for alg in ALGS:
                for entry in ("solver", "adj"):
                    if entry == "solver" and alg != "env" and not p["unit_cov"]:
                        continue
                    reg = "all" if (len(S) == p["n"] and ctx.rng.random() < 0.5) else S
                    lines = g.problem_lines(p, reg) + [f"new {alg} {entry}", "x", "r", "rtr", "defect"]
                    cases.append(lines)
                    meta.append((p, S, alg, entry))
                    if entry == "adj" and ctx.rng.random() < 0.5:
                        # the same Adj object solves again with another algorithm (gama-g3 keeps one Adj and its
                        # work matrices across algorithm switches and linearisation passes): same problem, so the
                        # answers after the switch must meet the same specification
                        alg2 = ctx.rng.choice([a for a in ALGS if a != alg])
                        cases.append(lines + [f"set_alg {alg2}", "x", "r", "rtr", "defect"])
                        meta.append((p, S, f"{alg}>{alg2}", entry))
    return cases, meta


def vec(line):
    t = line.split()
    return [hex2float(x) for x in t[1:]] if t and t[0] in ("vec", "val") else None


def oracle(p, S, out, ref):
    """the property evaluated on the implementation's answers against the exact rational solution"""
    bad = []
    if len(out) < 6 or out[0] != "ok" or out[1] != "ok":
        return ["harness protocol: " + " | ".join(out[:3])]
    x, r, rtr = vec(out[2]), vec(out[3]), vec(out[4])
    if x is None or r is None or rtr is None:
        return ["solver threw or returned nothing: " + " | ".join(out[2:6])]
    sc = 1.0 + max([abs(float(v)) for v in ref["x"]] + [abs(float(v)) for v in ref["v"]] + [0.0])
    tol = 1e-8 * sc
    dx = max(abs(a - float(b)) for a, b in zip(x, ref["x"])) if x else 0.0
    dr = max(abs(a - float(b)) for a, b in zip(r, ref["v"])) if r else 0.0
    if len(x) != p["n"] or dx > tol:
        bad.append(f"x deviates from the exact minimum-S-norm minimiser by {dx:.3g}")
    if len(r) != p["m"] or dr > tol:
        bad.append(f"residuals deviate from A x - b of the exact solution by {dr:.3g}")
    if abs(rtr[0] - float(ref["rtr"])) > 1e-8 * (1 + abs(float(ref["rtr"]))):
        bad.append(f"sum of squares {rtr[0]!r} != v'Pv {float(ref['rtr'])!r}")
    if out[5] != f"int {p['defect']}":
        bad.append(f"defect reported '{out[5]}' but n - rank A = {p['defect']}")
    return bad


def corpus_cases(ctx, corr, exe):
    """minimised past cases (corpus/C01/*.ops): raw protocol lines, model vs implementation only"""
    d = ctx.verif / "corpus" / "C01"
    files = sorted(d.glob("*.ops")) if d.exists() else []
    cases = [[l for l in f.read_text().splitlines() if l.strip() and not l.startswith("#") and not l.startswith("case ")] for f in files]
    if not cases:
        return
    impl, crashes = run_cases(exe, cases)
    model, _ = run_cases(ctx.driver("drv_ls"), cases)
    for i, f in enumerate(files):
        corr.case(key="corpus:" + f.name)
        corr.count("corpus_cases")
        if i in crashes:
            corr.fail("corpus case crashes the solver", {"stream": "ls", "ops": cases[i], "file": f.name}, "corpus", crashes[i][1])
        elif len(impl[i]) != len(model[i]) or any(b != "not-modelled" and not lines_equal(a, b, rtol=1e-9, atol=1e-9)
                                                  for a, b in zip(impl[i], model[i])):
            corr.disagree("ls-corpus", cases[i], impl[i], model[i], f.name)


def correspond(ctx, corr):
    exe = harness(ctx)
    corpus_cases(ctx, corr, exe)
    cases, meta = make_cases(ctx, ctx.size(75, 1500))
    impl, crashes = run_cases(exe, cases)
    model, _ = run_cases(ctx.driver("drv_ls"), cases)
    refs = {}
    for i, (c, (p, S, alg, entry)) in enumerate(zip(cases, meta)):
        nontrivial = p["defect"] > 0 or not p["unit_cov"]
        corr.case(key=(" ".join(c)) if nontrivial else None,
                  sample={"ops": c, "impl": impl[i]} if i in (0, 7) else None)
        corr.count(f"alg_{alg}_{entry}")
        corr.count("singular" if p["defect"] else "regular")
        if p["defect"] >= 2:
            corr.count("defect_ge2")
        corr.count("correlated" if not p["unit_cov"] else "unit_cov")
        corr.count("family_" + p["family"])
        if i in crashes:
            corr.fail("solver crashed / sanitizer report", {"stream": "ls", "ops": c}, f"{alg}/{entry}", crashes[i][1])
            continue
        # model <-> implementation
        nm = False
        for a, b in zip(impl[i], model[i]):
            if b == "not-modelled":
                nm = True
                continue
            if not lines_equal(a, b, rtol=1e-9, atol=1e-9):
                corr.disagree("ls", c, impl[i], model[i], f"{alg}/{entry}")
                break
        else:
            if len(impl[i]) != len(model[i]):
                corr.disagree("ls", c, impl[i], model[i], "length")
        corr.count("not_modelled" if nm else "modelled")
        # oracle on the implementation
        key = (id(p), tuple(S))
        if key not in refs:
            refs[key] = g.reference(p, S)
        bad = oracle(p, S, impl[i], refs[key])
        if not bad and ">" in alg and len(impl[i]) >= 11:      # answers after set_alg on the same object
            bad = ["after set_alg: " + b for b in oracle(p, S, impl[i][:2] + impl[i][7:11], refs[key])]
        if bad:
            corr.fail("; ".join(bad), {"stream": "ls", "ops": c, "subset": S}, f"{alg}/{entry}", " | ".join(impl[i]))
    tot = corr.stats.get("singular", 0) + corr.stats.get("regular", 0)
    if tot and corr.stats.get("singular", 0) < 0.25 * tot:
        corr.inconclusive.append("fewer than 25% singular problems")
    if tot and corr.stats.get("defect_ge2", 0) < 0.15 * tot:
        corr.inconclusive.append("fewer than 15% problems with defect >= 2")


def search(ctx, broken, corr):
    c2 = Corr()
    big = Ctx(ctx.id, "thorough", ctx.seed + 1000)
    big.thorough = True
    exe = harness(ctx)
    cases, meta = make_cases(big, 600)
    impl, crashes = run_cases(exe, cases)
    out, refs = [], {}
    for i, (c, (p, S, alg, entry)) in enumerate(zip(cases, meta)):
        if i in crashes:
            out.append(Failure("solver crashed / sanitizer report", {"stream": "ls", "ops": c}, f"{alg}/{entry}", crashes[i][1]))
            continue
        key = (id(p), tuple(S))
        if key not in refs:
            refs[key] = g.reference(p, S)
        bad = oracle(p, S, impl[i], refs[key])
        if bad:
            out.append(Failure("; ".join(bad), {"stream": "ls", "ops": c, "subset": S}, f"{alg}/{entry}", " | ".join(impl[i])))
        if len(out) >= 5:
            break
    out.sort(key=lambda f: len(" ".join(f.replay["ops"])))
    return out


def replay(ctx, payload):
    f = payload.get("failure")
    if not f:
        print(json.dumps(payload.get("no_longer_checks"), indent=1)[:3000])
        return 1
    exe = harness(ctx)
    impl, crashes = run_cases(exe, [f["input"]["ops"]])
    print("\n".join(f["input"]["ops"]))
    print("->", impl[0], crashes)
    return 1


# per-run SVD factorisation certificate (tools/props/svd_cert.py): the one place where a numeric check
# stands in for a missing universal theorem (convergence/accuracy of the Golub-Reinsch iteration)
from props import svd_cert  # noqa: E402
_correspond_without_cert = correspond


def correspond(ctx, corr):  # noqa: F811
    _correspond_without_cert(ctx, corr)
    svd_cert.check_certificates(ctx, corr)
