"""C14 — Exclusions are reported and equal to deleting the excluded items."""
import concurrent.futures
import shutil
import tempfile

from lib.core import *
from lib import gen_net
from gen import c14_revision, c14_nets

ID = "C14"
PROPS_FILES = ["Gama/Props/C14.lean", "Gama/Props/C14PeWitness.lean", "Gama/Props/C14Physical.lean"]
LEAN_TARGETS = ["Gama.Props.C14", "Gama.Props.C14PeWitness", "Gama.Props.C14Physical"]
DRIVERS = ["drv_revise"]
RULE = ("generated 2D/3D networks (directions, distances, angles, azimuths, slope distances, zenith angles, height "
        "differences, vectors; stdev varied against sigma-apr) with injected defects: isolated point, point with one "
        "determining element, single-direction station, two directions to one target, one usable + one unusable direction "
        "target, direction sets with REPEATED targets (reading patterns A A B, A B A, B A A, A A B B, A B C A, A A B C) with "
        "a gross / small blunder in the first reading of the repeated target, in a later one, in the reading of another "
        "target, or none, observation to an unknown id, correlated clusters (<cov-mat> band 1..n-1 on <obs>, <height-differences>, "
        "<vectors>, rows shuffled, linear observations disturbed so that the weights matter), "
        "blunders of positional size f*tol-abs (f in 0.3 … 1-1e-5, 1+1e-5 … 30) x tol-abs in {10,100,1000,5000}; "
        "in-process: with and without Acord2; end-to-end: x 4 algorithms.  non-trivial = at least one point or "
        "observation excluded; distinct by the text of the .gkf")
LEVEL_TEXT = ("Lean 4 theorems (all networks, unbounded) about an executable model of LocalNetwork's revision and "
              "absolute-term exclusion, whose requirement table, absolute-term formulas, comparison operator, consulted "
              "vector, reason codes AND the loop of revision_observations() that counts the targets of a direction set "
              "(loop body as a term of a small statement language over std::set<PointID> targets / active_directions, and the "
              "test active_directions < 2) are regenerated from the C++ on every run: the loop as coded counts the distinct "
              "targets having at least one active reading, for every order of the readings and every pattern of passive "
              "readings; the requirement table asks the same of both ends of every two-ended observation type; "
              "exclusion iff one of the stated reasons (sound and complete, repeated readings included), the tree's absolute-term test characterised exactly (entry consulted, factor "
              "sigma-apr/stdev, strict comparison; C14-F1 = 'coincides with the positional misclosure iff the factor is 1'), "
              "state after the exclusions = revised input with the excluded items deleted (deletion defined on the input, "
              "including rows/columns of correlated covariance blocks; stable), and the assembly loop / covariance blocks "
              "read that view only.  "
              "Rounds 7-8: what the absolute-term stage makes passive is EXACTLY the rows of the table OutlyingAbsoluteTerms "
              "prints, and every such observation is in removed_obs_ (C14_reported_abs); the stage is quiet on the deleted input "
              "for uncorrelated clusters (C14_abs_stage_stable_uncorrelated; correlated blocks: under the stated hypothesis on the "
              "new homogenised vector only); the revision rule of this model and the one inside the executed model of "
              "project_equations() (PE, C05/C08/C01) are the same rule (C14_revision_is_project_equations_revision, "
              "C14_requirement_tables_agree); and 'results' is now a theorem about the EXECUTED model, not about an abstract "
              "step/adjust: if project_equations() succeeds on a network, then on the network from which the observations "
              "it left passive are deleted (rows/columns of the band covariance matrices with them: activeCov of an active "
              "block is that block, proved by extensionality of the packed storage, no hypothesis) and the points "
              "singular_coords removed are unused, with ARBITRARY stale index fields, it succeeds in one inner call, revises "
              "nothing more, removes no point, numbers the unknowns identically (same unknowns_ table), and for EVERY "
              "algorithm the network-level solve (C01's facade: envelope, Cholesky, GSO, SVD) returns the same exception or "
              "the same answer field by field (x, residuals of the active observations, pvv, defect, cofactors) "
              "(C14_pe_solution_equals_deletion_partial; kernel-evaluated on a network with a tridiagonal covariance block "
              "and one excluded observation).  The deletion of that theorem is position-stable (a removed point / an "
              "emptied cluster stays as an entry nothing refers to); physically dropping them renames the unknowns, and "
              "that renaming invariance is NOT proved (hence _partial).  "
              "The hand-written rest is tied to the C++ by in-process differential correspondence "
              "(GKFparser -> LocalNetwork vs model on the same encoded network, including the homogenised vector, the printed "
              "rows of the absolute-term table, and Lean's deleteItems against the oracle's deletion) and "
              "checked end-to-end on gama-local (result = result of the input with the excluded items deleted, also for "
              "correlated clusters; every exclusion visible in --text).")
LEVEL_NOTE = ("Trusted: Lean kernel; the statements in Props/C14.lean including the hand-written specification tables "
              "(which flags each observation type needs, the positional-misclosure formulas); the translator "
              "tools/gen/c14_revision.py (validated by the correspondence); harness, generator, comparator. "
              "C14_results_equal_deletion (abstract step/adjust) is kept and is NOT instantiated with the executed models; "
              "instead 'results' is a separate theorem on PE.projectEquations + Ls.Net.netSolve for the position-stable deletion "
              "RevPE.delObs (C14_pe_solution_equals_deletion_partial; the two revision rules are identified under DirInStand by "
              "C14_revision_is_project_equations_revision), whose models are tied to the C++ by C05/C08/C01's streams (drv_pe, "
              "drv_net), not by C14's.  ORACLE-ONLY in C14: the absolute-term stage inside the program flow "
              "(vybocujici_abscl_, C14-F1 is a known finding there: the tree tests the homogenised entry, the documentation "
              "promises the positional misclosure; and for correlated blocks the homogenised vector of the deleted input is "
              "not a sub-vector of the original), IEEE rounding, all algorithms x tol-abs on gama-local.  "
              "PHYSICAL deletion of <point>/<obs> elements (rounds 12-13, Props/C14Physical.lean): the linearisation pass under any "
              "injective relabelling of point/cluster positions returns the same rows and right-hand side and the relabelled "
              "index table (C14_pe_pass_relabelled); for every network on which the revision is stable, assembling the network "
              "with its unused points and emptied clusters removed gives the same m, n, rows, rhs, cofactor blocks, hence the "
              "same netSolve answer for every algorithm (C14_pe_inner_call_equals_physical_deletion; no hypothesis on role "
              "slots: the regenerated member functions do not read the slots their class does not use); the revision is stable "
              "on the physically deleted network (C14_pe_revision_stable_physical); and the WHOLE call from an arbitrary "
              "network: if project_equations() succeeds, then on the input with the observations it left passive deleted and "
              "the then-unused points and emptied clusters physically removed (positions renamed, arbitrary stale indexes) it "
              "succeeds in one inner call with the same singular_coords verdict, min_n_, min_x_, removes nothing, and every "
              "algorithm returns the same exception or the same answer field by field "
              "(C14_pe_solution_equals_physical_deletion, no hypothesis).  NOT in that statement: the unknowns_ table (it is the "
              "table with the stand-point cluster numbers relabelled; not proved) — there and for a removed point left in the "
              "file as free (second inner call; evaluated example corFree, same answers) the oracle (gama-local on the file "
              "with the elements deleted) is the evidence.")
TECHNIQUE = "Lean 4 proof over a model partly regenerated from the source (translator) + model/implementation correspondence + end-to-end oracle"
TRUSTED = ["tools/gen/c14_revision.py: regex/mini-parser translator of local_revision.{h,cpp}, TestAbsTermVisitor and the "
           "StandPoint loop of revision_observations (interpreter TStmt.run / TCond.eval in Model/ReviseTypes.lean: std::set as a "
           "duplicate-free list in insertion order)",
           "specification tables Gama.Rev.Spec.* in lean/Gama/Model/ReviseSpec.lean (part of the statements)",
           "tools/gen/c14_nets.py: generator and the oracle's delete_items (Lean's deleteItems is compared with what it is handed by "
           "the model-side del operation of drv_revise)",
           "the dictionary RevPE.netOf / delObs of lean/Gama/Model/RevisePE.lean (hand-written; point id = position in PD) between "
           "C14's model and the executed model of project_equations()"]
MODELLED = ["removals for numerical reasons (singular_coords, huge covariances in vyrovnani_, null_space) belong to C20; "
            "cases in which they fire are counted and left out of the comparison",
            "Acord2 (approximate coordinates, orientations) runs before the modelled code; its result is taken as input",
            "the vectors rhs_ and b (linearisation, homogenisation by the Cholesky factor of the weights) are inputs of "
            "the absolute-term model (C05/C10); for networks without correlations the model's homogenisation "
            "(homDiag: b = rhs / sqrt(stdev^2/m0^2)) is compared with the member b of the C++ on every case",
            "stability of the absolute-term stage on the deleted input is proved for uncorrelated clusters "
            "(C14_abs_stage_stable_uncorrelated) and under a hypothesis on the new homogenised vector otherwise; for correlated "
            "blocks b of the deleted input is not a sub-vector of the original b (C14-F1) — counted by the oracle, not proved",
            "the executed model of project_equations() (Model/ProjectEquations.lean, owned by C05/C08/C01) names points and "
            "clusters by POSITION: C14's solution theorem deletes observations position-stably (RevPE.delObs) and keeps "
            "removed points as unused entries; id-based physical deletion (Rev.deleteItems) is proved at the level of the "
            "views only and executed by drv_revise (op del) against the oracle's deletion",
            "PE.Net describes a network after revision_points() (hxy = hz = true in RevPE.netOf); a Direction lives in a "
            "StandPoint cluster (DirInStand, C++ constructor invariant, necessary: example peBad)",
            "PD[m->to()] in test_abs_term inserts an empty point \"\" into PointData for X, Y, Z observations (not modelled; unused point)",
            "tst_* flag cascade (C04): the model's revise is the forced re-run"]
ASSUMPTIONS = ["IEEE rounding is not modelled: the absolute-term theorem is about the exact comparison the code performs; "
               "Float execution of the same definitions is compared with the C++ at 1e-9 relative"]

ALGS = ["gso", "svd", "cholesky", "envelope"]
META = ("loaded", "throw", "numeric", "bad-op")


def translate(ctx):
    try:
        changed = c14_revision.run(ctx.repo, ctx.lean / "Gama" / "Gen" / "Revision.lean")
        if changed:
            ctx.log("Gen/Revision.lean regenerated (content changed)")
    except c14_revision.Unparsable as e:
        raise TieBroken("tools/gen/c14_revision.py", str(e))
    except OSError as e:
        raise TieBroken("tools/gen/c14_revision.py", "cannot read source: " + str(e))


# ------------------------------------------------------------------ in-process correspondence

def build_gama_retry(ctx, **kw):
    """several builders share /verif/build; a concurrent run on another tree may prune the directory mid-build"""
    for attempt in range(3):
        try:
            return ctx.build_gama(**kw)
        except BuildError as e:
            if attempt == 2 or "No such file or directory" not in e.log:
                raise
            time.sleep(3 + 5 * attempt)


def build_harness(ctx):
    """the harness (itself compiled with ASan/UBSan) is linked against the sanitized libgama objects when that build
    exists for this tree or in the thorough tier; on a cold tree in the quick tier against the release objects, which
    the end-to-end oracle needs anyway (one CMake build instead of two; memory safety is not C14's subject)"""
    san = ctx.gama_dir(sanitize=True)
    if ctx.thorough or (san / ".ok").exists():
        d = build_gama_retry(ctx, sanitize=True, targets=("gama-local",))
    else:
        d = build_gama_retry(ctx, sanitize=False, targets=("gama-local",))
    objs = sorted(str(p) for p in (d / "CMakeFiles" / "libgama.dir").rglob("*.o"))
    if not objs:
        raise BuildError("c14_revise", "no libgama objects under " + str(d))
    return ctx.build_cpp("c14_revise", [ctx.verif / "harness" / "c14_revise.cpp"], libs=objs + ["-lexpat"])


def script(path, acord, tol):
    return [f"load {path} {int(acord)}", "revise", "revise", f"abs {float2hex(tol)}", "revobs", "revise"]


def split_harness(lines):
    """-> (driver lines, result lines, meta) ; everything after a throw/numeric line is dropped"""
    e, r, meta = [], [], {}
    for l in lines:
        if l.startswith("E "):
            e.append(l[2:])
        elif l.startswith("R "):
            body = l[2:]
            head = body.split(" ", 1)[0]
            if head in META:
                meta.setdefault(head, body)
                if head != "loaded":
                    break
            else:
                r.append(body)
        else:
            meta.setdefault("crash", l)
            break
    return e, r, meta


def parse_state(rlines):
    """blocks of the harness/driver output -> list of dicts in op order"""
    out, cur = [], None
    for l in rlines:
        head, _, rest = l.partition(" ")
        if head == "pts":
            cur = {"pts": dict((a.split(":")[0], a.split(":")[1]) for a in rest.split())}
            out.append(cur)
        elif head == "flag":
            cur = {"flag": rest.strip()}
            out.append(cur)
        elif head == "obs":
            cur["obs"] = [list(c) for c in rest.split("|")] if rest.strip() or "|" in rest else [[]]
        elif cur is not None:
            cur[head] = rest.split()
    return out


class Work:
    def __init__(self, ctx):
        self.dir = Path(tempfile.mkdtemp(prefix="c14-", dir=str(ctx.build)))
        self.n = 0

    def put(self, text):
        self.n += 1
        p = self.dir / f"n{self.n}.gkf"
        p.write_text(text)
        return p

    def close(self):
        shutil.rmtree(self.dir, ignore_errors=True)


def run_inprocess(ctx, exe, work, nets):
    """nets: list of (net, acord).  returns per net dict(e=driver lines, r=impl results, m=model results, meta, crash)"""
    cases, paths = [], []
    for net, acord in nets:
        p = work.put(c14_nets.to_gkf(net))
        paths.append(p)
        mode = int(acord)
        if mode == 1 and any(o["kind"] == "hdiffs" for o in net["obs"]):
            mode = 2      # AcordHdiff copies an uninitialised bool (UBSan, acordhdiff.h:46): not C14's subject
        cases.append(script(p, mode, float(net["params"]["tol-abs"])))
    impl, crashes = run_cases(exe, cases)
    res, dcases = [], []
    for i in range(len(cases)):
        e, r, meta = split_harness(impl[i])
        res.append({"e": e, "r": r, "meta": meta, "crash": crashes.get(i), "path": paths[i]})
        dcases.append(e + ["del"])         # model side only: Lean `deleteItems orig (excluded state)`
    model, _ = run_cases(ctx.driver("drv_revise"), dcases)
    for i, m in enumerate(model):
        res[i]["m"] = [l for l in m if not l.startswith("del ")]
        res[i]["del"] = dict((l.split()[1], l.split()[2:]) for l in m if l.startswith("del "))
    return res


def deleted_expected(blocks):
    """what Lean's `deleteItems` must produce, read off the FINAL state of the C++ (the arguments the oracle hands to
    the Python `delete_items`): points with a group left (id:statuses), observation count of the clusters with one left"""
    fin = next((b for b in reversed(blocks) if "pts" in b), None)
    if fin is None or "obs" not in fin:
        return None
    return {"pts": [f"{k}:{v}" for k, v in fin["pts"].items() if v != "00"],
            "obs": [str(c.count("1")) for c in fin["obs"] if "1" in c], "stable": ["1"]}


def same(r, m):
    return len(r) == len(m) and all(lines_equal(a, b, rtol=1e-9, atol=1e-300) for a, b in zip(r, m))


# ------------------------------------------------------------------ specification (python) of what must be excluded

def usable(P, st, t, roles):
    for role, g in c14_nets.GEOM[t]:
        pid = roles[role]
        if pid not in P or not st[pid]["k" + g]:
            return False
    for role, g in c14_nets.MEMBER[t]:
        if not st[roles[role]]["a" + g]:
            return False
    return True


def spec_expectation(net):
    """what the property says must happen, derived from the network description only (python copy of the
    specification tables Spec.geometry / Spec.member, the station rule, the injected blunders).
    returns dict(removed_points={id: set(groups)}, active_rev / active =[per cluster list of bool])
    Points with a status but without coordinates are taken as not computable (that is how make_case builds them)."""
    P = net["points"]
    st = {pid: c14_nets.pstate(p) for pid, p in P.items()}
    removed = {}
    for pid, s in st.items():
        g = set()
        if s["had_xy"] and not s["kxy"]:
            g.add("xy")
        if s["had_z"] and not s["kz"]:
            g.add("z")
        if g:
            removed[pid] = g
    active, outl, active_rev = [], [], []
    for ci, o in enumerate(net["obs"]):
        if o["kind"] == "obs":
            fl = []
            for it in o["items"]:
                roles = {"from": o["from"], "to": it.get("to", it.get("bs")), "bs": it.get("bs"), "fs": it.get("fs")}
                fl.append(usable(P, st, it["t"], roles))

            def rule(fl):
                tg = {it["to"] for it, a in zip(o["items"], fl) if a and it["t"] == "direction"}
                if len(tg) < 2:
                    return [a and it["t"] != "direction" for it, a in zip(o["items"], fl)]
                return fl
            fl = rule(fl)
            active_rev.append(list(fl))
            for k, it in enumerate(o["items"]):
                if fl[k] and it.get("blunder") is not None and it["blunder"] > 1:
                    fl[k] = False
                    outl.append((ci, k))
            fl = rule(fl)
            active.append(fl)
        elif o["kind"] == "hdiffs":
            fl = [usable(P, st, "dh", {"from": it["from"], "to": it["to"]}) for it in o["items"]]
            active.append(fl)
            active_rev.append(fl)
        elif o["kind"] == "vectors":
            fl = []
            for it in o["items"]:
                fl += [usable(P, st, t, {"from": it["from"], "to": it["to"]}) for t in ("xdiff", "ydiff", "zdiff")]
            active.append(fl)
            active_rev.append(fl)
        elif o["kind"] == "coords":
            fl = []
            for it in o["items"]:
                fl += [usable(P, st, c, {"id": it["id"]}) for c in ("x", "y", "z") if c in it]
            active.append(fl)
            active_rev.append(fl)
        else:
            active.append(None)
            active_rev.append(None)
    return {"removed_points": removed, "active": active, "active_rev": active_rev, "outlying": outl, "state": st}


def item_of(o, j):
    if o["kind"] == "vectors":
        it = dict(o["items"][j // 3])
        it["t"] = ("xdiff", "ydiff", "zdiff")[j % 3]
        return it
    if o["kind"] == "coords":
        k = 0
        for it in o["items"]:
            for c in ("x", "y", "z"):
                if c in it:
                    if k == j:
                        return {"t": c, "from": it["id"]}
                    k += 1
    if o["kind"] == "hdiffs":
        it = dict(o["items"][j])
        it["t"] = "dh"
        return it
    return o["items"][j]


def spec_check(net, res):
    """the code's verdicts (in-process, after the revision and at the end) against the specification"""
    fails = []
    if res["crash"] or "loaded" not in res["meta"]:
        return fails, None
    ids = res["meta"]["loaded"].split()[2:]
    blocks = parse_state(res["r"])
    if len(blocks) < 2:
        return fails, None
    # a throw / numerical removal in the abs-term op truncates the script: the revision stage is still judged
    complete = len(blocks) >= 5 and "flag" in blocks[2] and not (res["meta"].get("numeric") or res["meta"].get("throw"))
    before = blocks[1]
    absb, final = (blocks[2], blocks[4]) if complete else (None, before)
    keep = [[c == "1" for c in cl] for cl in final["obs"]]
    keep_rev = [[c == "1" for c in cl] for cl in before["obs"]]
    spec = spec_expectation(net)
    if all(a is not None for a in spec["active"]) and len(spec["active"]) == len(keep):
        stages = list(zip(spec["active_rev"], keep_rev)) + (list(zip(spec["active"], keep)) if complete else [])
        for sj, (a, k) in enumerate(stages):
            ci = sj % len(keep)
            if list(a) != list(k):
                o = net["obs"][ci]
                j = [x for x in range(min(len(a), len(k))) if a[x] != k[x]][0] if len(a) == len(k) else 0
                it = item_of(o, j)
                if it.get("blunder") is not None and sj >= len(keep):
                    what = (f"abs-term: observation with positional misclosure {it['blunder']}*tol-abs "
                            f"(stdev {it.get('stdev')}, sigma-apr {net['params']['sigma-apr']}) is "
                            + ("kept" if k[j] else "removed") + ", expected " + ("removed" if k[j] else "kept"))
                    site = "LocalNetwork::test_abs_term"
                    obsinfo = {"t": it["t"], "f": it["blunder"], "stdev": it.get("stdev"), "verdict": "kept" if k[j] else "removed"}
                    detail = f"cluster {ci} expected {a} got {k} ;obs=" + json.dumps(obsinfo)
                else:
                    frm = o.get("from", it.get("from"))
                    what = (f"revision: observation {it.get('t', o['kind'])} {frm}->{it.get('to', it.get('bs'))}"
                            + (f"/{it['fs']}" if it.get("fs") else "") + " is " + ("active" if k[j] else "passive")
                            + ", the property says " + ("excluded" if k[j] else "kept")
                            + (f" [only {net['matrix'][2]} of role {net['matrix'][1]} decides]" if net.get("matrix") else ""))
                    site = "LocalRevision" if sj < len(keep) else "LocalNetwork::revision_observations"
                    detail = f"cluster {ci} expected {a} got {k}; point states " + json.dumps(
                        {p: "".join(c for c, f in (("K", s["kxy"]), ("A", s["axy"]), ("k", s["kz"]), ("a", s["az"])) if f) for p, s in spec["state"].items()})
                fails.append((what, site, detail))
                break
    removed_ids = {ids[int(x.split(":")[0]) - 1] if int(x.split(":")[0]) <= len(ids) else x for x in final.get("removed", [])}
    for pid in spec["removed_points"]:
        if pid not in removed_ids:
            fails.append((f"reported: point {pid} without coordinates is not in removed_points", "LocalNetwork::revision_points", ""))
    return fails, ((ids, before, absb, final, keep, spec) if complete else None)


# ------------------------------------------------------------------ end-to-end on gama-local

def run_gama(gama, path, alg, out_prefix):
    txt, xml = str(out_prefix) + ".txt", str(out_prefix) + ".xml"
    for attempt in range(4):
        try:      # the shared build directory may be relinked by a concurrent check at this very moment
            rc, out, err = sh([str(gama / "gama-local"), str(path), "--algorithm", alg, "--language", "en",
                               "--text", txt, "--xml", xml], timeout=120)
            break
        except OSError:
            if attempt == 3:
                raise
            time.sleep(2 + 3 * attempt)
    t = Path(txt).read_text(errors="replace") if Path(txt).exists() else ""
    x = Path(xml).read_text(errors="replace") if Path(xml).exists() else ""
    return rc, t, x, err


def text_removed_points(text):
    m = re.search(r"Removed points and coordinates\n\*+\n\n(.*?)\n\n", text, re.S)
    res = []
    if m:
        for l in m.group(1).splitlines():
            mm = re.match(r"\s*(\S+)\s{3}(.*\S)\s*$", l)
            if mm:
                res.append((mm.group(1), mm.group(2)))
    return res


def text_outlying(text):
    m = re.search(r"Outlying absolute terms in project equations\n\*+\n\n.*?\n=+[^\n]*\n\n(.*?)\n\n\n", text, re.S)
    idx = []
    if m:
        for l in m.group(1).splitlines():
            if len(l) > 5 and l[:4].strip().isdigit() and l[4] == " ":
                idx.append(int(l[:4]))
    return idx


def text_equations(text):
    m = re.search(r"Number of project equations:\s*(\d+)", text)
    return int(m.group(1)) if m else None


NUMERIC_REASONS = ("singular", "indeterminable")


def close(a, b, rtol=1e-6, atol=1e-6):
    if a is None or b is None:
        return a is None and b is None
    return abs(a - b) <= atol + rtol * max(abs(a), abs(b))


def compare_results(xa, xb):
    """adjustment XML of the original vs of the input with the excluded items deleted"""
    a, b = gen_net.parse_result_xml(xa), gen_net.parse_result_xml(xb)
    diffs = []
    if set(a["adjusted"]) != set(b["adjusted"]):
        diffs.append(f"adjusted point sets differ: {sorted(set(a['adjusted']) ^ set(b['adjusted']))}")
    for pid in set(a["adjusted"]) & set(b["adjusted"]):
        for c in a["adjusted"][pid]:
            if not close(a["adjusted"][pid].get(c), b["adjusted"][pid].get(c), 1e-9, 2e-5):
                diffs.append(f"adjusted {pid}.{c}: {a['adjusted'][pid].get(c)} vs {b['adjusted'][pid].get(c)}")
    for k in ("dof", "defect"):
        if a[k] != b[k]:
            diffs.append(f"{k}: {a[k]} vs {b[k]}")
    if not close(a["sum_of_squares"], b["sum_of_squares"], 1e-5, 1e-6):
        diffs.append(f"sum of squares: {a['sum_of_squares']} vs {b['sum_of_squares']}")
    if len(a["obs"]) != len(b["obs"]):
        diffs.append(f"number of adjusted observations: {len(a['obs'])} vs {len(b['obs'])}")
    else:
        for i, (oa, ob) in enumerate(zip(a["obs"], b["obs"])):
            if (oa["t"], oa.get("from"), oa.get("to")) != (ob["t"], ob.get("from"), ob.get("to")):
                diffs.append(f"observation {i + 1}: {oa['t']} {oa.get('from')}-{oa.get('to')} vs {ob['t']} {ob.get('from')}-{ob.get('to')}")
                break
            if not close(oa.get("adj"), ob.get("adj"), 1e-9, 2e-5):
                diffs.append(f"adjusted observation {i + 1}: {oa.get('adj')} vs {ob.get('adj')}")
    return diffs


def oracle_one(ctx, gama, work, net, res, algs, parsed):
    """end-to-end checks for one network (the in-process spec check passed); returns list of (what, site, detail), stats"""
    fails, stats = [], {}
    ids, before, absb, final, keep, spec = parsed
    groups = {}
    for k, st in final["pts"].items():
        groups[ids[int(k) - 1]] = (st[0] != "0", st[1] != "0")
    nactive = sum(sum(1 for c in cl if c) for cl in keep)
    try:
        dele = c14_nets.delete_items(net, keep, groups)
    except (ValueError, AssertionError):
        dele = None
        stats["oracle_no_deletion_partial_item"] = 1
    if dele is not None:
        k = sum(1 for o, fl in zip(net["obs"], keep) if o.get("cov") and o.get("band") and not all(fl) and any(fl))
        if k:
            stats["oracle_correlated_clusters_with_rows_deleted"] = k
    p_orig = res["path"]
    p_del = work.put(c14_nets.to_gkf(dele)) if dele is not None else None
    outl_expected = [i + 1 for i, t in enumerate(absb.get("terms", [])) if hex2float(t) != 0.0] if absb["flag"] == "1" else []
    for alg in algs:
        rc, text, xml, err = run_gama(gama, p_orig, alg, str(p_orig) + "." + alg)
        stats["gama_runs"] = stats.get("gama_runs", 0) + 1
        rc2, text2, xml2, err2 = 0, None, None, ""
        if p_del is not None:
            rc2, text2, xml2, err2 = run_gama(gama, p_del, alg, str(p_del) + "." + alg)
            stats["gama_runs"] += 1
        if rc not in (0, 1) or rc2 not in (0, 1):
            fails.append((f"gama-local --algorithm {alg} ended with rc={rc}/{rc2}", "gama-local", (err + err2)[-1500:]))
            continue
        rp = text_removed_points(text)
        numeric = any(any(w in reason for w in NUMERIC_REASONS) for _, reason in rp) or text_equations(text) is None or not xml
        if text2 is not None:
            numeric = numeric or any(any(w in reason for w in NUMERIC_REASONS) for _, reason in text_removed_points(text2)) \
                or text_equations(text2) is None or not xml2
        if numeric:
            stats["oracle_numeric_removal"] = stats.get("oracle_numeric_removal", 0) + 1
            continue
        # (b) visible in --text
        listed = {}
        for pid, reason in rp:
            listed.setdefault(pid, []).append(reason)
        for pid, (axy, az) in groups.items():
            s = spec["state"].get(pid)
            if s is None:
                continue
            for had, act, word in ((s["had_xy"], axy, "xy"), (s["had_z"], az, "z")):
                if had and not act:
                    if not any(r.startswith("missing") and r.endswith(" " + word) for r in listed.get(pid, [])):
                        fails.append((f"reported: --text does not list point {pid} ({word}) under 'Removed points and coordinates' ({alg})",
                                      "GeneralParameters", text[:1500]))
        if text_equations(text) != nactive:
            fails.append((f"reported: 'Number of project equations' is {text_equations(text)}, {nactive} observations are active ({alg})",
                          "GeneralParameters", text[:1500]))
        if sorted(text_outlying(text)) != sorted(outl_expected):
            fails.append((f"reported: outlying-terms listing {text_outlying(text)} != observations removed {outl_expected} ({alg})",
                          "OutlyingAbsoluteTerms", text[:1500]))
        # (a) equals deletion; the deleted FILE has the observations Lean's `deleteItems` keeps, and gama-local
        #     excludes nothing more on it (stability: no outlying-terms table, no removed point)
        if text2 is not None and res.get("del", {}).get("obs") is not None:
            nkept = sum(int(x) for x in res["del"]["obs"])
            if text_equations(text2) != nkept:
                fails.append((f"deletion: gama-local counts {text_equations(text2)} project equations on the deleted input, "
                              f"the model's deleteItems keeps {nkept} observations ({alg})", "deleteItems", text2[:1500]))
            stats["oracle_deleted_input_runs"] = stats.get("oracle_deleted_input_runs", 0) + 1
            if text_outlying(text2):
                # C14_abs_stage_stable_uncorrelated: impossible without correlated blocks; with them the homogenised
                # term of a kept observation changes with the deleted rows (C14-F1) — counted, not judged
                if any(o.get("cov") and o.get("band") for o in net["obs"]):
                    stats["oracle_deleted_input_lists_outlying_correlated"] = stats.get("oracle_deleted_input_lists_outlying_correlated", 0) + 1
                else:
                    fails.append((f"stability: gama-local lists outlying absolute terms {text_outlying(text2)} on the input with the "
                                  f"excluded items deleted ({alg})", "remove_huge_abs_terms", text2[:1500]))
        if xml2 is not None:
            diffs = compare_results(xml, xml2)
            if diffs:
                fails.append((f"deletion: results differ from the input with the excluded items deleted ({alg}): " + "; ".join(diffs[:3]),
                              "LocalNetwork", "\n".join(diffs[:20])))
        if fails:
            break
    return fails, stats


def payload(net, acord, extra=None):
    d = {"stream": "network", "net": net, "acord": acord, "gkf": c14_nets.to_gkf(net)}
    if extra:
        d.update(extra)
    return d


def gen_nets(ctx, n_rev, n_e2e):
    nets = []
    for op in ("eq", "above", "below"):
        nets.append((c14_nets.boundary_case(op=op), True, True))
    for k, m in enumerate(c14_nets.matrix_cases()):      # one decisive requirement per (type, role)
        nets.append((m, True, [ALGS[k % 4]] if not ctx.thorough else True))
    corpus = ctx.verif / "corpus" / "C14"
    if corpus.exists():
        for f in sorted(corpus.glob("*.json")):
            j = json.loads(f.read_text())
            nets.append((j["net"], j.get("acord", True), True))
    fams = [["isolated"], ["one_element"], ["single_dir"], ["dup_dir"], ["unknown_to"], ["blunder"], ["blunder2"],
            ["blunder_w"], ["blunder_w"], ["angle_fs_missing"], ["zangle_mid"], ["isolated", "single_dir", "blunder2"], [],
            ["single_dir_passive"], ["single_dir_passive", "blunder"], ["corr", "unknown_to"], ["corr", "one_element"], ["corr", "single_dir"], ["corr", "angle_fs_missing"],
            ["corr", "unknown_to", "dup_dir"], ["corr", "one_element", "unknown_to"],
            ["rep_dir"], ["rep_dir"], ["rep_dir"], ["rep_dir"], ["rep_dir"], ["rep_dir"], ["rep_dir", "unknown_to"], ["rep_dir", "isolated"]]
    for k in range(n_e2e):
        want = fams[k] if k < len(fams) else None
        nets.append((c14_nets.make_case(ctx.rng, want=want), True, True))
    for k in range(n_rev):
        nets.append((c14_nets.make_case(ctx.rng), ctx.rng.random() < 0.75, False))
    return nets


def check_nets(ctx, corr, nets, algs, label="net"):
    gama = build_gama_retry(ctx, sanitize=False, targets=("gama-local",))
    exe = build_harness(ctx)
    work = Work(ctx)
    try:
        res = run_inprocess(ctx, exe, work, [(n, a) for n, a, _ in nets])
        jobs = []
        for i, ((net, acord, e2e), r) in enumerate(zip(nets, res)):
            blocks = parse_state(r["r"])
            excluded = any(b.get("removed") or b.get("rejected") for b in blocks) or any(b.get("flag") == "1" for b in blocks)
            corr.case(key=sha(c14_nets.to_gkf(net)) if excluded else None,
                      sample={"defects": net.get("defects"), "blunders": net.get("blunders"), "impl": r["r"][:8]} if i in (3, 4) else None)
            for b in blocks:
                corr.count("removed_point_records", len(b.get("removed", [])) if b is blocks[-1] else 0)
            if blocks:
                corr.count("rejected_observations", len(blocks[-1].get("rejected", [])))
            if any(b.get("flag") == "1" for b in blocks):
                corr.count("nets_with_outlying_terms")
            if any("hom" in b for b in blocks):
                corr.count("hom_vectors_compared")
            for d in net.get("defects", []):
                corr.count("defect_" + d[0])
                if d[0] == "rep_dir":
                    gross = any(b.get("reading") is not None and b["f"] > 1 for b in net.get("blunders", []))
                    corr.count("rep_dir_%s_%s" % (d[3], "gross" if gross else "small"))
            if r["crash"]:
                corr.fail("revision harness crashed (sanitizer)", payload(net, acord), "LocalNetwork", r["crash"][1])
                continue
            if "crash" in r["meta"]:
                corr.fail("revision harness: unexpected output", payload(net, acord), "harness", r["meta"]["crash"])
                continue
            if "numeric" in r["meta"]:
                corr.count("numeric_removal_in_project_equations")
            if "throw" in r["meta"]:
                corr.count("throw_" + r["meta"]["throw"].split()[1])
            if not same(r["r"], r["m"]):
                k = next((j for j, (a, b) in enumerate(zip(r["r"], r["m"])) if not lines_equal(a, b, rtol=1e-9)), min(len(r["r"]), len(r["m"])))
                corr.disagree("revise", r["e"] + ["# gkf: " + c14_nets.to_gkf(net)], r["r"], r["m"],
                              why=f"first difference at result line {k}: impl `{(r['r'] + ['<none>'])[k][:200]}` model `{(r['m'] + ['<none>'])[k][:200]}`")
            if not any(k in r["meta"] for k in ("throw", "numeric", "crash")) and same(r["r"], r["m"]):
                want = deleted_expected(blocks)
                if want is not None:
                    corr.count("deleteItems_model_runs")
                    if r.get("del") != want:
                        corr.disagree("deleteItems", r["e"] + ["del", "# gkf: " + c14_nets.to_gkf(net)],
                                      [f"del {k} " + " ".join(v) for k, v in want.items()],
                                      [f"del {k} " + " ".join(v) for k, v in (r.get("del") or {}).items()],
                                      why="Lean deleteItems(input, excluded(final state)) differs from the deletion the oracle performs")
            if acord:
                sfails, parsed = spec_check(net, r)
                corr.count("spec_checked_networks")
                if net.get("matrix"):
                    corr.count("requirement_matrix_networks")
                for what, site, detail in sfails[:1]:
                    corr.fail(what, payload(net, acord), site, detail)
                if e2e and parsed is not None and not sfails:
                    jobs.append((net, acord, r, parsed, algs if e2e is True else [a for a in e2e if a in ALGS]))
                elif e2e and parsed is None:
                    corr.count("oracle_skipped_numeric")
        with concurrent.futures.ThreadPoolExecutor(max_workers=12) as ex:
            futs = [(net, acord, ex.submit(oracle_one, ctx, gama, work, net, r, al, parsed)) for net, acord, r, parsed, al in jobs]
            for net, acord, f in futs:
                fails, stats = f.result()
                for k, v in stats.items():
                    corr.count(k, v)
                corr.count("oracle_networks")
                for what, site, detail in fails[:1]:
                    corr.fail(what, payload(net, acord), site, detail)
    finally:
        work.close()


def correspond(ctx, corr):
    nets = gen_nets(ctx, ctx.size(120, 1500), ctx.size(40, 400))
    check_nets(ctx, corr, nets, ALGS)
    if corr.stats.get("oracle_networks", 0) and \
            corr.stats.get("oracle_numeric_removal", 0) + corr.stats.get("oracle_skipped_numeric", 0) > 0.5 * 4 * corr.stats["oracle_networks"]:
        corr.inconclusive.append("more than half of the end-to-end runs hit numerical removals (C20) and were skipped")
    if not corr.stats.get("oracle_correlated_clusters_with_rows_deleted", 0):
        corr.inconclusive.append("no correlated cluster (band > 0) lost a row/column in the end-to-end deletion comparison")
    if not corr.stats.get("hom_vectors_compared", 0):
        corr.inconclusive.append("the homogenised vector was never compared (no network without correlations reached the abs-term op)")
    if not corr.stats.get("rep_dir_firstA_gross", 0) or not corr.stats.get("rep_dir_laterA_gross", 0) + corr.stats.get("rep_dir_B_gross", 0):
        corr.inconclusive.append("no direction set with a repeated target whose first (resp. a later / another) reading is a gross blunder")
    if len(corr.nontrivial) < 0.3 * corr.evaluations:
        corr.inconclusive.append("fewer than 30 % of the networks had an exclusion")


def search(ctx, broken, corr):
    """something no longer checks: look harder on the implementation with the spec oracle (targeted families first)"""
    c2 = Corr()
    nets = [(c14_nets.boundary_case(op=op), True, True) for op in ("eq", "above", "below")]
    nets += [(m, True, ["gso"]) for m in c14_nets.matrix_cases()]
    fams = [["rep_dir"], ["dup_dir"], ["single_dir"], ["single_dir_passive"], ["isolated"], ["one_element"], ["blunder"], ["blunder2"], ["unknown_to"],
            ["angle_fs_missing"], ["blunder_w"], ["zangle_mid"]]
    for k in range(ctx.size(140, 600)):
        dim = 3 if k % 3 == 2 else None
        nets.append((c14_nets.make_case(ctx.rng, want=fams[k % len(fams)] + (["blunder"] if k % 2 else []), dim=dim), True, True))
    check_nets(ctx, c2, nets, ["gso", "envelope"])
    return c2.failures


def classify(ctx, failure):
    """C14-F1 (LocalNetwork::test_abs_term compares the homogenised term b with tol-abs instead of rhs_).
    Signature, evaluated on the failing network itself: the failure is an abs-term verdict on an angular
    observation whose stdev differs from sigma-apr, the verdict is the one the scaled term predicts
    (f*sigma-apr/stdev instead of f), and the failure DISAPPEARS when nothing but that observation's stdev is
    set to sigma-apr (its positional misclosure does not depend on the weight)."""
    if not (failure.what.startswith("abs-term:") and ";obs=" in failure.detail):
        return None
    o = json.loads(failure.detail.split(";obs=", 1)[1])
    net = failure.replay.get("net", {})
    m0 = float(net.get("params", {}).get("sigma-apr", 10))
    if o["t"] not in ("direction", "angle", "azimuth", "z-angle") or o.get("stdev") is None or float(o["stdev"]) == m0:
        return None
    scaled = o["f"] * m0 / float(o["stdev"])
    if not ((o["verdict"] == "kept" and o["f"] > 1 and scaled <= 1) or (o["verdict"] == "removed" and o["f"] <= 1 and scaled > 1)):
        return None
    # behavioural part: same network, every blundered angular observation weighted with sigma-apr
    net2 = json.loads(json.dumps(net))
    for st in net2["obs"]:
        if st["kind"] == "obs":
            for it in st["items"]:
                if it.get("blunder") is not None and it["t"] in ("direction", "angle", "azimuth", "z-angle"):
                    it["stdev"] = m0
    for b in net2.get("blunders", []):
        if b["t"] in ("direction", "angle", "azimuth", "z-angle"):
            b["stdev"] = m0
    c = Corr()
    try:
        check_nets(ctx, c, [(net2, failure.replay.get("acord", True), True)], ALGS[:1])
    except BuildError:
        return None
    if c.failures or c.disagreements:
        return None
    return "C14-F1"


def explained_by_known(ctx, broken_item, matched_ids):
    return False


def replay(ctx, pl):
    f = pl.get("failure") or {}
    inp = f.get("input") or {}
    if "net" not in inp:
        print(json.dumps(pl.get("no_longer_checks") or f, indent=1)[:4000])
        return 0
    c = Corr()
    check_nets(ctx, c, [(inp["net"], inp.get("acord", True), True)], ALGS)
    for x in c.failures:
        print("FAILS:", x.what)
    for d in c.disagreements:
        print("DISAGREES:", d["why"])
    return 1 if (c.failures or c.disagreements) else 0
