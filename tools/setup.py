#!/usr/bin/env python3
"""Run once after a fresh restore (offline): builds the Lean modules and drivers that the
registered checks need (their own targets, not every file in the tree), so that the first
quick run of each check is incremental.  Harnesses and gama executables are built by the
checks themselves from /repo's current working tree (warm them here too, best effort)."""
import importlib
import json
import subprocess
import sys
import time
from pathlib import Path

sys.path.insert(0, str(Path(__file__).resolve().parent))
VERIF = Path(__file__).resolve().parents[1]
man = json.loads((VERIF / "MANIFEST.json").read_text())
targets = []
for c in man["checks"]:
    from lib import core as _core
    m = _core.load_plugin(c["property_id"])
    for t in list(getattr(m, "LEAN_TARGETS", [])) + list(getattr(m, "DRIVERS", [])):
        if t not in targets:
            targets.append(t)
t0 = time.time()
print("lake build", len(targets), "targets", flush=True)
r = subprocess.run(["lake", "build"] + targets, cwd=VERIF / "lean")
if r.returncode != 0:       # fall back to one by one so that one broken module does not block the others
    for t in targets:
        rr = subprocess.run(["lake", "build", t], cwd=VERIF / "lean", capture_output=True, text=True)
        print(("ok   " if rr.returncode == 0 else "FAIL ") + t, flush=True)
print("lean build %.0fs" % (time.time() - t0), flush=True)
# warm the shared C++ builds (best effort)
try:
    from lib import core
    ctx = core.Ctx("setup", "quick", 1)
    for san in (False, True):
        try:
            ctx.build_gama(sanitize=san)
            print("gama build", "san" if san else "rel", "ok", flush=True)
        except Exception as e:  # noqa
            print("gama build failed:", e, flush=True)
except Exception as e:  # noqa
    print("warm-up skipped:", e)
print("setup done %.0fs" % (time.time() - t0))
