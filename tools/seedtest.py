#!/usr/bin/env python3
"""Run registered checks against a seeded change:  seedtest.py <patch.diff> <ID> [<ID> …] [--tier quick|thorough]
The patch is applied in a scratch worktree of /repo's HEAD (never in /repo), the checks run with
GAMA_REPO pointing at it, the worktree is removed afterwards.  Prints one JSON line per check."""
import json
import os
import re
import subprocess
import sys
import time
from pathlib import Path

VERIF = Path(__file__).resolve().parents[1]
args = [a for a in sys.argv[1:] if not a.startswith("--")]
tier = "thorough" if "--tier=thorough" in sys.argv or "thorough" in sys.argv[1:] and "--tier" in sys.argv else "quick"
patch, ids = Path(args[0]).resolve(), [a for a in args[1:] if a not in ("quick", "thorough")]
wt = Path(f"/tmp/seedwt-{os.getpid()}")
subprocess.run(["git", "-C", "/repo", "worktree", "add", "-q", str(wt), "HEAD"], check=True)
try:
    r = subprocess.run(["git", "-C", str(wt), "apply", "--3way", str(patch)], capture_output=True, text=True)
    if r.returncode != 0:
        r = subprocess.run(["git", "-C", str(wt), "apply", str(patch)], capture_output=True, text=True)
    if r.returncode != 0:
        print(json.dumps({"patch": str(patch), "error": "patch does not apply: " + r.stderr[-400:]}))
        sys.exit(2)
    for pid in ids:
        t0 = time.time()
        env = dict(os.environ, GAMA_REPO=str(wt))
        p = subprocess.run(["python3", "tools/check.py", pid, "--tier", tier], cwd=VERIF, env=env, capture_output=True, text=True)
        out = p.stdout + p.stderr
        viol = [l for l in out.splitlines() if l.startswith("VIOLATION")]
        summ = [l for l in out.splitlines() if "correspondence:" in l or "lake build" in l or "something broke" in l]
        replay = None
        m = re.search(r"replay=(\S+)", viol[0]) if viol else None
        what = None
        if m and Path(m.group(1)).exists():
            rp = json.loads(Path(m.group(1)).read_text())
            replay = m.group(1)
            what = (rp.get("failure") or {}).get("what") or [b.get("name") for b in rp.get("no_longer_checks", [])][:3]
        print(json.dumps({"patch": str(patch), "check": pid, "rc": p.returncode, "violation": viol[:1],
                          "no_failing_input": bool(viol) and "no-failing-input-found" in viol[0],
                          "what": what, "replay": replay, "summary": [s[-160:] for s in summ][-3:],
                          "wall_s": round(time.time() - t0, 1)}), flush=True)
finally:
    subprocess.run(["git", "-C", "/repo", "worktree", "remove", "--force", str(wt)])
