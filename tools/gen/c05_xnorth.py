#!/usr/bin/env python3
"""C05 translator: `PointData::xNorthAngle()` (lib/gnu_gama/local/gamadata.cpp) and the handedness
predicates of lcoords.h  ->  lean/Gama/Gen/XNorth.lean.

Accepted shape of xNorthAngle (anything else raises TieBroken):

    int lh = <int>;
    switch (local_coordinate_system) { (case CS::<A>:)+ lh = <int>; break; ...  default:; }
    ( if (<cond>) lh <op> <int-expr>;  |  lh <op> <int-expr>; )*          <op> in  = += -= *= %=
    return lh*G2R;                                                      G2R = M_PI/200.0 (float.h)

<int-expr> : integer literals, lh, + - * / %, parentheses (C semantics: / and % truncate);
<cond>     : right_handed_angles(), left_handed_angles(), comparisons of <int-expr>, ! && ||.
The generated definition follows the statements one by one (re-assignment = shadowing `let`),
over `Int`, so that a changed table entry, a changed reflection or a changed reduction all show up
in the text the theorems `C05_xnorth_spec` / `C05_azimuth_rhs_geographic` are about.
"""
import re
from pathlib import Path

NAME = "c05_xnorth"
try:
    from lib.core import TieBroken
except Exception:                                   # stand-alone use
    class TieBroken(Exception):
        def __init__(self, name, detail=""):
            super().__init__(f"{name}: {detail}")
            self.name, self.detail = name, detail


def broken(msg):
    raise TieBroken(NAME, msg)


CS_ORDER = ["EN", "NW", "SE", "WS", "NE", "SW", "ES", "WN"]      # declaration order in Model/LinTypes.lean


def strip_comments(src):
    src = re.sub(r"/\*.*?\*/", " ", src, flags=re.S)
    return re.sub(r"//[^\n]*", " ", src)


TOK = re.compile(r"\s*(?:(\d+\.\d*|\d+)|([A-Za-z_][A-Za-z_0-9]*(?:::[A-Za-z_][A-Za-z_0-9]*)*)|(==|!=|<=|>=|&&|\|\||\+=|-=|\*=|%=|/=|[-+*/%(){};:<>=!,]))")


def tokenize(s, what):
    out, i = [], 0
    s = s.rstrip()
    while i < len(s):
        m = TOK.match(s, i)
        if not m:
            broken(f"{what}: cannot tokenize at {s[i:i+30]!r}")
        out.append(m.group(1) or m.group(2) or m.group(3))
        i = m.end()
    return out


class P:
    def __init__(self, toks):
        self.t, self.i = toks, 0

    def peek(self, k=0):
        return self.t[self.i + k] if self.i + k < len(self.t) else None

    def next(self):
        x = self.peek()
        if x is None:
            broken("xNorthAngle: unexpected end of body")
        self.i += 1
        return x

    def eat(self, s):
        x = self.next()
        if x != s:
            broken(f"xNorthAngle: expected {s!r}, found {x!r}")

    # integer expressions ------------------------------------------------
    def iexpr(self):
        e = self.iterm()
        while self.peek() in ("+", "-"):
            op = self.next()
            e = f"({e} {op} {self.iterm()})"
        return e

    def iterm(self):
        e = self.iunary()
        while self.peek() in ("*", "/", "%"):
            op = self.next()
            r = self.iunary()
            e = f"({e} * {r})" if op == "*" else (f"(Int.tdiv {e} {r})" if op == "/" else f"(Int.tmod {e} {r})")
        return e

    def iunary(self):
        if self.peek() == "-":
            self.next()
            return f"(-{self.iunary()})"
        if self.peek() == "(":
            self.next()
            e = self.iexpr()
            self.eat(")")
            return e
        x = self.next()
        if re.fullmatch(r"\d+", x):
            return f"({x} : Int)"
        if x == "lh":
            return "lh"
        broken(f"xNorthAngle: {x!r} in an integer expression")

    # conditions -----------------------------------------------------------
    def cond(self):
        e = self.cand()
        while self.peek() == "||":
            self.next()
            e = f"({e} || {self.cand()})"
        return e

    def cand(self):
        e = self.cnot()
        while self.peek() == "&&":
            self.next()
            e = f"({e} && {self.cnot()})"
        return e

    def cnot(self):
        if self.peek() == "!":
            self.next()
            return f"(!{self.cnot()})"
        if self.peek() in ("right_handed_angles", "left_handed_angles"):
            f = self.next()
            self.eat("(")
            self.eat(")")
            return "rightHandedAngles" if f == "right_handed_angles" else "(!rightHandedAngles)"
        if self.peek() == "(":
            # parenthesised condition or parenthesised integer expression: try condition first
            save = self.i
            self.next()
            try:
                e = self.cond()
                self.eat(")")
                if self.peek() not in ("==", "!=", "<", "<=", ">", ">="):
                    return e
            except TieBroken:
                pass
            self.i = save
        a = self.iexpr()
        op = self.next()
        if op not in ("==", "!=", "<", "<=", ">", ">="):
            broken(f"xNorthAngle: comparison operator expected, found {op!r}")
        b = self.iexpr()
        lean = {"==": "==", "!=": "!=", "<": "<", "<=": "≤", ">": ">", ">=": "≥"}[op]
        return f"decide ({a} {lean} {b})" if op not in ("==", "!=") else f"({a} {lean} {b})"

    def assign(self):
        """lh <op> expr ;  ->  Lean expression for the new value"""
        self.eat("lh")
        op = self.next()
        if op not in ("=", "+=", "-=", "*=", "%="):
            broken(f"xNorthAngle: assignment operator {op!r}")
        e = self.iexpr()
        self.eat(";")
        return {"=": e, "+=": f"(lh + {e})", "-=": f"(lh - {e})", "*=": f"(lh * {e})", "%=": f"(Int.tmod lh {e})"}[op]


def function_body(src, head_re, what):
    m = re.search(head_re, src)
    if not m:
        broken(f"{what} not found")
    i, depth = m.end(), 1
    while depth and i < len(src):
        depth += (src[i] == "{") - (src[i] == "}")
        i += 1
    if depth:
        broken(f"{what}: unbalanced braces")
    return src[m.end():i - 1]


def translate_text(repo):
    loc = Path(repo) / "lib" / "gnu_gama" / "local"
    try:
        gsrc = strip_comments((loc / "gamadata.cpp").read_text())
        lsrc = strip_comments((loc / "lcoords.h").read_text())
        fsrc = strip_comments((loc / "float.h").read_text())
        asrc = strip_comments((loc / "angobs.h").read_text())
        nsrc = strip_comments((loc / "network.cpp").read_text())
    except OSError as e:
        broken(f"cannot read sources: {e}")

    # float.h -------------------------------------------------------------
    if not re.search(r"#define\s+G2R\s+M_PI/200\.0\s*$", fsrc, flags=re.M):
        broken("float.h: G2R is no longer M_PI/200.0")

    # lcoords.h -----------------------------------------------------------
    m = re.search(r"enum\s+class\s+CS\s*\{([^}]*)\}", lsrc)
    if not m:
        broken("lcoords.h: enum class CS not found")
    order = [x.strip() for x in m.group(1).split(",") if x.strip()]
    if order != CS_ORDER:
        broken(f"lcoords.h: enum CS is {order}, the model declares {CS_ORDER}")
    mr = re.search(r"bool\s+right_handed_coordinates\s*\(\)\s*const\s*\{\s*return\s+local_coordinate_system\s*(<|<=|>|>=)\s*CS::(\w+)\s*;\s*\}", lsrc)
    ml = re.search(r"bool\s+left_handed_coordinates\s*\(\)\s*const\s*\{\s*return\s+local_coordinate_system\s*(<|<=|>|>=)\s*CS::(\w+)\s*;\s*\}", lsrc)
    if not (mr and ml) or mr.group(2) not in CS_ORDER or ml.group(2) not in CS_ORDER:
        broken("lcoords.h: right_/left_handed_coordinates have an unexpected shape")
    lop = {"<": "<", "<=": "≤", ">": ">", ">=": "≥"}

    # angobs.h ------------------------------------------------------------
    if not (re.search(r"bool\s+left_handed_angles\s*\(\)\s*const\s*\{\s*return\s+left_handed_\s*;\s*\}", asrc) and
            re.search(r"bool\s+right_handed_angles\s*\(\)\s*const\s*\{\s*return\s*!\s*left_handed_\s*;\s*\}", asrc)):
        broken("angobs.h: left_/right_handed_angles are no longer left_handed_ / !left_handed_")

    # network.cpp: consistent() --------------------------------------------
    mc = re.search(r"bool\s+LocalNetwork::consistent\(\)\s*const\s*\{\s*return\s+PD\.left_handed_coordinates\(\)\s*==\s*PD\.left_handed_angles\(\)\s*;\s*\}", nsrc)
    if not mc:
        broken("network.cpp: LocalNetwork::consistent() is no longer left_handed_coordinates() == left_handed_angles()")
    if not re.search(r"if\s*\(\s*p\.test_xy\(\)\s*\)\s*p\.set_xy\(\s*p\.x\(\)\s*,\s*-\s*p\.y\(\)\s*\)\s*;", nsrc):
        broken("network.cpp: change_y_signs_for_inconsistent_system_ no longer mirrors y only")

    # gamadata.cpp ----------------------------------------------------------
    body = function_body(gsrc, r"double\s+(?:GNU_gama::local::)?PointData::xNorthAngle\(\)\s*const\s*\{", "gamadata.cpp: PointData::xNorthAngle()")
    p = P(tokenize(body, "gamadata.cpp"))
    lines = []
    p.eat("int"); p.eat("lh"); p.eat("=")
    init = p.next()
    if not re.fullmatch(r"\d+", init):
        broken("xNorthAngle: `int lh = <int>;` expected")
    p.eat(";")
    lines.append(f"  let lh : Int := {init}")
    # switch
    p.eat("switch"); p.eat("("); p.eat("local_coordinate_system"); p.eat(")"); p.eat("{")
    table, seen = [], set()
    while p.peek() == "case":
        labels = []
        while p.peek() == "case":
            p.next()
            lab = p.next()
            if not lab.startswith("CS::") or lab[4:] not in CS_ORDER:
                broken(f"xNorthAngle: case label {lab!r}")
            p.eat(":")
            if lab[4:] in seen:
                broken(f"xNorthAngle: duplicate case {lab}")
            seen.add(lab[4:])
            labels.append(lab[4:])
        val = p.assign()
        p.eat("break"); p.eat(";")
        table.append((labels, val))
    if p.peek() == "default":
        p.next(); p.eat(":")
        if p.peek() == ";":
            p.next()
        elif p.peek() == "break":
            p.next(); p.eat(";")
        else:
            broken("xNorthAngle: default: with a body")
    p.eat("}")
    arms = "".join(f"    | {' | '.join('.' + l for l in labels)} => {val}\n" for labels, val in table)
    if len(seen) < len(CS_ORDER):
        arms += "    | _ => lh\n"
    lines.append("  let lh : Int := match cs with\n" + arms.rstrip("\n"))
    # straight-line tail
    ret = None
    while p.peek() is not None:
        if p.peek() == "if":
            p.next(); p.eat("(")
            c = p.cond()
            p.eat(")")
            v = p.assign()
            lines.append(f"  let lh : Int := if {c} then {v} else lh")
        elif p.peek() == "lh":
            lines.append(f"  let lh : Int := {p.assign()}")
        elif p.peek() == "return":
            p.next()
            rest = []
            while p.peek() != ";":
                rest.append(p.next())
            p.eat(";")
            if rest != ["lh", "*", "G2R"]:
                broken(f"xNorthAngle: return {' '.join(rest)} (expected lh*G2R)")
            ret = True
            if p.peek() is not None:
                broken("xNorthAngle: statements after return")
        else:
            broken(f"xNorthAngle: statement starting with {p.peek()!r}")
    if not ret:
        broken("xNorthAngle: no return")
    lines.append("  lh")

    src_txt = " ".join(body.split())
    out = f"""/-
  GENERATED by tools/gen/c05_xnorth.py — do not edit.
  Source: lib/gnu_gama/local/gamadata.cpp (PointData::xNorthAngle), lcoords.h (enum CS,
          right_/left_handed_coordinates), angobs.h, float.h (G2R), network.cpp (consistent)
-/
import Gama.Model.LinTypes
set_option linter.unusedVariables false
namespace Gama.Gen.XNorth
open Gama Gama.Lin

/-- position in `enum class CS {{ {", ".join(order)} }}` -/
def csIndex : CS → Nat
{"".join(f"  | .{c} => {i}" + chr(10) for i, c in enumerate(order))}
/-- lcoords.h: `right_handed_coordinates() {{ return local_coordinate_system {mr.group(1)} CS::{mr.group(2)}; }}` -/
def rightHandedCoordinates (cs : CS) : Bool := decide (csIndex cs {lop[mr.group(1)]} csIndex .{mr.group(2)})
/-- lcoords.h: `left_handed_coordinates() {{ return local_coordinate_system {ml.group(1)} CS::{ml.group(2)}; }}` -/
def leftHandedCoordinates (cs : CS) : Bool := decide (csIndex cs {lop[ml.group(1)]} csIndex .{ml.group(2)})

/-- network.cpp: `consistent() {{ return PD.left_handed_coordinates() == PD.left_handed_angles(); }}`
    (`left_handed_angles() = !right_handed_angles()`); when it is false `remove_inconsistency`
    replaces every `y` by `-y` (`p.set_xy(p.x(), -p.y())`) -/
def consistent (cs : CS) (rightHandedAngles : Bool) : Bool := leftHandedCoordinates cs == !rightHandedAngles

/-- gamadata.cpp `PointData::xNorthAngle()`, the integer `lh` (gons) that is returned as `lh*G2R`:
    `{src_txt}` -/
def xNorthGon (cs : CS) (rightHandedAngles : Bool) : Int :=
{chr(10).join(lines)}

/-- `return lh*G2R;` with `G2R` = `M_PI/200.0` expanded textually: `(lh*M_PI)/200.0` -/
def xNorthAngle {{K : Type}} [TrigScalar K] (cs : CS) (rightHandedAngles : Bool) : K :=
  (Scalar.ofInt (xNorthGon cs rightHandedAngles) * TrigScalar.pi) / Scalar.ofNat 200

end Gama.Gen.XNorth
"""
    return out


def translate(repo, lean_dir):
    text = translate_text(repo)
    dst = Path(lean_dir) / "Gama" / "Gen" / "XNorth.lean"
    dst.parent.mkdir(parents=True, exist_ok=True)
    if not dst.exists() or dst.read_text() != text:
        dst.write_text(text)
    return dst


if __name__ == "__main__":
    import sys
    print(translate_text(sys.argv[1] if len(sys.argv) > 1 else "/repo"))
