"""Translator C14:  lib/gnu_gama/local/local_revision.{h,cpp} + the TestAbsTermVisitor /
revision_points / test_abs_term / remove_huge_abs_terms parts of lib/gnu_gama/local/network.cpp
    ->  lean/Gama/Gen/Revision.lean

What is read (anything that does not have the expected shape is a broken tie):

 * local_revision.h   `void visit(<Class> *element) { if (!<fn>(element)) element->set_passive(); }`
 * local_revision.cpp `bool LocalRevision::<fn>(const <Class>* obs) const { … }` whose body must be
       if (!obs->active()) return false;
       { PointData::const_iterator v = PD.find(obs-><role>());  if (v == PD.end()) return false;
         { if (!(*v).second.<flag>()) return false; }* }*
       return true;
   -> per observation type the list of (role, [flags]) in the coded order
 * network.cpp  class TestAbsTermVisitor: constructor initialisers (d0(0)), setFromTo (guard and the
   three assignments), every `void visit(<Class>*) { [const] double n = e; …  check(e); }`
   (C expressions are parsed and re-printed as Lean terms over `[Scalar K]`, the macro R2G is
   expanded textually as the preprocessor does), `check`: the comparison operator and both branches
 * network.cpp  LocalNetwork::test_abs_term: which vector is handed to the visitor (`b` or `rhs_`),
   `PD[m->from()]`, `PD[m->to()]`
 * network.cpp  LocalNetwork::remove_huge_abs_terms: guard, `if (test_abs_term(++r)) set_passive`,
   `update(Observations)`
 * network.cpp  LocalNetwork::revision_points: after `b.set_unused_xy()` / `b.set_unused_z()` the
   `removed((*bod).first, rm_…)` call (the reason code, or none when the call is gone)
 * network.h    `enum rm_points {…}` order (the numeric codes), `removed()` pushes id and code
 * network.cpp  LocalNetwork::revision_observations: the whole skeleton (LocalRevision over all
   observations, the StandPoint loop, Cluster::update, the revised/removed lists, pocmer_) with two
   holes: (1) the statement executed for every `const Direction* d` of `sp->observation_list`
   (the loop that counts targets), parsed into a little statement language (conditions
   d->active(), targets.find(d->to()) ==/!= targets.end() directly or through a declared iterator,
   targets.insert(d->to()).second, !, &&, ||; statements active_directions++, targets.insert(d->to()),
   iterator declaration, if/else, blocks) -> `Gen.targetsBody`; (2) the test
   `if (active_directions <op> N)` that silences the set -> `Gen.standCmp`, `Gen.standBound`
"""
import re
from pathlib import Path

CLASSES = {"Direction": "direction", "Distance": "distance", "Angle": "angle", "H_Diff": "h_diff",
           "S_Distance": "s_distance", "Z_Angle": "z_angle", "X": "x", "Y": "y", "Z": "z",
           "Xdiff": "xdiff", "Ydiff": "ydiff", "Zdiff": "zdiff", "Azimuth": "azimuth"}
ORDER = ["direction", "distance", "angle", "h_diff", "s_distance", "z_angle", "x", "y", "z",
         "xdiff", "ydiff", "zdiff", "azimuth"]
ROLES = {"from": "from", "to": "to", "bs": "to", "fs": "fs"}
FLAGS = {"active_xy", "test_xy", "active_z", "test_z"}
RM_CODES = ["rm_missing_xyz", "rm_missing_xy", "rm_missing_z", "rm_singular_xy", "rm_singular_z",
            "rm_huge_cov_xyz", "rm_huge_cov_xy", "rm_huge_cov_z"]


class Unparsable(Exception):
    pass


def strip_cxx_comments(s):
    s = re.sub(r"/\*.*?\*/", " ", s, flags=re.S)
    return re.sub(r"//[^\n]*", "", s)


def norm(s):
    return re.sub(r"\s+", "", s)


def balanced(src, start, open_ch="{", close_ch="}"):
    """src[start] == open_ch; returns index after the matching close"""
    assert src[start] == open_ch
    d = 0
    for i in range(start, len(src)):
        if src[i] == open_ch:
            d += 1
        elif src[i] == close_ch:
            d -= 1
            if d == 0:
                return i + 1
    raise Unparsable("unbalanced " + open_ch)


def body_of(src, header_re, what):
    m = re.search(header_re, src)
    if not m:
        raise Unparsable(f"{what}: definition not found")
    i = src.index("{", m.end() - 1) if src[m.end() - 1] != "{" else m.end() - 1
    j = balanced(src, i)
    return src[i + 1:j - 1], m


# ------------------------------------------------------------------ local_revision.{h,cpp}

def revision_table(repo):
    h = strip_cxx_comments((repo / "lib/gnu_gama/local/local_revision.h").read_text())
    c = strip_cxx_comments((repo / "lib/gnu_gama/local/local_revision.cpp").read_text())
    fn_of = {}
    for m in re.finditer(r"void\s+visit\s*\(\s*(\w+)\s*\*\s*(\w+)\s*\)\s*\{([^}]*)\}", h):
        cls, var, body = m.group(1), m.group(2), norm(m.group(3))
        mm = re.fullmatch(r"if\(!(\w+)\(%s\)\)%s->set_passive\(\);" % (var, var), body)
        if not mm:
            raise Unparsable(f"local_revision.h: visit({cls}*) is not `if (!fn(e)) e->set_passive();`: {body}")
        if cls not in CLASSES:
            raise Unparsable(f"local_revision.h: unknown observation class {cls}")
        fn_of[cls] = mm.group(1)
    missing = set(CLASSES) - set(fn_of)
    if missing:
        raise Unparsable(f"local_revision.h: no visit() for {sorted(missing)}")
    table = {}
    for cls, fn in fn_of.items():
        body, _ = body_of(c, r"bool\s+LocalRevision::%s\s*\(\s*const\s+%s\s*\*\s*obs\s*\)\s*const\s*\{" % (fn, cls),
                          f"LocalRevision::{fn}")
        stmts = [norm(s) for s in body.split(";") if norm(s)]
        if not stmts or stmts[0] != "if(!obs->active())returnfalse":
            raise Unparsable(f"LocalRevision::{fn}: first statement is not `if (!obs->active()) return false;`")
        if stmts[-1] != "returntrue":
            raise Unparsable(f"LocalRevision::{fn}: last statement is not `return true;`")
        reqs, cur, need_end = [], None, False
        for s in stmts[1:-1]:
            m1 = re.fullmatch(r"PointData::const_iterator(\w+)=PD\.find\(obs->(\w+)\(\)\)", s)
            m2 = re.fullmatch(r"if\((\w+)==PD\.end\(\)\)returnfalse", s)
            m3 = re.fullmatch(r"if\(!\(\*(\w+)\)\.second\.(\w+)\(\)\)returnfalse", s)
            if m1:
                if need_end:
                    raise Unparsable(f"LocalRevision::{fn}: iterator {cur[0]} used without PD.end() test")
                if m1.group(2) not in ROLES:
                    raise Unparsable(f"LocalRevision::{fn}: unknown role obs->{m1.group(2)}()")
                cur = (m1.group(1), ROLES[m1.group(2)], [])
                reqs.append(cur)
                need_end = True
            elif m2:
                if cur is None or m2.group(1) != cur[0] or not need_end:
                    raise Unparsable(f"LocalRevision::{fn}: misplaced PD.end() test `{s}`")
                need_end = False
            elif m3:
                if cur is None or m3.group(1) != cur[0] or need_end:
                    raise Unparsable(f"LocalRevision::{fn}: flag test on an unchecked iterator `{s}`")
                if m3.group(2) not in FLAGS:
                    raise Unparsable(f"LocalRevision::{fn}: unknown point predicate {m3.group(2)}()")
                cur[2].append(m3.group(2))
            else:
                raise Unparsable(f"LocalRevision::{fn}: statement not understood `{s}`")
        if need_end:
            raise Unparsable(f"LocalRevision::{fn}: iterator {cur[0]} without PD.end() test")
        table[CLASSES[cls]] = [(r, fl) for _, r, fl in reqs]
    return table


# ------------------------------------------------------------------ C expression -> Lean term

TOK = re.compile(r"\s*(?:(\d+\.\d*|\d*\.\d+|\d+)|(->)|([A-Za-z_]\w*)|(.))")


def tokenize(s):
    out, i = [], 0
    s = s.strip()
    while i < len(s):
        m = TOK.match(s, i)
        if not m:
            raise Unparsable(f"cannot tokenize `{s[i:]}`")
        i = m.end()
        if m.group(1):
            out.append(("num", m.group(1)))
        elif m.group(2):
            out.append(("op", "->"))
        elif m.group(3):
            out.append(("id", m.group(3)))
        elif m.group(4).strip():
            out.append(("op", m.group(4)))
    return out


ATOMS = {("obs", "value"): "c.value", ("stan", "x"): "c.sx", ("stan", "y"): "c.sy", ("stan", "z"): "c.sz",
         ("cil", "x"): "c.cx", ("cil", "y"): "c.cy", ("cil", "z"): "c.cz"}


def lit(tok):
    if "." in tok:
        a, b = tok.split(".")
        return f"(Scalar.ofSci {int((a or '0') + b)} true {len(b)} : K)" if b else f"(Scalar.ofNat {int(a)} : K)"
    return f"(Scalar.ofNat {int(tok)} : K)"


class P:
    def __init__(self, toks, locals_):
        self.t, self.i, self.locals = toks, 0, locals_

    def peek(self):
        return self.t[self.i] if self.i < len(self.t) else ("eof", "")

    def eat(self, kind=None, val=None):
        k, v = self.peek()
        if (kind and k != kind) or (val is not None and v != val):
            raise Unparsable(f"expected {val or kind}, got {v!r}")
        self.i += 1
        return v

    def expr(self):
        l = self.term()
        while self.peek() in (("op", "+"), ("op", "-")):
            op = self.eat()
            r = self.term()
            l = f"({l} {op} {r})"
        return l

    def term(self):
        l = self.unary()
        while self.peek() in (("op", "*"), ("op", "/")):
            op = self.eat()
            r = self.unary()
            l = f"({l} {op} {r})"
        return l

    def unary(self):
        if self.peek() == ("op", "-"):
            self.eat()
            return f"(- {self.unary()})"
        return self.atom()

    def atom(self):
        k, v = self.peek()
        if k == "num":
            self.eat()
            return lit(v)
        if (k, v) == ("op", "("):
            self.eat()
            e = self.expr()
            self.eat("op", ")")
            return e
        if k == "id":
            self.eat()
            if v in ("fabs", "sqrt") or v == "std":
                if v == "std":
                    self.eat("op", ":"); self.eat("op", ":")
                    v = self.eat("id")
                    if v == "abs":
                        v = "fabs"
                self.eat("op", "(")
                e = self.expr()
                self.eat("op", ")")
                return f"(Scalar.abs {e})" if v == "fabs" else f"(Scalar.sqrt {e})"
            if v == "M_PI":
                return "(Scalar.ofSci 314159265358979323846 true 20 : K)"
            if v == "b" and self.peek() == ("op", "("):
                self.eat()
                self.eat("id", "indm")
                self.eat("op", ")")
                return "c.b"
            if self.peek() == ("op", "->"):
                self.eat()
                f = self.eat("id")
                self.eat("op", "(")
                self.eat("op", ")")
                if (v, f) not in ATOMS:
                    raise Unparsable(f"unknown accessor {v}->{f}()")
                return ATOMS[(v, f)]
            if v == "d0":
                return "c.d0"
            if v in self.locals:
                return v
            raise Unparsable(f"unknown identifier {v}")
        raise Unparsable(f"unexpected token {v!r}")


def cexpr(s, locals_=()):
    s = re.sub(r"\bR2G\b", "200.0/M_PI", s)     # `#define R2G  200.0/M_PI` (float.h), no parentheses
    p = P(tokenize(s), set(locals_))
    e = p.expr()
    if p.peek()[0] != "eof":
        raise Unparsable(f"trailing tokens in `{s}`")
    return e


def statements(body):
    return [s.strip() for s in body.split(";") if s.strip()]


def abs_term_visitor(repo):
    src = strip_cxx_comments((repo / "lib/gnu_gama/local/network.cpp").read_text())
    float_h = strip_cxx_comments((repo / "lib/gnu_gama/local/float.h").read_text())
    if not re.search(r"#define\s+R2G\s+200\.0/M_PI\s*\n", float_h):
        raise Unparsable("float.h: `#define R2G  200.0/M_PI` not found")
    m = re.search(r"class\s+TestAbsTermVisitor\b[^{]*\{", src)
    if not m:
        raise Unparsable("network.cpp: class TestAbsTermVisitor not found")
    j = balanced(src, m.end() - 1)
    cls = src[m.end():j - 1]
    # constructor: d0(0), val(0)
    mc = re.search(r"TestAbsTermVisitor\s*\(\s*const\s+Vec\s*&\s*(\w+)\s*,\s*double\s+(\w+)\s*\)\s*:([^{]*)\{", cls)
    if not mc:
        raise Unparsable("TestAbsTermVisitor: constructor not found")
    inits = dict(re.findall(r"(\w+)\s*\(\s*([^)]*?)\s*\)", mc.group(3)))
    if inits.get("d0") != "0" or inits.get("b") != mc.group(1) or inits.get("tol_abs_") != mc.group(2):
        raise Unparsable(f"TestAbsTermVisitor: constructor initialisers changed: {inits}")
    # setFromTo
    body, _ = body_of(cls, r"void\s+setFromTo\s*\(\s*const\s+LocalPoint\s*&\s*from\s*,\s*const\s+LocalPoint\s*&\s*to\s*\)\s*\{", "setFromTo")
    nb = norm(body)
    ms = re.fullmatch(r"stan=&from;cil=&to;doubledx,dy;if\((.*?)\)\{(.*)\}", nb)
    if not ms:
        raise Unparsable("TestAbsTermVisitor::setFromTo: shape changed")
    if ms.group(1) != "stan->test_xy()&&cil->test_xy()":
        raise Unparsable(f"TestAbsTermVisitor::setFromTo: guard changed: {ms.group(1)}")
    raw = re.search(r"\)\s*\{(.*)\}", body, re.S).group(1)
    lets, d0 = [], None
    for s in statements(raw):
        ma = re.fullmatch(r"(\w+)\s*=\s*(.*)", s, re.S)
        if not ma:
            raise Unparsable(f"setFromTo: statement not understood `{s}`")
        if ma.group(1) == "d0":
            d0 = cexpr(ma.group(2), [n for n, _ in lets])
        elif ma.group(1) in ("dx", "dy"):
            lets.append((ma.group(1), cexpr(ma.group(2), [n for n, _ in lets])))
        else:
            raise Unparsable(f"setFromTo: unexpected assignment to {ma.group(1)}")
    if d0 is None:
        raise Unparsable("setFromTo: d0 is not assigned")
    d0_term = "".join(f"let {n} : K := {e}\n    " for n, e in lets) + d0
    # visit bodies
    visits = {}
    for mv in re.finditer(r"void\s+visit\s*\(\s*(\w+)\s*\*\s*(\w*)\s*\)\s*\{", cls):
        c = mv.group(1)
        if c not in CLASSES:
            raise Unparsable(f"TestAbsTermVisitor: unknown observation class {c}")
        k = balanced(cls, mv.end() - 1)
        sts = statements(cls[mv.end():k - 1])
        lets2, val = [], None
        for s in sts:
            md = re.fullmatch(r"(?:const\s+)?double\s+(\w+)\s*=\s*(.*)", s, re.S)
            mk = re.fullmatch(r"check\s*\((.*)\)", s, re.S)
            if md and val is None:
                lets2.append((md.group(1), cexpr(md.group(2), [n for n, _ in lets2])))
            elif mk and val is None:
                val = cexpr(mk.group(1), [n for n, _ in lets2])
            else:
                raise Unparsable(f"TestAbsTermVisitor::visit({c}*): statement not understood `{s}`")
        if val is None:
            raise Unparsable(f"TestAbsTermVisitor::visit({c}*): no check(...)")
        visits[CLASSES[c]] = "".join(f"let {n} : K := {e}\n      " for n, e in lets2) + val
    missing = set(ORDER) - set(visits)
    if missing:
        raise Unparsable(f"TestAbsTermVisitor: no visit() for {sorted(missing)}")
    # check
    body, _ = body_of(cls, r"void\s+check\s*\(\s*double\s+value\s*\)\s*\{", "check")
    mk = re.fullmatch(r"if\(value(>=|>|<=|<)tol_abs_\)val=b\(indm\);elseval=0;", norm(body))
    if not mk:
        raise Unparsable(f"TestAbsTermVisitor::check: shape changed: {norm(body)}")
    cmp_ = mk.group(1)
    # test_abs_term
    body, _ = body_of(src, r"double\s+LocalNetwork::test_abs_term\s*\(\s*int\s+indm\s*\)\s*\{", "test_abs_term")
    nb = norm(body)
    mt = re.search(r"TestAbsTermVisitortestVisitor\((\w+),tol_abs_\)", nb)
    if not mt or mt.group(1) not in ("b", "rhs_"):
        raise Unparsable("test_abs_term: vector handed to TestAbsTermVisitor not understood")
    for need in ("Observation*m=revised_obs_[indm-1]", "constLocalPoint&stan=PD[m->from()]", "constLocalPoint&cil=PD[m->to()]",
                 "testVisitor.setIndex(indm)", "testVisitor.setFromTo(stan,cil)", "m->accept(&testVisitor)",
                 "returntestVisitor.value()"):
        if need not in nb:
            raise Unparsable(f"test_abs_term: `{need}` not found")
    vec = "memberB" if mt.group(1) == "b" else "rhs"
    # remove_huge_abs_terms
    body, _ = body_of(src, r"void\s+LocalNetwork::remove_huge_abs_terms\s*\(\s*\)\s*\{", "remove_huge_abs_terms")
    nb = norm(body)
    want = ("if(!huge_abs_terms())return;intr=0;for(RevisedObsList::iteratorm=revised_obs_.begin();m!=revised_obs_.end();++m)"
            "if(test_abs_term(++r))(*m)->set_passive();update(Observations);")
    if nb != want:
        raise Unparsable(f"remove_huge_abs_terms: shape changed: {nb}")
    return d0_term, visits, cmp_, vec


def revision_points_codes(repo):
    src = strip_cxx_comments((repo / "lib/gnu_gama/local/network.cpp").read_text())
    hdr = strip_cxx_comments((repo / "lib/gnu_gama/local/network.h").read_text())
    me = re.search(r"enum\s+rm_points\s*\{([^}]*)\}", hdr)
    if not me or [x.strip() for x in me.group(1).split(",") if x.strip()] != RM_CODES:
        raise Unparsable("network.h: enum rm_points changed")
    body, _ = body_of(hdr, r"void\s+removed\s*\(\s*const\s+PointID\s*&\s*id\s*,\s*rm_points\s+rm\s*\)\s*\{", "LocalNetwork::removed")
    if norm(body) != "removed_points.push_back(id);removed_code.push_back(rm);update(Points);":
        raise Unparsable("network.h: LocalNetwork::removed changed: " + norm(body))
    body, _ = body_of(src, r"void\s+LocalNetwork::revision_points\s*\(\s*\)\s*\{", "revision_points")
    nb = norm(body)
    # the skeleton with two holes (what follows set_unused_xy / set_unused_z before `ok = false`)
    skel = (r"if\(tst_redbod_\)return;undefined_xy_z_\.erase\(undefined_xy_z_\.begin\(\),undefined_xy_z_\.end\(\)\);pocbod_=0;"
            r"for\(PointData::iteratorbod=PD\.begin\(\);bod!=PD\.end\(\);\+\+bod\)\{boolok=true;LocalPoint&b=\(\*bod\)\.second;"
            r"b\.set_xyz_0\(\);"
            r"if\(b\.active_xy\(\)\)\{if\(b\.test_xy\(\)\)\{pocbod_\+\+;\}else\{b\.set_unused_xy\(\);(.*?)ok=false;\}\}"
            r"if\(b\.active_z\(\)\)\{if\(b\.test_z\(\)\)\{if\(!b\.active_xy\(\)\|\|!b\.test_xy\(\)\)pocbod_\+\+;\}"
            r"else\{b\.set_unused_z\(\);(.*?)ok=false;\}\}"
            r"if\(!ok\)undefined_xy_z_\.push_back\(\(\*bod\)\.first\);\}tst_redbod_=true;update\(Observations\);")
    m = re.fullmatch(skel, nb)
    if not m:
        raise Unparsable("revision_points: shape changed: " + nb[:400])
    codes = []
    for hole in (m.group(1), m.group(2)):
        if hole == "":
            codes.append(None)
            continue
        mh = re.fullmatch(r"removed\(\(\*bod\)\.first,(rm_\w+)\);", hole)
        if not mh or mh.group(1) not in RM_CODES:
            raise Unparsable(f"revision_points: statement after set_unused not understood `{hole}`")
        codes.append(mh.group(1))
    return codes


# ------------------------------------------------------------------ revision_observations: the StandPoint loop

class _S:
    """prefix parser on a white-space free string"""
    def __init__(self, s):
        self.s, self.i = s, 0

    def at(self, lit_):
        return self.s.startswith(lit_, self.i)

    def eat(self, lit_):
        if not self.at(lit_):
            raise Unparsable(f"revision_observations: target loop: expected `{lit_}` at `{self.s[self.i:self.i + 60]}`")
        self.i += len(lit_)

    def opt(self, lit_):
        if self.at(lit_):
            self.i += len(lit_)
            return True
        return False

    def ident(self):
        m = re.match(r"[A-Za-z_]\w*", self.s[self.i:])
        if not m:
            raise Unparsable(f"revision_observations: target loop: identifier expected at `{self.s[self.i:self.i + 40]}`")
        self.i += m.end()
        return m.group(0)


_TO = "d->to()"


def _cond_atom(p, iters):
    if p.opt("!"):
        return f"(.not {_cond_atom(p, iters)})"
    if p.opt("("):
        c = _cond(p, iters)
        p.eat(")")
        return c
    if p.opt("d->active()"):
        return ".active"
    if p.opt(f"targets.insert({_TO}).second"):
        return ".insertedNew"
    if p.opt(f"targets.find({_TO})"):
        if p.opt("==targets.end()"):
            return "(.not .found)"
        p.eat("!=targets.end()")
        return ".found"
    if p.opt("targets.end()"):
        eq = p.opt("==")
        if not eq:
            p.eat("!=")
        if p.opt(f"targets.find({_TO})"):
            return "(.not .found)" if eq else ".found"
        v = p.ident()
        if v not in iters:
            raise Unparsable(f"revision_observations: target loop: unknown iterator {v}")
        return "(.not .itFound)" if eq else ".itFound"
    if p.opt(f"targets.count({_TO})"):
        if p.opt("==0"):
            return "(.not .found)"
        p.opt("!=0") or p.opt(">0")
        return ".found"
    v = p.ident()
    if v not in iters:
        raise Unparsable(f"revision_observations: target loop: unknown identifier {v} in a condition")
    if p.opt("==targets.end()"):
        return "(.not .itFound)"
    p.eat("!=targets.end()")
    return ".itFound"


def _cond_and(p, iters):
    l = _cond_atom(p, iters)
    while p.opt("&&"):
        l = f"(.and {l} {_cond_atom(p, iters)})"
    return l


def _cond(p, iters):
    l = _cond_and(p, iters)
    while p.opt("||"):
        l = f"(.or {l} {_cond_and(p, iters)})"
    return l


def _stmt(p, iters):
    if p.opt("{"):
        out = []
        while not p.opt("}"):
            out.append(_stmt(p, iters))
        if not out:
            return ".skip"
        t = out[-1]
        for x in reversed(out[:-1]):
            t = f"(.seq {x} {t})"
        return t
    if p.opt("if("):
        c = _cond(p, iters)
        p.eat(")")
        t = _stmt(p, iters)
        e = ".skip"
        if p.opt("else"):            # (white space is gone; no statement of this language starts with `else…`)
            e = _stmt(p, iters)
        return f"(.ite {c} {t} {e})"
    if p.opt("active_directions++;") or p.opt("++active_directions;") or p.opt("active_directions+=1;"):
        return ".inc"
    if p.opt(f"targets.insert({_TO});"):
        return ".insert"
    if p.opt("std::set<PointID>::const_iterator") or p.opt("std::set<PointID>::iterator") or p.opt("auto"):
        v = p.ident()
        p.eat(f"=targets.find({_TO});")
        if iters:
            raise Unparsable("revision_observations: target loop: more than one iterator variable")
        iters.add(v)
        return ".declFind"
    if p.opt(";"):
        return ".skip"
    raise Unparsable(f"revision_observations: target loop: statement not understood `{p.s[p.i:p.i + 80]}`")


def stand_rule(repo):
    """(Lean term of the loop body, comparison constructor, bound)"""
    src = strip_cxx_comments((repo / "lib/gnu_gama/local/network.cpp").read_text())
    body, _ = body_of(src, r"void\s+LocalNetwork::revision_observations\s*\(\s*\)\s*\{", "revision_observations")
    nb = norm(body)
    head = ("if(!tst_redbod_)revision_points();{LocalRevisionlocal_rev(PD);for(ObservationData::iteratori=OD.begin(),e=OD.end();"
            "i!=e;++i){Observation*m=*i;m->accept(&local_rev);}}ClusterList&clusters=OD.clusters;"
            "for(ClusterList::iteratorcit=clusters.begin();cit!=clusters.end();++cit){"
            "if(StandPoint*sp=dynamic_cast<StandPoint*>(*cit)){std::set<PointID>targets;intactive_directions=0;"
            "for(ObservationList::iteratori=sp->observation_list.begin();i!=sp->observation_list.end();++i){"
            "if(constDirection*d=dynamic_cast<constDirection*>(*i))")
    if not nb.startswith(head):
        k = next((j for j in range(min(len(nb), len(head))) if nb[j] != head[j]), min(len(nb), len(head)))
        raise Unparsable("revision_observations: shape changed before the target loop at `" + nb[max(0, k - 30):k + 60] + "`")
    p = _S(nb)
    p.i = len(head)
    term = _stmt(p, set())
    p.eat("}")                       # end of the for loop over sp->observation_list
    m = re.match(r"if\(active_directions(<=|>=|==|!=|<|>)(\d+)\)", nb[p.i:])
    if not m:
        raise Unparsable("revision_observations: test of active_directions not understood `" + nb[p.i:p.i + 60] + "`")
    p.i += m.end()
    tail = ("{for(ObservationList::iteratori=sp->observation_list.begin();i!=sp->observation_list.end();++i)"
            "if(Direction*d=dynamic_cast<Direction*>(*i))d->set_passive();}}(*cit)->update();}"
            "revised_obs_.clear();removed_obs_.clear();"
            "for(ObservationData::iteratori=OD.begin(),e=OD.end();i!=e;++i){Observation*m=*i;"
            "if(m->active())revised_obs_.push_back(m);elseremoved_obs_.push_back(m);}"
            "pocmer_=revised_obs_.size();tst_redmer_=true;update(Residuals);")
    if nb[p.i:] != tail:
        rest = nb[p.i:]
        k = next((j for j in range(min(len(rest), len(tail))) if rest[j] != tail[j]), min(len(rest), len(tail)))
        raise Unparsable("revision_observations: shape changed after the target loop at `" + rest[max(0, k - 30):k + 60] + "`")
    cmp_ = {"<": "lt", "<=": "le", ">": "gt", ">=": "ge", "==": "eq", "!=": "ne"}[m.group(1)]
    return term, cmp_, int(m.group(2))


def lean_list(xs):
    return "[" + ", ".join(xs) + "]"


def generate(repo):
    repo = Path(repo)
    table = revision_table(repo)
    d0_term, visits, cmp_, vec = abs_term_visitor(repo)
    codes = revision_points_codes(repo)
    body_term, stand_cmp, stand_bound = stand_rule(repo)
    o = []
    o.append("""/-
  GENERATED by tools/gen/c14_revision.py from lib/gnu_gama/local/local_revision.{h,cpp},
  lib/gnu_gama/local/network.{h,cpp} (TestAbsTermVisitor, test_abs_term, remove_huge_abs_terms,
  revision_points, revision_observations) and lib/gnu_gama/local/float.h on every run of the C14 check.  Do not edit.
-/
import Gama.Model.ReviseTypes
namespace Gama.Rev.Gen
open Gama Gama.Rev

/-- `LocalRevision::<type>`: after `if (!obs->active()) return false;`, per looked-up role
    (`PD.find(obs->role())`, `== PD.end()` ⇒ false) the predicates that must hold, in coded order -/
def requirements : ObsType → List (Role × List Flag)""")
    for t in ORDER:
        rows = [f"(.{'from' if r == 'from' else r}, {lean_list(['.' + f for f in fl])})" for r, fl in table[t]]
        o.append(f"  | .{t} => {lean_list(rows)}")
    o.append("")
    o.append("variable {K : Type} [Scalar K]")
    o.append("")
    o.append("""/-- `TestAbsTermVisitor::setFromTo`: `d0` when both `test_xy()` hold (otherwise it keeps the
    constructor's `d0(0)`); `c.d0` is not read here -/
def absD0 (stanHasXY cilHasXY : Bool) (c : AbsCtx K) : K :=
  if stanHasXY && cilHasXY then
    %s
  else (Scalar.ofNat 0 : K)
""" % d0_term)
    o.append("/-- the argument of `check(…)` in `TestAbsTermVisitor::visit(<type>*)` -/")
    o.append("def absValue (t : ObsType) (c : AbsCtx K) : K :=\n  match t with")
    for t in ORDER:
        o.append(f"  | .{t} =>\n      {visits[t]}")
    o.append("")
    rel = {">": "tol < value", ">=": "tol ≤ value", "<": "value < tol", "<=": "value ≤ tol"}[cmp_]
    o.append("/-- `TestAbsTermVisitor::check`: `if (value %s tol_abs_) val = b(indm); else val = 0;` -/" % cmp_)
    o.append(f"def absExceeds (value tol : K) : Bool := decide ({rel})")
    o.append("")
    o.append("/-- the vector `LocalNetwork::test_abs_term` hands to the visitor -/")
    o.append(f"def absVec : AbsVec := .{vec}")
    o.append("")
    o.append("/-- numeric value of the `rm_points` code recorded by `revision_points` right after\n"
             "    `set_unused_xy()` / `set_unused_z()` (`none`: nothing is recorded there) -/")
    for name, code in zip(("recordMissingXY", "recordMissingZ"), codes):
        o.append(f"def {name} : Option Nat := " + ("none" if code is None else f"some {RM_CODES.index(code)}  -- {code}"))
    o.append("")
    o.append("/-- `revision_observations()`: the statement executed for every `const Direction* d` of a\n"
             "    `StandPoint`'s `observation_list` (state: `std::set<PointID> targets`, `int active_directions = 0`) -/")
    o.append(f"def targetsBody : TStmt :=\n  {body_term}")
    o.append("")
    o.append("/-- `if (active_directions <op> N)` ⇒ every `Direction` of the set is made passive -/")
    o.append(f"def standCmp : TCmp := .{stand_cmp}")
    o.append(f"def standBound : Nat := {stand_bound}")
    o.append("")
    o.append("end Gama.Rev.Gen")
    o.append("")
    return "\n".join(o)


def run(repo, out_path):
    """returns True if the file was rewritten"""
    txt = generate(repo)
    p = Path(out_path)
    if p.exists() and p.read_text() == txt:
        return False
    p.parent.mkdir(parents=True, exist_ok=True)
    p.write_text(txt)
    return True


if __name__ == "__main__":
    import sys
    print(generate(sys.argv[1] if len(sys.argv) > 1 else "/repo"))
