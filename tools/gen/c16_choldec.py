"""
Translator C16 (round 7): `Envelope<Float,Index>::cholDec(Float tol)` of lib/gnu_gama/adj/envelope.h
  ->  lean/Gama/Gen/CholDecLoop.lean   (`Gen.Chol.effTol`, `firstRow`, `cholRow`, `cholDec`)

The C++ walks raw pointers (`b`, `e` into the envelope, `d` into the diagonal); the Lean model `Env.cholRow`
(Model/Envelope.lean) indexes arrays.  The translator reads the loop nest as a STRUCTURED PROGRAM (tools/gen/cfun.py
parser: for / while / if / declarations / pointer expressions) and

  1. matches it against the skeleton SKELETON below — statement kinds, their order, the loop nest, which pointer is
     advanced where; anything that does not match STOPS the translator (TieBroken);
  2. regenerates from the text of the current tree every expression at the holes `H_*`:
        the default tolerance (condition and value)           H_tolcond H_tolset
        the reset of the defect counter                       H_reset
        first row and bound of the row loop                   H_first H_rowcond
        `start`, `stop` (index expressions over row, e-b)      H_start H_stop
        the two triangular solves and their order             H_solve1 H_solve2
        where `d` starts in the diagonal                      H_dinit
        the accumulated term and its operator                 H_acc
        the pivot update and its operator                     H_pivot
        the smallness test                                    H_small
        what a small pivot becomes, the counter update        H_zero H_count
     `d` ends the `while` loop advanced by e-b cells: its final index is computed symbolically (linear arithmetic
     over row and w = e-b, with `start` substituted) and emitted in normal form (`row - 1` in the current tree).

`Lemmas/EnvelopeGenTie.lean` proves `Env.effTol = Gen.Chol.effTol`, `Env.cholRow = Gen.Chol.cholRow`,
`Env.cholDec = Gen.Chol.cholDec` by `rfl`: an off-by-one in a bound or an index, a flipped operator, swapped solves,
`<` -> `<=` in the pivot test change the right-hand side and the proof fails.
"""
import re
import sys
from pathlib import Path

sys.path.insert(0, str(Path(__file__).resolve().parent.parent))
from gen import cfun  # noqa: E402
from gen.cfun import Unparsable  # noqa: E402

SKELETON = """
    if (H_tolcond) { H_tolset; }
    H_reset;
    for (Index row=H_first; H_rowcond; row++)
      {
        Float* b = begin(row);
        Float* e = end(row);
        const Index start = H_start;
        const Index stop  = H_stop;
        H_solve1;
        H_solve2;
        Float* d = H_dinit;
        Float  s = Float();
        while (b != e)
          {
            H_acc;
            b++;
          }
        H_pivot;
        if (H_small)
          {
            H_zero;
            H_count;
          }
      }
"""


def match(pat, act, cap, path="cholDec"):
    """structural equality with holes: a pattern leaf ('var','H_x') captures the subtree"""
    if isinstance(pat, tuple) and len(pat) == 2 and pat[0] == "var" and isinstance(pat[1], str) and pat[1].startswith("H_"):
        cap[pat[1]] = act
        return
    if isinstance(pat, (tuple, list)):
        if not isinstance(act, (tuple, list)) or len(pat) != len(act):
            raise Unparsable(f"{path}: the loop nest no longer has the shape the model transcribes (expected {short(pat)}, found {short(act)})")
        for i, (p, a) in enumerate(zip(pat, act)):
            match(p, a, cap, path)
        return
    if pat != act:
        raise Unparsable(f"{path}: expected `{pat}`, found `{act}`")


def short(x):
    s = repr(x)
    return s if len(s) < 160 else s[:160] + "…"


def unparen(e):
    while isinstance(e, tuple) and e[0] == "paren":
        e = e[1]
    return e


# ---- linear index arithmetic over {row, w, start, stop}
def lin(e, sub=None):
    e = unparen(e)
    if e[0] == "num" and re.fullmatch(r"\d+", e[1]):
        return {"1": int(e[1])}
    if e[0] == "var" and e[1] in ("row", "start", "stop", "dim_"):
        if sub and e[1] in sub:
            return dict(sub[e[1]])
        return {e[1]: 1}
    if e[0] == "bin" and e[1] in ("+", "-"):
        a, b = unparen(e[2]), unparen(e[3])
        if e[1] == "-" and a == ("var", "e") and b == ("var", "b"):
            return {"w": 1}
        x, y = lin(a, sub), lin(b, sub)
        out = dict(x)
        for k, v in y.items():
            out[k] = out.get(k, 0) + (v if e[1] == "+" else -v)
        return {k: v for k, v in out.items() if v != 0}
    raise Unparsable(f"cholDec: index expression {short(e)} is not linear in row, e-b, start, stop")


def lin_add(x, y):
    out = dict(x)
    for k, v in y.items():
        out[k] = out.get(k, 0) + v
    return {k: v for k, v in out.items() if v != 0}


def lean_nat(l):
    """normal form: positive terms (variables first, in the order row,start,stop,w,k; then the constant), then the
    subtracted terms; natural-number subtraction, as the hand model writes it"""
    order = ["row", "dim_", "start", "stop", "w", "k", "1"]
    names = {"dim_": "E.dim"}
    pos, neg = [], []
    for k in order:
        v = l.get(k, 0)
        if v == 0:
            continue
        t = str(abs(v)) if k == "1" else (names.get(k, k) if abs(v) == 1 else f"{abs(v)} * {names.get(k, k)}")
        (pos if v > 0 else neg).append(t)
    if set(l) - set(order):
        raise Unparsable(f"cholDec: index over {sorted(l)}")
    if not pos:
        if neg:
            raise Unparsable("cholDec: an index expression with no positive term")
        return "0"
    s = pos[0]
    # keep the order the hand model uses: `start - 1 + k` (subtract the constant before adding the cursor)
    rest_pos = pos[1:]
    if "k" in l and l["k"] > 0 and "k" in rest_pos:
        rest_pos.remove("k")
        for t in rest_pos:
            s += f" + {t}"
        for t in neg:
            s += f" - {t}"
        return s + " + k"
    for t in rest_pos:
        s += f" + {t}"
    for t in neg:
        s += f" - {t}"
    return s


def parse(repo):
    try:
        src = (Path(repo) / "lib" / "gnu_gama" / "adj" / "envelope.h").read_text()
    except OSError as ex:
        raise Unparsable(str(ex))
    src = cfun.strip_comments(src)
    m = re.search(r"void\s+Envelope<Float,\s*Index>::cholDec\(Float tol\)\s*\{", src)
    if not m:
        raise Unparsable("envelope.h: cholDec not found")
    k = m.end() - 1
    body = src[k + 1:cfun.matching(src, k, "{", "}")]
    body = re.sub(r"std::numeric_limits<\s*Float\s*>::epsilon\s*\(\s*\)", "EPSILON", body)
    types = ("Float", "Index")
    act = cfun.parse_body(body, "cholDec", types)
    pat = cfun.parse_body(SKELETON, "cholDec skeleton", types)
    cap = {}
    match(pat, act, cap)
    zero = ("call", "Float", [])

    # default tolerance
    tc = unparen(cap["H_tolcond"])
    if tc != ("bin", "<=", ("var", "tol"), zero) and tc != ("bin", "<", ("var", "tol"), zero):
        raise Unparsable("cholDec: the guard of the default tolerance is not `tol <= Float()`")
    tolrel = "≤" if tc[1] == "<=" else "<"
    ts = cap["H_tolset"]
    if ts != ("assign", "=", ("var", "tol"), ("call", "std::sqrt", [("var", "EPSILON")])):
        raise Unparsable("cholDec: the default tolerance is not `tol = std::sqrt(numeric_limits<Float>::epsilon())`")
    if cap["H_reset"] != ("assign", "=", ("var", "defect_"), ("num", "0")):
        raise Unparsable("cholDec: `defect_ = 0;` expected before the row loop")
    # row loop
    first = cap["H_first"]
    if first[0] != "num" or not re.fullmatch(r"\d+", first[1]):
        raise Unparsable("cholDec: first row is not an integer literal")
    first = int(first[1])
    rc = unparen(cap["H_rowcond"])
    if rc == ("bin", "<=", ("var", "row"), ("var", "dim_")):
        count = lean_nat(lin_add({"dim_": 1, "1": 1}, {})) + " - firstRow"
    elif rc == ("bin", "<", ("var", "row"), ("var", "dim_")):
        count = "E.dim - firstRow"
    else:
        raise Unparsable("cholDec: the row loop is not bounded by dim_")
    start = lin(cap["H_start"])
    stop = lin(cap["H_stop"])
    # solves
    solves = []
    for h in ("H_solve1", "H_solve2"):
        c = cap[h]
        if c[0] != "call" or c[1] not in ("lowerSolve", "diagonalSolve", "upperSolve"):
            raise Unparsable(f"cholDec: {short(c)} is not a triangular / diagonal solve")
        if c[2] != [("var", "start"), ("var", "stop"), ("call", "begin", [("var", "row")])]:
            raise Unparsable(f"cholDec: {c[1]} is not called on (start, stop, begin(row))")
        solves.append(c[1])
    # diagonal cursor
    di = unparen(cap["H_dinit"])
    if di[0] != "bin" or di[1] != "+" or di[2] != ("var", "diag_"):
        raise Unparsable("cholDec: `d` does not start at diag_ + <offset>")
    doff = lin(di[3])
    dk = lean_nat(lin_add(doff, {"k": 1}))
    dend = lean_nat(lin_add(lin(di[3], {"start": start}), {"w": 1}))   # after e-b increments

    # accumulated term
    acc = cap["H_acc"]
    if acc[0] != "assign" or acc[2] != ("var", "s") or acc[1] not in ("+=", "-="):
        raise Unparsable("cholDec: the accumulation is not `s += …`")
    ninc = [0]

    def term(e):
        e0 = e
        e = unparen(e)
        if e == ("deref", ("var", "b")):
            return "u.getD k 0"
        if e == ("deref", ("post++", ("var", "d"))):
            ninc[0] += 1
            return f"E.diag.getD ({dk}) 0"
        if e == ("deref", ("var", "d")):
            return f"E.diag.getD ({dk}) 0"
        if e[0] == "bin" and e[1] in ("*", "+", "-", "/"):
            t = f"{term(e[2])} {e[1]} {term(e[3])}"
            return f"({t})" if e0[0] == "paren" else t
        if e[0] == "var" and e[1] == "s":
            return "s"
        raise Unparsable(f"cholDec: accumulated term {short(e)}")
    rhs = unparen(acc[3])
    rterm = term(rhs)
    if rhs[0] == "bin" and rhs[1] in ("+", "-"):
        rterm = f"({rterm})"
    if ninc[0] != 1:
        raise Unparsable("cholDec: the diagonal cursor must advance exactly once per cell (`*d++`)")
    acc_txt = f"s {acc[1][0]} {rterm}"
    # pivot update
    pv = cap["H_pivot"]
    if pv[0] != "assign" or pv[2] != ("deref", ("var", "d")) or pv[1] not in ("-=", "+=") or unparen(pv[3]) != ("var", "s"):
        raise Unparsable("cholDec: the pivot update is not `*d -= s`")
    piv_txt = f"E.diag.getD ({dend}) 0 {pv[1][0]} s"

    # smallness test
    def cond(e):
        e = unparen(e)
        if e[0] == "bin" and e[1] in ("<", "<=", ">", ">="):
            a, b = val(e[2]), val(e[3])
            return {"<": f"{a} < {b}", "<=": f"{a} ≤ {b}", ">": f"{b} < {a}", ">=": f"{b} ≤ {a}"}[e[1]]
        raise Unparsable(f"cholDec: pivot test {short(e)}")

    def val(e):
        e = unparen(e)
        if e == ("deref", ("var", "d")):
            return "d"
        if e == ("var", "tol"):
            return "tol"
        if e == zero or e == ("num", "0"):
            return "(0 : K)"
        if e[0] == "call" and e[1] in ("std::abs", "fabs", "std::fabs") and len(e[2]) == 1:
            return f"Scalar.abs {val(e[2][0])}"
        raise Unparsable(f"cholDec: operand {short(e)} of the pivot test")
    small = cond(cap["H_small"])
    z = cap["H_zero"]
    if z[0] != "assign" or z[1] != "=" or z[2] != ("deref", ("var", "d")):
        raise Unparsable("cholDec: a small pivot is not overwritten")
    zval = val(z[3]).replace("(0 : K)", "0")
    cnt = cap["H_count"]
    if cnt == ("post++", ("var", "defect_")) or cnt == ("pre++", ("var", "defect_")):
        inc = 1
    else:
        raise Unparsable("cholDec: `defect_++` expected")

    lm = {"lowerSolve": "lowerSolve", "diagonalSolve": "diagonalSolve", "upperSolve": "upperSolve"}
    u = f"E.{lm[solves[1]]} start stop (E.{lm[solves[0]]} start stop (E.env.extract b (b + w)))"
    text = f"""/-
  GENERATED by tools/gen/c16_choldec.py from `Envelope::cholDec` (lib/gnu_gama/adj/envelope.h) on every run of the C16
  check.  Do not edit.  The loop nest of the source, matched against the translator's skeleton (statement kinds and
  order); every bound, index expression, operator and test below is the text of the current tree.  `w` is `e - b`
  (cells of the row in the envelope); `k` counts the steps of `while (b != e)`; `d` starts at `diag_ + ({lean_nat(doff)})`
  and, advanced `w` times, ends at index `{dend}`.  Tied to `Env.cholRow` / `Env.cholDec` by Lemmas/EnvelopeGenTie.lean.
-/
import Gama.Model.Envelope
namespace Gama.Gen.Chol
open Gama
variable {{K : Type}} [Scalar K]

/-- `if (tol {('<=' if tolrel == '≤' else '<')} Float()) tol = std::sqrt(std::numeric_limits<Float>::epsilon());` -/
def effTol (tol : K) : K :=
  if tol {tolrel} 0 then Scalar.sqrt (1 / Scalar.ofNat (2 ^ 52)) else tol

/-- `for (Index row={first}; …` -/
def firstRow : Nat := {first}

/-- the order of the two solves on `begin(row)` -/
def solveOrder : List String := ["{solves[0]}", "{solves[1]}"]

/-- one pass of the row loop -/
def cholRow (tol : K) (E : Env K) (row : Nat) : Env K :=
  let b := E.rowBegin row
  let w := E.width row
  let start := {lean_nat(start)}
  let stop := {lean_nat(stop)}
  let u := {u}
  let s := (List.range w).foldl (fun s k => {acc_txt}) (0 : K)
  let d := {piv_txt}
  let env := (List.range w).foldl (fun env k => env.setIfInBounds (b + k) (u.getD k 0)) E.env
  if {small} then
    {{ E with env := env, diag := E.diag.setIfInBounds ({dend}) {zval}, defect := E.defect + {inc} }}
  else
    {{ E with env := env, diag := E.diag.setIfInBounds ({dend}) d }}

/-- `cholDec(tol)`: `defect_ = 0;` then the row loop `{'row<=dim_' if rc[1] == '<=' else 'row<dim_'}` -/
def cholDec (E : Env K) (tol : K) : Env K :=
  (List.range' firstRow ({count})).foldl (cholRow (effTol tol)) {{ E with defect := 0 }}

end Gama.Gen.Chol
"""
    return text


def run(repo, lean_dir):
    return cfun.write_if_changed(Path(lean_dir) / "Gama" / "Gen" / "CholDecLoop.lean", parse(repo))


if __name__ == "__main__":
    ch = run(sys.argv[1] if len(sys.argv) > 1 else "/repo", sys.argv[2] if len(sys.argv) > 2 else "/tmp/w7g")
    print("changed" if ch else "unchanged")
