#!/usr/bin/env python3
"""
Translator for C13 (whole document):

    lib/gnu_gama/xml/gkfparser.cpp      process_point / process_parameters / process_network / process_point_obs /
                                        process_obs / process_coords / process_hdiffs / process_vectors / process_cov /
                                        process_coords_point
    lib/gnu_gama/local/lcoords.h        enum CS (left-handed systems are the ones after WS)
    lib/gnu_gama/local/network.cpp      LocalNetwork::export_xml, updated_xml_covmat call sites, set_algorithm
    lib/gnu_gama/local/observation.cpp  DisplayObservationVisitor::visit (value expression of x y z dx dy dz)

        ->  lean/Gama/Gen/GkfDoc.lean

Parser side: attribute name -> local variable -> (toDouble target) -> LocalPoint setter argument / LocalNetwork setter;
the fix= / adj= code tables (value -> setters in call order); the value tables of sigma-act, angles, axes-xy.
Writer side: every `name="…"` site of export_xml in source order with its context, expression and guard.  The sites the Lean
model interprets (point, parameters, network) are emitted as tables; semantic variants the proofs depend on (y_sign on a
site, the `always` flag and observation list of an updated_xml_covmat call, the order of the status tests) are emitted as
Lean constants, so a changed site changes the Lean; anything else that deviates from the shape the model was written for
raises DocError (-> TieBroken).
"""
import re
import sys
from pathlib import Path


class DocError(Exception):
    pass


def strip_comments(src):
    """string-literal aware (export_xml contains "http://…")"""
    out, i, n = [], 0, len(src)
    while i < n:
        c = src[i]
        if c == '"':
            j = i + 1
            while j < n and src[j] != '"':
                j += 2 if src[j] == "\\" else 1
            out.append(src[i:j + 1])
            i = j + 1
        elif c == "'" :
            j = i + 1
            while j < n and src[j] != "'":
                j += 2 if src[j] == "\\" else 1
            out.append(src[i:j + 1])
            i = j + 1
        elif src.startswith("//", i):
            j = src.find("\n", i)
            i = n if j < 0 else j
        elif src.startswith("/*", i):
            j = src.find("*/", i + 2)
            out.append(" ")
            i = n if j < 0 else j + 2
        else:
            out.append(c)
            i += 1
    return "".join(out)


def body_of(src, header_re, what):
    m = re.search(header_re, src)
    if not m:
        raise DocError(f"{what} not found")
    i = src.index("{", m.end() - 1) + 1
    start, depth = i, 1
    in_str = False
    while depth and i < len(src):
        c = src[i]
        if in_str:
            if c == "\\":
                i += 1
            elif c == '"':
                in_str = False
        elif c == '"':
            in_str = True
        elif c == "'" and i + 2 < len(src) and src[i + 2] == "'":
            i += 2
        elif c == "{":
            depth += 1
        elif c == "}":
            depth -= 1
        i += 1
    return src[start:i - 1]


def process_body(src, name):
    return body_of(src, r"int\s+GKFparser::%s\s*\(\s*const\s+char\s*\*\*\s*atts\s*(?:,\s*bool\s+\w+\s*)?\)\s*\{" % name, name)


def ws(s):
    return re.sub(r"\s+", "", s)


# ---------------------------------------------------------------------------------------------- parser side

SETTERS = {"set_free_xy": "freeXY", "set_free_z": "freeZ", "set_constrained_xy": "constrXY", "set_constrained_z": "constrZ",
           "set_fixed_xy": "fixedXY", "set_fixed_z": "fixedZ"}


def parse_point(src):
    b = process_body(src, "process_point")
    pairs = re.findall(r'nam\s*==\s*"([\w-]+)"\s*\)\s*(\w+)\s*=\s*val\s*;', b)
    if len(pairs) != len(re.findall(r'nam\s*==\s*"', b)) or not pairs:
        raise DocError("process_point: attribute chain not recognised")
    var_of = {v: a for a, v in pairs}
    s2d = {}
    for v, d in re.findall(r"toDouble\s*\(\s*(\w+)\s*,\s*(\w+)\s*\)", b):
        s2d[d] = v
    roles = {}
    m = re.search(r"SB\[(\w+)\]\.set_xy\s*\(\s*(\w+)\s*,\s*(\w+)\s*\)", b)
    if not m:
        raise DocError("process_point: set_xy call not found")
    idvar = m.group(1)
    try:
        roles["id"] = var_of[idvar]
        roles["x"] = var_of[s2d[m.group(2)]]
        roles["y"] = var_of[s2d[m.group(3)]]
        mz = re.search(r"SB\[%s\]\.set_z\s*\(\s*(\w+)\s*\)" % idvar, b)
        roles["z"] = var_of[s2d[mz.group(1)]]
    except (KeyError, AttributeError) as e:
        raise DocError(f"process_point: cannot follow coordinates to set_xy/set_z ({e})")
    # 6848bc2a: the coordinate setters are guarded for a point inside <coordinates> (`observed`):
    #   if (!(observed && SB[pp_id].test_xy())) SB[pp_id].set_xy(dx, dy);   likewise set_z / test_z()
    # recognised shapes: unguarded statement (guard False) or exactly this guard (True); anything else is not modelled
    sig = re.search(r"GKFparser::process_point\s*\(\s*const\s+char\s*\*\*\s*atts\s*(?:,\s*bool\s+(\w+)\s*)?\)", src)
    obsvar = sig.group(1) if sig and sig.group(1) else None
    guards = {}
    for grp, setter, test in (("xy", "set_xy", "test_xy"), ("z", "set_z", "test_z")):
        mm = re.search(r"(if\s*\(([^;{}]*)\)\s*)?SB\[%s\]\.%s\s*\(" % (idvar, setter), b)
        cond = re.sub(r"\s+", "", mm.group(2)) if mm and mm.group(1) else None
        if cond is None:
            guards[grp] = False
        elif obsvar and cond == f"!({obsvar}&&SB[{idvar}].{test}())":
            guards[grp] = True
        else:
            raise DocError(f"process_point: guard of {setter} not recognised: {cond}")
    # pp_x = dx … used by process_coords_point
    pp = {}
    for lhs, rhs in re.findall(r"\b(pp_[xyz])\s*=\s*(\w+)\s*;", b):
        pp[lhs] = var_of.get(s2d.get(rhs, ""), None)
    # presence tests: the group is applied when its string is non-empty
    if not re.search(r'if\s*\(\s*%s\s*!=\s*""\s*\)' % [v for v, a in var_of.items() if a == roles["x"]][0], b):
        raise DocError("process_point: xy presence test not recognised")
    codes = {}
    for var, val, calls in re.findall(r'\(\s*(\w+)\s*==\s*"(\w+)"\s*\)\s*((?:SB\[\w+\]\.set_\w+\(\)\s*[,;]\s*)+)', b):
        st = re.findall(r"\.(set_\w+)\(\)", calls)
        for s in st:
            if s not in SETTERS:
                raise DocError(f"process_point: unknown status setter {s}")
        codes.setdefault(var, []).append((val, [SETTERS[s] for s in st]))
    kinds = {}
    for var, tab in codes.items():
        fams = {("fixed" if s.startswith("fixed") else "adj") for _, st in tab for s in st}
        if len(fams) != 1:
            raise DocError(f"process_point: code table of {var} mixes fixed and adjusted setters")
        kinds[fams.pop()] = var
    if set(kinds) != {"fixed", "adj"}:
        raise DocError("process_point: fix=/adj= code tables not found")
    roles["fix"] = var_of[kinds["fixed"]]
    roles["adj"] = var_of[kinds["adj"]]
    # order of application: the later block wins on a group both touch
    order = "adjThenFix" if b.index(kinds["adj"] + " == ") < b.index(kinds["fixed"] + " == ") else "fixThenAdj"
    if sorted(roles.values()) != sorted(a for a, _ in pairs):
        raise DocError(f"process_point: attributes {sorted(a for a, _ in pairs)} vs roles {roles}")
    return {"attrs": [a for a, _ in pairs], "roles": roles, "adj": codes[kinds["adj"]], "fix": codes[kinds["fixed"]],
            "order": order, "pp": pp, "guards": guards, "obsvar": obsvar}


def parse_coords_point(src):
    b = process_body(src, "process_coords_point")
    m = re.search(r"process_point\s*\(\s*atts\s*(?:,\s*(\w+)\s*)?\)", b)
    if not m:
        raise DocError("process_coords_point does not call process_point")
    if m.group(1) not in (None, "true", "false"):
        raise DocError(f"process_coords_point: argument `observed` of process_point not a literal: {m.group(1)}")
    out = {"observed": m.group(1) == "true"}
    for cls, a, v in re.findall(r"new\s+([XYZ])\s*\(\s*(\w+)\s*,\s*(\w+)\s*\)", b):
        out[cls] = v
    if set(out) != {"X", "Y", "Z", "observed"}:
        raise DocError("process_coords_point: X/Y/Z constructors not found")
    return out


PAR_SETTERS = {"apriori_m_0": "sigmaApr", "conf_pr": "confPr", "tol_abs": "tolAbs", "set_m_0_aposteriori": "sigmaAct",
               "set_m_0_apriori": "sigmaAct", "set_gons": "angular", "set_degrees": "angular", "set_algorithm": "algorithm",
               "set_adj_covband": "covBand", "set_latitude": "latitude", "set_ellipsoid": "ellipsoid"}


def parse_parameters(src):
    b = process_body(src, "process_parameters")
    names = [(m.start(), m.group(1)) for m in re.finditer(r'jmeno\s*==\s*"([\w-]+)"', b)]
    if not names:
        raise DocError("process_parameters: no attribute tests")
    rows, vals = [], {}
    # consecutive names joined by || share one block
    groups, i = [], 0
    while i < len(names):
        g = [names[i][1]]
        while i + 1 < len(names) and re.fullmatch(r'\s*\|\|\s*jmeno\s*==\s*"[\w-]+"', b[names[i][0]:names[i + 1][0] + len('jmeno == "%s"' % names[i + 1][1])].split('"', 2)[2]):
            i += 1
            g.append(names[i][1])
        groups.append((names[i][0], g))
        i += 1
    for k, (pos, g) in enumerate(groups):
        end = groups[k + 1][0] if k + 1 < len(groups) else len(b)
        blk = b[pos:end]
        calls = re.findall(r"lnet\.(\w+)\s*\(", blk)
        dests = sorted({PAR_SETTERS.get(c, "?" + c) for c in calls if c not in ("apriori_m_0x",)})
        if any(d.startswith("?") for d in dests):
            raise DocError(f"process_parameters: {g}: unknown setter {dests}")
        if len(dests) > 1:
            raise DocError(f"process_parameters: {g}: several destinations {dests}")
        dest = dests[0] if dests else "ignored"
        guard = "nocheck"
        if re.search(r"dhod\s*<=\s*0", blk):
            guard = "unit" if re.search(r"dhod\s*>=\s*1", blk) else "pos"
        conv = "gon2rad" if re.search(r"set_latitude\s*\(\s*\w+\s*\*\s*M_PI\s*/\s*200\s*\)", blk) else "id"
        if dest == "latitude" and conv != "gon2rad":
            raise DocError("process_parameters: latitude is not converted gon -> rad as the model assumes")
        for n in g:
            rows.append((n, dest, guard))
        tab = re.findall(r'hodnota\s*==\s*"([\w-]+)"\s*\)\s*lnet\.(\w+)\s*\(\s*\)', blk)
        if tab:
            vals.setdefault(dest, [])
            for v, c in tab:
                if (v, c) not in vals[dest]:
                    vals[dest].append((v, c))
    return rows, vals


def parse_network(src, lcoords):
    b = process_body(src, "process_network")
    names = re.findall(r'nam\s*==\s*"([\w-]+)"', b)
    axes = re.findall(r'val\s*==\s*"(\w\w)"\s*\)\s*lcs\s*=\s*LocalCoordinateSystem::CS::(\w\w)\s*;', b)
    angles = re.findall(r'val\s*==\s*"([\w-]+)"\s*\)\s*SB\.setAngularObservations_(\w+)\s*\(\s*\)', b)
    if len(axes) != 8 or len(angles) != 2 or "set_epoch" not in b:
        raise DocError("process_network: axes-xy / angles / epoch handling not recognised")
    m = re.search(r"enum\s+class\s+CS\s*\{([^}]*)\}", strip_comments(lcoords))
    enum = [x.strip() for x in m.group(1).split(",") if x.strip()] if m else []
    if sorted(enum) != sorted(c for _, c in axes):
        raise DocError(f"lcoords.h: enum CS {enum} does not match the parser's values")
    mm = re.search(r"left_handed_coordinates\s*\(\s*\)\s*const\s*\{\s*return\s+local_coordinate_system\s*>\s*CS::(\w\w)\s*;", strip_comments(lcoords))
    if not mm:
        raise DocError("lcoords.h: left_handed_coordinates not recognised")
    left = enum[enum.index(mm.group(1)) + 1:]
    return names, axes, angles, enum, left


def simple_names(src, fn, var="nam"):
    b = process_body(src, fn)
    return re.findall(r'%s\s*==\s*"([\w-]+)"' % var, b)


# ---------------------------------------------------------------------------------------------- writer side

def scan_sites(body):
    """every  name=\\"" + EXPR + "\\"  of the function, in order, with the enclosing block headers and the statement's own if"""
    sites = []
    stack = []            # headers of open blocks
    i, n = 0, len(body)
    last = 0              # start of the current statement/header
    in_str = False
    pdepth = 0
    while i < n:
        c = body[i]
        if in_str:
            if c == "\\":
                i += 2
                continue
            if c == '"':
                in_str = False
        elif c == '"':
            in_str = True
        elif c == "'" and i + 2 < n and body[i + 2] == "'":
            i += 3
            continue
        elif c == "(":
            pdepth += 1
        elif c == ")":
            pdepth -= 1
        elif c == "{":
            stack.append(" ".join(body[last:i].split()))
            last = i + 1
        elif c == "}":
            if stack:
                stack.pop()
            last = i + 1
        elif c == ";" and pdepth == 0:
            stmt = body[last:i]
            for m in re.finditer(r'([\w-]+)=\\""\s*\+\s*', stmt):
                # expression up to  + "\"  at depth 0
                j, depth, s2 = m.end(), 0, False
                while j < len(stmt):
                    d = stmt[j]
                    if s2:
                        if d == "\\":
                            j += 1
                        elif d == '"':
                            s2 = False
                    elif d == '"':
                        if depth == 0 and stmt[j:j + 3] == '"\\"':
                            break
                        s2 = True
                    elif d in "([":
                        depth += 1
                    elif d in ")]":
                        depth -= 1
                    j += 1
                expr = stmt[m.end():j].rstrip()
                expr = re.sub(r"\+\s*$", "", expr).strip()
                g = re.match(r"\s*(?:else\s+)?if\s*\((.*?)\)\s*xml\s*\+=", stmt, flags=re.S)
                sites.append({"attr": m.group(1), "expr": ws(expr), "guard": ws(g.group(1)) if g else "", "stack": list(stack),
                              "stmt": " ".join(stmt.split())})
            last = i + 1
        i += 1
    return sites


def context_of(site):
    ctx = "head"
    for h in site["stack"]:
        m = re.search(r"dynamic_cast<(\w+)\*>\(\*c\)", h)
        if m:
            ctx = m.group(1)
        elif re.search(r"for\s*\(\s*auto\s+p\s*=\s*PD\.begin\(\)", h):
            ctx = "point"
    guards = [ws(re.sub(r"^(else\s+)?if\s*\(|\)$", "", h)) for h in site["stack"] if re.match(r"(else\s+)?if\s*\(", h)
              and "dynamic_cast" not in h]
    return ctx, guards


EXPECT = {
    # (context, attr) in source order -> (expression, guards); the model was written for exactly these
    "head": [("epoch", "to_xmlstr(epoch())", ["has_epoch()"]),
             ("sigma-apr", "to_xmlstr(apriori_m_0(),8)", []), ("conf-pr", "to_xmlstr(conf_pr(),8)", []),
             ("tol-abs", "to_xmlstr(tol_abs(),8)", []), ("angles", 'std::string(gons()?"400":"360")', []),
             ("algorithm", "algorithm()", ["has_algorithm()"]), ("latitude", "to_xmlstr(<latitude>)", ["has_latitude()"]),
             ("ellipsoid", "ellipsoid()", ["has_ellipsoid()"]), ("cov-band", "to_xmlstr(adj_covband())", [])],
    "point": [("id", "GNU_gama::str2xml(id.str())", []), ("x", "to_xmlstr(point.x(),16)", ["point.test_xy()"]),
              ("y", "to_xmlstr(<ysign>point.y(),16)", ["point.test_xy()"]), ("z", "to_xmlstr(point.z())", ["point.test_z()"]),
              ("fix", "fix", ["!fix.empty()"]), ("adj", "adj", ["!adj.empty()"])],
    "StandPoint": [("from", "GNU_gama::str2xml(cluster->station.str())", ["!cluster_from.empty()"]),
                   ("from", "GNU_gama::str2xml(info.str_from)", ["!info.str_from.empty()", "cluster_from!=info.str_from"]),
                   ("to", "GNU_gama::str2xml(info.str_to)", ["!info.str_to.empty()"]),
                   ("from_dh", "to_xmlstr(fdh,8)", ["!info.str_to.empty()", "fdh"]),
                   ("to_dh", "to_xmlstr(tdh,8)", ["!info.str_to.empty()", "tdh"]),
                   ("bs", "GNU_gama::str2xml(info.str_bs)", ["!info.str_bs.empty()"]),
                   ("fs", "GNU_gama::str2xml(info.str_fs)", ["!info.str_bs.empty()"]),
                   ("from_dh", "to_xmlstr(rdh,8)", ["!info.str_bs.empty()", "rdh"]),
                   ("bs_dh", "to_xmlstr(bdh,8)", ["!info.str_bs.empty()", "bdh"]),
                   ("fs_dh", "to_xmlstr(fdh,8)", ["!info.str_bs.empty()", "fdh"]),
                   ("val", "info.str_val", []), ("stdev", "info.str_stdev", []),
                   ("extern", "GNU_gama::str2xml(obs->get_extern())", ["!obs->get_extern().empty()"])],
    "HeightDifferences": [("from", "GNU_gama::str2xml(info.str_from)", []), ("to", "GNU_gama::str2xml(info.str_to)", []),
                          ("val", "info.str_val", []), ("dist", "to_xmlstr(dist)", ["dist>0"]), ("stdev", "info.str_stdev", ["<dh-stdev>"]),
                          ("extern", "GNU_gama::str2xml(obs->get_extern())", ["!obs->get_extern().empty()"])],
    "Coordinates": [("extern", "GNU_gama::str2xml(cluster->get_extern())", ["!cluster->get_extern().empty()"]),
                    ("id", "GNU_gama::str2xml(from)", []), ("x", "info.str_val", ['info.xml_name=="x"']),
                    ("y", "info.str_val", ['info.xml_name=="x"']), ("z", "info.str_val", ['info.xml_name=="z"'])],
    "Vectors": [("from", "GNU_gama::str2xml(info.str_from)", []), ("to", "GNU_gama::str2xml(info.str_to)", []),
                ("dx", "info.str_val", []), ("dy", "info.str_val", []), ("dz", "info.str_val", []),
                ("extern", "GNU_gama::str2xml(obs->get_extern())", ["!obs->get_extern().empty()"])],
}


def writer(net_src, obs_src):
    body = body_of(net_src, r"std::string\s+LocalNetwork::export_xml\s*\(\s*std::string\s+version\s*\)\s*\{", "LocalNetwork::export_xml")
    sites = scan_sites(body)
    got = {}
    for s in sites:
        ctx, guards = context_of(s)
        g = guards + ([s["guard"]] if s["guard"] else [])
        # `else xml += stdev` of the dist test
        if ctx == "HeightDifferences" and s["attr"] == "stdev" and re.search(r"if\s*\(\s*dist\s*>\s*0\s*\)", body) and \
                re.search(r'if\s*\(\s*dist\s*>\s*0\s*\)\s*xml\s*\+=\s*" dist=[^;]*;\s*else\s*xml\s*\+=\s*" stdev=', body):
            g = g + ["!(dist>0)"]
        got.setdefault(ctx, []).append((s["attr"], s["expr"], g))
    consts = {}
    # --- <dh>: the standard deviation is written always (since 9f04c51) or only in the `else` of `if (dist > 0)`
    hdl = got.get("HeightDifferences", [])
    for k, (a, e, g) in enumerate(hdl):
        if a == "stdev":
            if g == []:
                consts["dhStdevAlways"] = True
            elif g == ["!(dist>0)"]:
                consts["dhStdevAlways"] = False
            else:
                raise DocError(f"export_xml: guards of <dh stdev>: {g}")
            hdl[k] = (a, e, ["<dh-stdev>"])
    if "dhStdevAlways" not in consts:
        raise DocError("export_xml: <dh> writes no stdev")
    # --- y_sign on the point's y
    pt = got.get("point", [])
    for k, (a, e, g) in enumerate(pt):
        if a == "y":
            m = re.fullmatch(r"to_xmlstr\((y_sign\(\)\*)?point\.y\(\),16\)", e)
            if not m:
                raise DocError(f"export_xml: expression of point y not recognised: {e}")
            consts["pointYSigned"] = bool(m.group(1))
            pt[k] = (a, "to_xmlstr(<ysign>point.y(),16)", g)
    hd = got.get("head", [])
    for k, (a, e, g) in enumerate(hd):
        if a == "latitude":
            m = re.fullmatch(r"to_xmlstr\(latitude\(\)(\*200/M_PI)?\)", e)
            if not m:
                raise DocError(f"export_xml: expression of latitude not recognised: {e}")
            consts["latitudeInGons"] = bool(m.group(1))
            hd[k] = (a, "to_xmlstr(<latitude>)", g)
    for ctx, exp in EXPECT.items():
        have = got.get(ctx, [])
        if [(a, e, g) for a, e, g in have] != [(a, e, g) for a, e, g in exp]:
            miss = [x for x in exp if x not in have]
            extra = [x for x in have if x not in exp]
            raise DocError(f"export_xml: writer sites of context {ctx} differ from the modelled ones: missing {miss[:3]} extra {extra[:3]}"
                           + ("" if miss or extra else " (order changed)"))
    for ctx in got:
        if ctx not in EXPECT:
            raise DocError(f"export_xml: writer sites in an unknown context {ctx}")
    # --- <network axes-xy= … angles= …> and sigma-act
    axes = re.findall(r'case\s+LocalCoordinateSystem::CS::(\w\w)\s*:\s*xml\s*\+=\s*"\\"(\w\w)\\""\s*;', body)
    if len(axes) != 8:
        raise DocError("export_xml: axes-xy switch not recognised")
    m = re.search(r'xml\s*\+=\s*PD\.left_handed_angles\(\)\s*\?\s*"\\"([\w-]+)\\""\s*:\s*"\\"([\w-]+)\\""', body)
    if not m:
        raise DocError("export_xml: angles= site not recognised")
    ang_names = (m.group(1), m.group(2))
    m = re.search(r'"\s*sigma-act=\\""\s*;\s*xml\s*\+=\s*m_0_apriori\(\)\s*\?\s*"(\w+)\\"\\n"\s*:\s*"(\w+)\\"\\n"', body)
    if not m:
        raise DocError("export_xml: sigma-act site not recognised")
    act_names = (m.group(1), m.group(2))
    if not re.search(r'if\s*\(\s*!description\.empty\(\)\s*\)\s*\{\s*xml\s*\+=\s*"\\n<description>"\s*\+\s*GNU_gama::str2xml\(description\)', body):
        raise DocError("export_xml: description site not recognised")
    if not re.search(r"if\s*\(\s*!point\.active\(\)\s*\)\s*continue\s*;", body):
        raise DocError("export_xml: inactive points are no longer skipped")
    # --- status chains
    chains = {}
    for grp in ("xy", "z"):
        m = re.search(r'if\s*\(\s*point\.(\w+)_%s\(\)\s*\)\s*(fix|adj)\s*\+=\s*"(\w+)"\s*;\s*else\s+if\s*\(\s*point\.(\w+)_%s\(\)\s*\)\s*(fix|adj)\s*\+=\s*"(\w+)"\s*;'
                      r'\s*else\s+if\s*\(\s*point\.(\w+)_%s\(\)\s*\)\s*(fix|adj)\s*\+=\s*"(\w+)"\s*;' % (grp, grp, grp), body)
        if not m:
            raise DocError(f"export_xml: status chain of {grp} not recognised")
        chains[grp] = [(m.group(1 + 3 * k), m.group(2 + 3 * k), m.group(3 + 3 * k)) for k in range(3)]
    if body.index("point.fixed_xy()") > body.index("point.fixed_z()"):
        raise DocError("export_xml: z status is written before xy")
    # --- updated_xml_covmat call sites
    cov = {}
    for m in re.finditer(r"updated_xml_covmat\s*\(\s*xml\s*,\s*cluster->covariance_matrix\s*,\s*(true|false)\s*(?:,\s*(&cluster->observation_list))?\s*\)", body):
        pre = body[:m.start()]
        ctxs = re.findall(r"dynamic_cast<(\w+)\*>\(\*c\)", pre)
        cov[ctxs[-1]] = (m.group(1) == "true", bool(m.group(2)))
    if set(cov) != {"StandPoint", "HeightDifferences", "Coordinates", "Vectors"}:
        raise DocError(f"export_xml: updated_xml_covmat call sites {sorted(cov)}")
    cb = body_of(net_src, r"void\s+LocalNetwork::updated_xml_covmat\s*\([^)]*\)\s*\{", "updated_xml_covmat")
    consts["covSkipsDiagonal"] = bool(re.search(r"if\s*\(\s*!always\s*&&\s*band\s*==\s*0\s*\)\s*return\s*;", cb))
    consts["covMirrors"] = bool(re.search(r"if\s*\(\s*list\s*&&\s*y_sign\(\)\s*<\s*0\s*\)", cb) and
                                re.search(r"mirrored\[n\]\s*=\s*dynamic_cast<Y\*>\(obs\)\s*\|\|\s*dynamic_cast<Ydiff\*>\(obs\)", cb) and
                                re.search(r"\(\s*mirrored\[i\]\s*!=\s*mirrored\[j\]\s*\)\s*\?\s*-C\(i,j\)\s*:\s*C\(i,j\)", cb))
    consts["covScalesSeconds"] = bool(re.search(r"if\s*\(\s*list\s*&&\s*degrees\(\)\s*\)", cb) and
                                      re.search(r"obs->angular\(\)\s*\)\s*unit\[n\]\s*=\s*0\.324", cb) and
                                      re.search(r"\*\s*unit\[i\]\s*\*\s*unit\[j\]", cb))
    # --- visitor: value expressions
    vis = {}
    for cls, tag in (("X", "x"), ("Y", "y"), ("Z", "z"), ("Xdiff", "dx"), ("Ydiff", "dy"), ("Zdiff", "dz")):
        vb = body_of(obs_src, r"void\s+DisplayObservationVisitor::visit\s*\(\s*%s\s*\*\s*obs\s*\)\s*\{" % cls, f"visit({cls}*)")
        m = re.search(r"str_val\s*=\s*to_xmlstr\s*\(\s*(lnet->y_sign\(\)\s*\*\s*)?obs->raw_value\(\)\s*\)\s*;", vb)
        mn = re.search(r'xml_name\s*=\s*"(\w+)"', vb)
        if not m or not mn or mn.group(1) != tag:
            raise DocError(f"DisplayObservationVisitor::visit({cls}*): value expression / xml_name not recognised")
        vis[tag] = bool(m.group(1))
    ctor_scale = bool(re.search(r"scale\s*\(\s*ln->gons\(\)\s*\?\s*1\.0\s*:\s*0\.324\s*\)", obs_src))
    scaled = []
    for cls in ("Direction", "Angle", "Z_Angle", "Azimuth"):
        vb = body_of(obs_src, r"void\s+DisplayObservationVisitor::visit\s*\(\s*%s\s*\*\s*obs\s*\)\s*\{" % cls, f"visit({cls}*)")
        if not re.search(r"if\s*\(\s*lnet->gons\(\)\s*\)\s*str_val\s*=\s*to_xmlstr\s*\(\s*m\s*\)\s*;\s*else\s+str_val\s*=\s*GNU_gama::gon2deg\s*\(\s*m\s*,\s*0\s*,\s*4\s*\)", vb):
            raise DocError(f"DisplayObservationVisitor::visit({cls}*): angular value formatting not recognised")
        if re.search(r"str_stdev\s*=\s*to_xmlstr\s*\(\s*obs->stdDev\(\)\s*\*\s*scale\s*\)", vb):
            scaled.append(True)
        elif re.search(r"str_stdev\s*=\s*to_xmlstr\s*\(\s*obs->stdDev\(\)\s*\)", vb):
            scaled.append(False)
        else:
            raise DocError(f"DisplayObservationVisitor::visit({cls}*): stdev formatting not recognised")
    # the standard deviation of every angular observation is written `* scale`, scale = 1 (gons) or 0.324 (degrees)
    consts["visStdevScaled"] = ctor_scale and all(scaled)
    for cls in ("Distance", "S_Distance", "H_Diff"):
        vb = body_of(obs_src, r"void\s+DisplayObservationVisitor::visit\s*\(\s*%s\s*\*\s*obs\s*\)\s*\{" % cls, f"visit({cls}*)")
        if not (re.search(r"str_val\s*=\s*to_xmlstr\s*\(\s*obs->raw_value\(\)\s*\)", vb) and re.search(r"str_stdev\s*=\s*to_xmlstr\s*\(\s*obs->stdDev\(\)\s*\)", vb)):
            raise DocError(f"DisplayObservationVisitor::visit({cls}*): value / stdev formatting not recognised")
    # --- set_algorithm
    ab = body_of(net_src, r"void\s+LocalNetwork::set_algorithm\s*\(\s*std::string\s+alg\s*\)\s*\{", "set_algorithm")
    algs = re.findall(r'alg\s*==\s*"(\w+)"', ab)
    m = re.search(r'else\s*\{\s*alg\s*=\s*"(\w+)"', ab)
    if not algs or not m:
        raise DocError("set_algorithm not recognised")
    return {"sites": got, "consts": consts, "axes": axes, "ang_names": ang_names, "act_names": act_names, "chains": chains,
            "cov": cov, "vis": vis, "algs": algs, "alg_default": m.group(1)}


# ---------------------------------------------------------------------------------------------- number formats per site

FLOATFIELD = {"scientific": "sci", "fixed": "fixed", "defaultfloat": "gen"}


def split_top(s, sep):
    """split at `sep` outside parentheses / string and character literals"""
    parts, depth, i, last, n = [], 0, 0, 0, len(s)
    while i < n:
        c = s[i]
        if c == '"' or c == "'":
            j = i + 1
            while j < n and s[j] != c:
                j += 2 if s[j] == "\\" else 1
            i = j + 1
            continue
        if c in "([":
            depth += 1
        elif c in ")]":
            depth -= 1
        elif depth == 0 and s.startswith(sep, i):
            parts.append(s[last:i])
            i += len(sep)
            last = i
            continue
        i += 1
    parts.append(s[last:])
    return parts


def int_literal(txt, what):
    if not re.fullmatch(r"\d+", txt.strip()):
        raise DocError(f"{what}: precision `{txt.strip()}` is not an integer literal")
    return int(txt)


def to_xmlstr_format(obs_src, obs_hdr):
    """the format of `to_xmlstr(val, prec)` (observation.cpp) and its default precision (observation.h)"""
    b = body_of(obs_src, r"std::string\s+to_xmlstr\s*\(\s*double\s+val\s*,\s*int\s+prec\s*\)\s*\{", "to_xmlstr")
    stm = [x for x in (ws(t) for t in b.split(";")) if "<<" in x]
    if len(stm) != 1:
        raise DocError(f"to_xmlstr: exactly one output statement expected, found {stm}")
    ops = stm[0].split("<<")
    if ops[0] != "ostr" or ops[-1] != "val" or not re.search(r"std::ostringstream\s+ostr\s*;", b):
        raise DocError(f"to_xmlstr: output statement not recognised: {stm[0]}")
    kind, prec = "gen", None            # a fresh ostringstream: defaultfloat
    for o in ops[1:-1]:
        o = o.replace("std::", "")
        m = re.fullmatch(r"setprecision\((\w+)\)", o)
        if m:
            prec = m.group(1)
        elif o in FLOATFIELD:
            kind = FLOATFIELD[o]
        else:
            raise DocError(f"to_xmlstr: manipulator `{o}` not recognised")
    if prec != "prec":
        raise DocError(f"to_xmlstr: the precision is `{prec}`, not the parameter `prec`")
    m = re.search(r"std::string\s+to_xmlstr\s*\(\s*double\s+val\s*,\s*int\s+prec\s*=\s*([^)]*?)\s*\)\s*;", obs_hdr)
    if not m:
        raise DocError("observation.h: declaration of to_xmlstr(double val, int prec = …) not found")
    d = ws(m.group(1))
    if d == "std::numeric_limits<double>::max_digits10":
        default = 17                    # IEEE binary64: ceil(1 + 53·log10 2)
    else:
        default = int_literal(d, "observation.h: default precision of to_xmlstr")
    return kind, default


def to_xmlstr_calls(body, fn, kind, default):
    """every `to_xmlstr(expr)` / `to_xmlstr(expr, N)` of a function body, in source order"""
    out = []
    for m in re.finditer(r"\bto_xmlstr\s*\(", body):
        i, depth = m.end(), 1
        while depth and i < len(body):
            depth += {"(": 1, ")": -1}.get(body[i], 0)
            i += 1
        args = split_top(body[m.end():i - 1], ",")
        if len(args) == 1:
            p = default
        elif len(args) == 2:
            p = int_literal(args[1], f"{fn}: to_xmlstr({ws(args[0])}, …)")
        else:
            raise DocError(f"{fn}: to_xmlstr called with {len(args)} arguments")
        out.append((fn, ws(args[0]), kind, p))
    return out


def stream_sites(body, fn):
    """every `<<` of a floating value into a local std::ostringstream, with the floatfield / precision in force
    (a fresh stream: defaultfloat, precision 6); unrecognised operands, manipulators or precisions raise"""
    streams = re.findall(r"(?:std::)?ostringstream\s+(\w+)\s*;", body)
    doubles = set(re.findall(r"\b(?:const\s+)?double\s+(\w+)\s*=", body))
    out = []
    for st in set(streams):
        state = {"kind": "gen", "prec": 6}
        for stmt in split_top(body.replace("{", ";").replace("}", ";"), ";"):
            t = ws(stmt)
            m = re.fullmatch(r"%s\.setf\((?:std::)?ios_base::(\w+),(?:std::)?ios_base::floatfield\)" % st, t)
            if m:
                if m.group(1) not in ("scientific", "fixed"):
                    raise DocError(f"{fn}: {t} not recognised")
                state["kind"] = FLOATFIELD[m.group(1)]
                continue
            m = re.fullmatch(r"%s\.precision\((.*)\)" % st, t)
            if m:
                state["prec"] = int_literal(m.group(1), f"{fn}: {t}")
                continue
            if re.match(r"%s\.(setf|unsetf|precision|flags|imbue)\b" % st, t):
                raise DocError(f"{fn}: stream setting `{t}` not recognised")
            if not re.match(r"%s<<" % st, t):
                if re.search(r"\b%s<<" % st, t):
                    raise DocError(f"{fn}: output statement `{t}` not recognised")
                continue
            for o in split_top(t, "<<")[1:]:
                o2 = o.replace("std::", "")
                m = re.fullmatch(r"setprecision\((.*)\)", o2)
                if m:
                    state["prec"] = int_literal(m.group(1), f"{fn}: {o}")
                elif o2 in FLOATFIELD:
                    state["kind"] = FLOATFIELD[o2]
                elif re.fullmatch(r"setw\(\d+\)", o2) or re.fullmatch(r'"[^"]*"', o2) or \
                        re.fullmatch(r"\(\(.*\)\?\"[^\"]*\":\"[^\"]*\"\)", o2):
                    pass                # width, text, a choice between two texts
                elif o2 in doubles:
                    out.append((fn, o2, state["kind"], state["prec"]))
                else:
                    raise DocError(f"{fn}: operand `{o}` of `{st} <<` not recognised")
    return out


def fmt_sites(repo):
    repo = Path(repo)
    net = strip_comments((repo / "lib/gnu_gama/local/network.cpp").read_text())
    obs = strip_comments((repo / "lib/gnu_gama/local/observation.cpp").read_text())
    hdr = strip_comments((repo / "lib/gnu_gama/local/observation.h").read_text())
    kind, default = to_xmlstr_format(obs, hdr)
    sites = []
    ex = body_of(net, r"std::string\s+LocalNetwork::export_xml\s*\(\s*std::string\s+version\s*\)\s*\{", "LocalNetwork::export_xml")
    # attribute name of each to_xmlstr call of export_xml (from the writer-site scan), so that a site is named, not numbered
    calls = to_xmlstr_calls(ex, "export_xml", kind, default)
    attrs = [(s["attr"], s["expr"]) for s in scan_sites(ex) if s["expr"].startswith("to_xmlstr(")]
    if len(attrs) != len(calls):
        raise DocError(f"export_xml: {len(calls)} to_xmlstr calls but {len(attrs)} attribute sites that use one")
    for (a, e), (fn, x, k, p) in zip(attrs, calls):
        if ws(x) not in e:
            raise DocError(f"export_xml: to_xmlstr({x}) does not belong to attribute {a} = {e}")
        sites.append((fn, f"{a}={x}", k, p))
    sites += stream_sites(ex, "export_xml")
    cb = body_of(net, r"void\s+LocalNetwork::updated_xml_covmat\s*\([^)]*\)\s*\{", "updated_xml_covmat")
    if re.search(r"\bto_xmlstr\s*\(", cb):
        raise DocError("updated_xml_covmat calls to_xmlstr now")
    cs = stream_sites(cb, "updated_xml_covmat")
    if len(cs) != 1:
        raise DocError(f"updated_xml_covmat: exactly one floating output expected, found {cs}")
    sites += cs
    for m in re.finditer(r"void\s+DisplayObservationVisitor::visit\s*\(\s*(\w+)\s*\*\s*obs\s*\)\s*\{", obs):
        cls = m.group(1)
        vb = body_of(obs, r"void\s+DisplayObservationVisitor::visit\s*\(\s*%s\s*\*\s*obs\s*\)\s*\{" % cls, f"visit({cls}*)")
        if re.search(r"ostringstream|<<|\bprecision\b", vb):
            raise DocError(f"DisplayObservationVisitor::visit({cls}*): prints through a stream now")
        vcalls = to_xmlstr_calls(vb, f"visit({cls}*)", kind, default)
        lhs = re.findall(r"\b(\w+)\s*=\s*to_xmlstr\s*\(", vb)
        if len(lhs) != len(vcalls):
            raise DocError(f"DisplayObservationVisitor::visit({cls}*): a to_xmlstr result is not assigned to a member")
        for v, (fn, x, k, p) in zip(lhs, vcalls):
            sites.append((fn, f"{v}={x}", k, p))
    # other callees of export_xml that format a number: none is known to the model
    for callee in ("angular_fmt", "gon2deg", "snprintf", "sprintf", "to_chars"):
        if re.search(r"\b%s\s*\(" % callee, ex) or re.search(r"\b%s\s*\(" % callee, cb):
            raise DocError(f"export_xml / updated_xml_covmat call {callee} now")
    return sites


def generate_fmt(repo):
    S = fmt_sites(repo)
    L = ["/-",
         "  GENERATED by tools/gen/c13_doc.py (fmt_sites) from network.cpp (export_xml, updated_xml_covmat), observation.cpp",
         "  (to_xmlstr, DisplayObservationVisitor) and observation.h (default precision of to_xmlstr) — do not edit.",
         "  One entry per site of the export writer that prints a floating value, in source order, with the ostream format in",
         "  force at that site: `to_xmlstr(x)` / `to_xmlstr(x, N)` = `setprecision(N) << defaultfloat` (`%.{N}g`), the elements of",
         "  `<cov-mat>` = `setf(scientific)`, `precision(16)` (`%.16e`).",
         "-/",
         "import Gama.Model.DecimalCodec",
         "namespace Gama.Gen.GkfFmtSites",
         "open Gama.Dec", "",
         "structure FmtSite where",
         "  fn : String        -- the C++ function",
         "  what : String      -- attribute=operand for export_xml, the operand text elsewhere",
         "  fmt : Fmt",
         "deriving DecidableEq, Repr", "",
         "def sites : List FmtSite := ["]
    rows = []
    for fn, x, k, p in S:
        xx = x.replace("\\", "\\\\").replace('"', '\\"')
        rows.append(f'  ⟨"{fn}", "{xx}", .{k} {p}⟩')
    L.append(",\n".join(rows))
    L += ["]", "", "end Gama.Gen.GkfFmtSites", ""]
    return "\n".join(L)


# ---------------------------------------------------------------------------------------------- Lean text

def lname(s):
    return re.sub(r"[^A-Za-z0-9]", "_", s)


def parse_degrees(gkf):
    """the sexagesimal branch of the parser: deg2gon tried first on the value of the four angular elements, the flag
    stored with the standard deviation, finish_obs scaling the flagged rows by 1/0.324"""
    out = {}
    tried = []
    for fn in ("process_direction", "process_angle", "process_zangle", "process_azimuth"):
        b = process_body(gkf, fn)
        ok = bool(re.search(r"if\s*\(\s*GNU_gama::deg2gon\s*\(\s*sm\s*,\s*dm\s*\)\s*\)\s*degrees\s*=\s*true\s*;\s*else\s+if\s*\(\s*!toDouble\s*\(\s*sm\s*,\s*dm\s*\)\s*\)\s*return\s+error", b)
                  and re.search(r"sigma\.push_back\s*\(\s*DB_pair\s*\(\s*d[vs]\s*,\s*degrees\s*\)\s*\)", b)
                  and re.search(r"bool\s+degrees\s*=\s*false\s*;", b))
        tried.append(ok)
    for fn in ("process_distance", "process_sdistance"):
        b = process_body(gkf, fn)
        if "deg2gon" in b or not re.search(r"DB_pair\s*\(\s*d[vs]\s*,\s*false\s*\)", b):
            raise DocError(f"{fn}: sexagesimal handling not recognised")
    if any(tried) and not all(tried):
        raise DocError("process_direction/angle/zangle/azimuth: the sexagesimal branches differ")
    out["parserTriesDeg2gon"] = all(tried)
    fb = body_of(gkf, r"int\s+GKFparser::finish_obs\s*\(\s*\)\s*\{", "finish_obs")
    out["parserScalesSeconds"] = bool(re.search(r"if\s*\(\s*\(\*s\)\.second\s*\)\s*standpoint->scaleCov\s*\(\s*i\s*,\s*1\.0\s*/\s*0\.324\s*\)", fb))
    return out


def refine_site(net):
    """LocalNetwork::refine_approx_coordinates: PD[cb] (by reference) += x(i)/1000 for 'X' (x and y, y from x(i+1)) and 'Z';
    refine_adjustment: the loop around it; export_xml reads PD through point.x() / point.y() / point.z()"""
    b = body_of(net, r"void\s+LocalNetwork::refine_approx_coordinates\s*\(\s*\)\s*\{", "refine_approx_coordinates")
    out = {}
    out["solves"] = bool(re.search(r"const\s+Vec\s*&\s*x\s*=\s*solve\s*\(\s*\)\s*;", b))
    mx = re.search(r"unknown_type\s*\(\s*i\s*\)\s*==\s*'X'\s*\)\s*\{(.*?)\}", b, re.S)
    mz = re.search(r"unknown_type\s*\(\s*i\s*\)\s*==\s*'Z'\s*\)\s*\{(.*?)\}", b, re.S)
    if not mx or not mz:
        raise DocError("refine_approx_coordinates: the 'X' / 'Z' branches not recognised")
    # the two branches must be exactly: bind the point BY REFERENCE, add the correction(s); nothing else (no status test)
    bx = re.sub(r"\s+", "", mx.group(1))
    m = re.fullmatch(r"constPointID&cb=unknown_pointid\(i\);LocalPoint&b=PD\[cb\];b\.set_xy\(b\.x\(\)\+x\(i\)/(\d+),b\.y\(\)\+x\(i\+(\d+)\)/(\d+)\);", bx)
    out["xy"] = (bool(m), m.groups() if m else ("0", "0", "0"))
    bz = re.sub(r"\s+", "", mz.group(1))
    m = re.fullmatch(r"constPointID&cb=unknown_pointid\(i\);LocalPoint&b=PD\[cb\];b\.set_z\(b\.z\(\)\+x\(i\)/(\d+)\);", bz)
    out["z"] = (bool(m), m.groups() if m else ("0",))
    a = body_of(net, r"bool\s+LocalNetwork::refine_adjustment\s*\(\s*\)\s*\{", "refine_adjustment")
    shape = re.sub(r"\s+", "", a)
    want = ("clear_linearization_iterations();while(next_linearization_iterations()){boolrefine=refine_obsdh_reductions(this);"
            "if(!refine)refine=TestLinearization(this);if(!refine)refine=refine_obsdh_reductions(this,true);"
            "if(!refine)break;increment_linearization_iterations();"
            "refine_approx_coordinates();}returnlinearization_iterations()>0;")
    out["loop"] = shape == want
    nb = body_of(net, r"bool\s+LocalNetwork::next_linearization_iterations\s*\(\s*\)\s*const\s*\{", "next_linearization_iterations") \
        if re.search(r"bool\s+LocalNetwork::next_linearization_iterations", net) else None
    out["next"] = None if nb is None else re.sub(r"\s+", "", nb)
    return out


def run_order_site(repo, net, gkf):
    """round 9: the sites behind Model/ExportRerun.lean (`start`: refine_obsdh_reductions(IS) once before the loop; the
    export after the loop) and Model/ExportRemoved.lean (the abs-term stage once, before the loop; export_xml never
    consults obs->active(); the parser never makes an observation passive)"""
    main = strip_comments((Path(repo) / "src/gama-local.cpp").read_text())
    def pos(rx):
        ms = list(re.finditer(rx, main))
        return [m.start() for m in ms]
    p_obsdh = pos(r"\brefine_obsdh_reductions\s*\(\s*IS\s*\)\s*;")
    p_rm = pos(r"IS->remove_huge_abs_terms\s*\(\s*\)\s*;")
    p_ref = pos(r"IS->refine_adjustment\s*\(\s*\)")
    p_exp = pos(r"IS->export_xml\s*\(")
    p_acord = pos(r"\bAcord2\s+acord2\s*\(")
    if len(p_ref) != 1 or len(p_exp) != 1:
        raise DocError(f"gama-local.cpp: refine_adjustment called {len(p_ref)} times, export_xml {len(p_exp)} times")
    out = {}
    out["obsdhBeforeLoop"] = len(p_obsdh) == 1 and len(p_acord) == 1 and p_acord[0] < p_obsdh[0] < p_ref[0]
    out["absStageOnceBeforeLoop"] = len(p_rm) == 1 and p_rm[0] < p_ref[0] and (not p_obsdh or p_obsdh[0] < p_rm[0])
    out["exportAfterLoop"] = p_ref[0] < p_exp[0]
    eb = body_of(net, r"std::string\s+LocalNetwork::export_xml\s*\(\s*std::string\s+\w+\s*\)\s*\{", "export_xml")
    act = re.findall(r"([\w\]\)>.\-]*)\s*(?:\.|->)\s*(active|passive)\s*\(\s*\)", eb)
    other = [a for a in act if not re.fullmatch(r"point", a[0])]
    out["exportConsultsObsActive"] = bool(other)
    out["parserSetsPassive"] = bool(re.search(r"set_passive\s*\(|set_active\s*\(", gkf))
    return out


def generate(repo):
    repo = Path(repo)
    gkf = strip_comments((repo / "lib/gnu_gama/xml/gkfparser.cpp").read_text())
    lco = (repo / "lib/gnu_gama/local/lcoords.h").read_text()
    net = strip_comments((repo / "lib/gnu_gama/local/network.cpp").read_text())
    obs = strip_comments((repo / "lib/gnu_gama/local/observation.cpp").read_text())
    P = parse_point(gkf)
    CP = parse_coords_point(gkf)
    # every other caller of process_point (the `<point>` element of <points-observations>) passes no `observed`, and the
    # header's default is false
    calls = re.findall(r"(?<!::)\bprocess_point\s*\(([^)]*)\)", gkf)
    other = sorted(ws(c) for c in calls if ws(c) not in ("atts,true", "atts,false") or not CP["observed"])
    if P["obsvar"]:
        hdr = strip_comments((repo / "lib/gnu_gama/xml/gkfparser.h").read_text())
        if not re.search(r"process_point\s*\(\s*const\s+char\s*\*\*\s*atts\s*,\s*bool\s+\w+\s*=\s*false\s*\)", hdr):
            raise DocError("gkfparser.h: default of process_point's `observed` is not false")
    if [c for c in other if c != "atts"] or len(calls) != 2:
        raise DocError(f"process_point is called as {sorted(ws(c) for c in calls)}")
    PR, PV = parse_parameters(gkf)
    NN, AX, AN, ENUM, LEFT = parse_network(gkf, lco)
    PO = simple_names(gkf, "process_point_obs")
    OB = simple_names(gkf, "process_obs")
    CO = simple_names(gkf, "process_coords")
    CV = simple_names(gkf, "process_cov")
    if process_body(gkf, "process_hdiffs").count('nam ==') or process_body(gkf, "process_vectors").count('nam =='):
        raise DocError("process_hdiffs / process_vectors accept attributes now")
    W = writer(net, obs)
    DG = parse_degrees(gkf)
    RF = refine_site(net)
    RO = run_order_site(repo, net, gkf)

    if P["attrs"] != ["id", "y", "x", "z", "fix", "adj"] and sorted(P["attrs"]) != ["adj", "fix", "id", "x", "y", "z"]:
        raise DocError(f"process_point: attributes {P['attrs']}")
    if P["pp"] != {"pp_x": P["roles"]["x"], "pp_y": P["roles"]["y"], "pp_z": P["roles"]["z"]}:
        raise DocError(f"process_point: pp_x/pp_y/pp_z are fed by {P['pp']}")
    if sorted(PO) != sorted(["distance-stdev", "direction-stdev", "angle-stdev", "zenith-angle-stdev", "azimuth-stdev"]):
        raise DocError(f"process_point_obs: attributes {PO}")
    if OB != ["from", "orientation", "from_dh"] or CO != ["extern"] or CV != ["dim", "band"]:
        raise DocError(f"process_obs/process_coords/process_cov: attributes {OB} {CO} {CV}")
    if sorted(NN) != ["angles", "axes-xy", "epoch"]:
        raise DocError(f"process_network: attributes {NN}")

    role_of = {v: k for k, v in P["roles"].items()}       # attribute name -> role
    L = ["/-",
         "  GENERATED by tools/gen/c13_doc.py from gkfparser.cpp, lcoords.h, network.cpp (export_xml, updated_xml_covmat,",
         "  set_algorithm), observation.cpp (DisplayObservationVisitor) and src/gama-local.cpp (order of the stages) — do not edit.",
         "-/",
         "namespace Gama.Gen.GkfDoc",
         "",
         "/-! ## GKFparser::process_point -/",
         "",
         "/-- what an attribute of `<point>` feeds: the id, `set_xy` argument 0 / 1, `set_z`, the fix= / adj= code -/",
         "inductive PRole where | id | x | y | z | fix | adj",
         "deriving DecidableEq, Repr",
         "",
         "inductive PAttr where | " + " | ".join(lname(a) for a in P["attrs"]),
         "deriving DecidableEq, Repr",
         "",
         "def PAttr.name : PAttr → String"]
    L += [f'  | .{lname(a)} => "{a}"' for a in P["attrs"]]
    L += ["", "def PAttr.ofName : String → Option PAttr"]
    L += [f'  | "{a}" => some .{lname(a)}' for a in P["attrs"]] + ["  | _ => none", ""]
    L += ["def PAttr.role : PAttr → PRole"]
    L += [f"  | .{lname(a)} => .{role_of[a]}" for a in P["attrs"]]
    L += ["",
          "/-- LocalPoint status setters -/",
          "inductive Setter where | freeXY | freeZ | constrXY | constrZ | fixedXY | fixedZ",
          "deriving DecidableEq, Repr",
          "",
          "/-- `adj=` code → setters in call order (`none`: undefined point type) -/",
          "def adjCode : String → Option (List Setter)"]
    L += [f'  | "{v}" => some [{", ".join("." + s for s in st)}]' for v, st in P["adj"]] + ["  | _ => none", ""]
    L += ["/-- `fix=` code → setters in call order -/", "def fixCode : String → Option (List Setter)"]
    L += [f'  | "{v}" => some [{", ".join("." + s for s in st)}]' for v, st in P["fix"]] + ["  | _ => none", ""]
    L += ["/-- `adj=` is applied before `fix=` (so `fix` wins on a group both name) -/",
          f"def adjBeforeFix : Bool := {'true' if P['order'] == 'adjThenFix' else 'false'}", "",
          "/-- process_coords_point: which `pp_*` feeds `new X / Y / Z` (as roles of the attribute they come from) -/",
          f"def coordObsSrc : PRole × PRole × PRole := (.{role_of[P['pp'][CP['X']]]}, .{role_of[P['pp'][CP['Y']]]}, .{role_of[P['pp'][CP['Z']]]})",
          "",
          "/-- process_point: `if (!(observed && SB[pp_id].test_xy())) SB[pp_id].set_xy(dx, dy);` — a point that is an observation",
          "    (`observed`) does not replace coordinates the point already has (true since 6848bc2a; false: unguarded setter) -/",
          f"def observedKeepsXY : Bool := {'true' if P['guards']['xy'] else 'false'}",
          "/-- … `if (!(observed && SB[pp_id].test_z())) SB[pp_id].set_z(dz);` -/",
          f"def observedKeepsZ : Bool := {'true' if P['guards']['z'] else 'false'}",
          "/-- process_coords_point calls `process_point(atts, true)`; the `<point>` of <points-observations> `process_point(atts)` -/",
          f"def coordsPointObserved : Bool := {'true' if CP['observed'] else 'false'}",
          ""]
    # parameters
    L += ["/-! ## GKFparser::process_parameters -/", "",
          "inductive ParDest where | sigmaApr | confPr | tolAbs | sigmaAct | angular | algorithm | covBand | latitude | ellipsoid | ignored",
          "deriving DecidableEq, Repr", "",
          "/-- guard on the number read: `pos` rejects `≤ 0`, `unit` rejects `≤ 0` and `≥ 1` -/",
          "inductive Guard where | nocheck | pos | unit", "deriving DecidableEq, Repr", "",
          "inductive ParAttr where | " + " | ".join(lname(n) for n, _, _ in PR), "deriving DecidableEq, Repr", "",
          "def ParAttr.name : ParAttr → String"]
    L += [f'  | .{lname(n)} => "{n}"' for n, _, _ in PR]
    L += ["", "def ParAttr.ofName : String → Option ParAttr"] + [f'  | "{n}" => some .{lname(n)}' for n, _, _ in PR] + ["  | _ => none", ""]
    L += ["def ParAttr.dest : ParAttr → ParDest"] + [f"  | .{lname(n)} => .{d}" for n, d, _ in PR] + [""]
    L += ["def ParAttr.guard : ParAttr → Guard"] + [f"  | .{lname(n)} => .{g}" for n, _, g in PR] + [""]
    act = PV.get("sigmaAct", [])
    ang = PV.get("angular", [])
    if sorted(act) != [("aposteriori", "set_m_0_aposteriori"), ("apriori", "set_m_0_apriori")] or \
            sorted(set(ang)) != [("360", "set_degrees"), ("400", "set_gons")]:
        raise DocError(f"process_parameters: value tables {act} {ang}")
    L += ["/-- `sigma-act` value → `m_0_apriori()` -/", "def sigmaActCode : String → Option Bool",
          '  | "apriori" => some true', '  | "aposteriori" => some false', "  | _ => none", "",
          "/-- `angles` / `angular` value → `gons()`; an unknown value is reported by `error()` whose result is ignored here",
          "    (no `return`): the document is refused all the same because `error` stops the parser -/",
          "def angularCode : String → Option Bool", '  | "400" => some true', '  | "360" => some false', "  | _ => none", ""]
    # network
    L += ["/-! ## GKFparser::process_network, LocalCoordinateSystem -/", "",
          "/-- `enum class CS` in declaration order -/",
          "inductive Axes where | " + " | ".join(e.lower() for e in ENUM), "deriving DecidableEq, Repr", "",
          "def axesCode : String → Option Axes"]
    L += [f'  | "{v}" => some .{c.lower()}' for v, c in AX] + ["  | _ => none", ""]
    L += ["/-- `left_handed_coordinates()` -/", "def Axes.leftHanded : Axes → Bool"]
    L += [f"  | .{e.lower()} => {'true' if e in LEFT else 'false'}" for e in ENUM] + [""]
    angd = {v: (h == "Lefthanded") for v, h in AN}
    L += ["/-- `angles` value → `left_handed_angles()` -/", "def anglesCode : String → Option Bool"]
    L += [f'  | "{v}" => some {"true" if b else "false"}' for v, b in angd.items()] + ["  | _ => none", ""]
    L += ["inductive NAttr where | " + " | ".join(lname(n) for n in NN), "deriving DecidableEq, Repr", "",
          "def NAttr.name : NAttr → String"] + [f'  | .{lname(n)} => "{n}"' for n in NN]
    L += ["", "def NAttr.ofName : String → Option NAttr"] + [f'  | "{n}" => some .{lname(n)}' for n in NN] + ["  | _ => none", ""]
    L += ["/-- attributes accepted by `<points-observations>`, `<obs>`, `<coordinates>`, `<cov-mat>` -/",
          "def pointsObsAttrs : List String := [" + ", ".join(f'"{n}"' for n in PO) + "]",
          "def obsAttrs : List String := [" + ", ".join(f'"{n}"' for n in OB) + "]",
          "def coordsAttrs : List String := [" + ", ".join(f'"{n}"' for n in CO) + "]",
          "def covAttrs : List String := [" + ", ".join(f'"{n}"' for n in CV) + "]", ""]
    # writer
    L += ["/-! ## LocalNetwork::export_xml -/", "",
          "/-- the `switch` that writes `axes-xy` -/", "def Axes.xmlName : Axes → String"]
    wr = {c: v for c, v in W["axes"]}
    L += [f'  | .{e.lower()} => "{wr[e]}"' for e in ENUM] + [""]
    L += [f'def anglesName (left : Bool) : String := if left then "{W["ang_names"][0]}" else "{W["ang_names"][1]}"',
          f'def sigmaActName (apriori : Bool) : String := if apriori then "{W["act_names"][0]}" else "{W["act_names"][1]}"', ""]
    L += ["/-- status tests of `<point>` in source order: (test, written into `fix`?, letters) -/",
          "inductive StTest where | fixed | constrained | free", "deriving DecidableEq, Repr", ""]
    for grp in ("xy", "z"):
        L += [f"def statusChain{grp.upper()} : List (StTest × Bool × String) := [" +
              ", ".join(f'(.{t}, {"true" if w == "fix" else "false"}, "{s}")' for t, w, s in W["chains"][grp]) + "]"]
    L += ["",
          "/-- `to_xmlstr(y_sign()*point.y(), 16)` : is the point's y written with `y_sign()` -/",
          f"def pointYSigned : Bool := {'true' if W['consts']['pointYSigned'] else 'false'}",
          "/-- DisplayObservationVisitor: is the value of the component multiplied by `y_sign()` -/"]
    for t in ("x", "y", "z", "dx", "dy", "dz"):
        L.append(f"def visSigned_{t} : Bool := {'true' if W['vis'][t] else 'false'}")
    L += ["",
          "/-- `updated_xml_covmat(xml, C, always, list)` per cluster class: (always, observation list passed) -/"]
    for c in ("StandPoint", "HeightDifferences", "Coordinates", "Vectors"):
        a, l = W["cov"][c]
        L.append(f"def covCall_{c} : Bool × Bool := ({'true' if a else 'false'}, {'true' if l else 'false'})")
    L += ["/-- `if (!always && band == 0) return;` -/",
          f"def covSkipsDiagonal : Bool := {'true' if W['consts']['covSkipsDiagonal'] else 'false'}",
          "/-- with a list and `y_sign() < 0` entries between a `Y`/`Ydiff` row and another row are negated -/",
          f"def covMirrors : Bool := {'true' if W['consts']['covMirrors'] else 'false'}",
          "/-- with a list and `degrees()` rows of angular observations are scaled to sexagesimal seconds (0.324) -/",
          f"def covScalesSeconds : Bool := {'true' if W['consts']['covScalesSeconds'] else 'false'}", "",
          "/-- `<dh>`: `stdev` is written also when `dist > 0` (true since 9f04c51; before only in the `else` branch: finding F28) -/",
          f"def dhStdevAlways : Bool := {'true' if W['consts']['dhStdevAlways'] else 'false'}",
          "/-- DisplayObservationVisitor writes the standard deviation of an angular observation `* scale`, scale = 0.324 in degrees -/",
          f"def visStdevScaled : Bool := {'true' if W['consts']['visStdevScaled'] else 'false'}",
          "/-- the parser tries `deg2gon` on the value of direction / angle / z-angle / azimuth first and keeps the flag -/",
          f"def parserTriesDeg2gon : Bool := {'true' if DG['parserTriesDeg2gon'] else 'false'}",
          "/-- `finish_obs` scales the rows of the observations given in sexagesimal units by `1.0/0.324` -/",
          f"def parserScalesSeconds : Bool := {'true' if DG['parserScalesSeconds'] else 'false'}", "",
          "/-! ## LocalNetwork::refine_approx_coordinates / refine_adjustment (what `point.x()` … of export_xml have become) -/", "",
          "/-- `const Vec& x = solve();` — the corrections are those of the current adjustment -/",
          f"def refineSolves : Bool := {'true' if RF['solves'] else 'false'}",
          "/-- 'X': `LocalPoint& b = PD[cb]; b.set_xy(b.x() + x(i)/D, b.y() + x(i+K)/D)` — (recognised, by reference; D for x, K, D for y) -/",
          f"def refineXY : Bool × Nat × Nat × Nat := ({'true' if RF['xy'][0] else 'false'}, {RF['xy'][1][0]}, {RF['xy'][1][1]}, {RF['xy'][1][2]})",
          "/-- 'Z': `LocalPoint& b = PD[cb]; b.set_z(b.z() + x(i)/D)` -/",
          f"def refineZ : Bool × Nat := ({'true' if RF['z'][0] else 'false'}, {RF['z'][1][0]})",
          "/-- refine_adjustment is `while (next) { refine = obsdh(); if (!refine) refine = Test(); if (!refine) refine = obsdh(adjusted); if (!refine) break; ++it; refine_approx_coordinates(); }` -/",
          f"def refineLoopShape : Bool := {'true' if RF['loop'] else 'false'}", "",
          "/-! ## src/gama-local.cpp: the order of the stages (round 9) -/", "",
          "/-- `Acord2 acord2(…)`, then exactly one `refine_obsdh_reductions(IS);`, then the one `IS->refine_adjustment()` -/",
          f"def obsdhBeforeLoop : Bool := {'true' if RO['obsdhBeforeLoop'] else 'false'}",
          "/-- exactly one `IS->remove_huge_abs_terms();`, after that call and before `IS->refine_adjustment()` -/",
          f"def absStageOnceBeforeLoop : Bool := {'true' if RO['absStageOnceBeforeLoop'] else 'false'}",
          "/-- the one `IS->export_xml(…)` comes after `IS->refine_adjustment()` -/",
          f"def exportAfterLoop : Bool := {'true' if RO['exportAfterLoop'] else 'false'}",
          "/-- export_xml calls `active()` / `passive()` on something other than `point` (false: every observation of OD is written) -/",
          f"def exportConsultsObsActive : Bool := {'true' if RO['exportConsultsObsActive'] else 'false'}",
          "/-- gkfparser.cpp calls `set_passive` / `set_active` (false: every parsed observation is active) -/",
          f"def parserSetsPassive : Bool := {'true' if RO['parserSetsPassive'] else 'false'}", "",
          "/-- `latitude` is written in gons (`latitude()*200/M_PI`), the unit process_parameters reads -/",
          f"def latitudeInGons : Bool := {'true' if W['consts']['latitudeInGons'] else 'false'}", "",
          "/-- `set_algorithm`: known names, and the one an unknown name is replaced by -/",
          "def algNames : List String := [" + ", ".join(f'"{a}"' for a in W["algs"]) + "]",
          f'def algDefault : String := "{W["alg_default"]}"', "",
          "/-- every attribute site of export_xml: (context, attribute, expression, guards) in source order -/",
          "def writerSites : List (String × String × String × List String) := ["]
    rows = []
    for ctx in ("head", "point", "StandPoint", "HeightDifferences", "Coordinates", "Vectors"):
        for a, e, g in W["sites"].get(ctx, []):
            ee = e.replace("\\", "\\\\").replace('"', '\\"')
            rows.append(f'  ("{ctx}", "{a}", "{ee}", [' + ", ".join('"' + x.replace("\\", "\\\\").replace('"', '\\"') + '"' for x in g) + "])")
    L.append(",\n".join(rows))
    L += ["]", "", "end Gama.Gen.GkfDoc", ""]
    return "\n".join(L)


if __name__ == "__main__":
    try:
        if len(sys.argv) > 2 and sys.argv[2] == "fmt":
            sys.stdout.write(generate_fmt(sys.argv[1]))
        else:
            sys.stdout.write(generate(sys.argv[1] if len(sys.argv) > 1 else "/repo"))
    except DocError as e:
        sys.stderr.write(f"DocError: {e}\n")
        sys.exit(2)
