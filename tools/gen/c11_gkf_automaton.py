#!/usr/bin/env python3
"""
C11 translator: lib/gnu_gama/xml/gkfparser.{h,cpp}  ->  lean/Gama/Gen/GkfAutomaton.lean

Regenerated on every run from the CURRENT working tree:

  * enum gkf_state / gkf_tag                     -> `State`, `Tag`
  * GKFparser::startElement  (state, tag) |-> action   -> `start`
        action = run handler process_X | set the state directly | error(kind) | nothing (no `default:`)
  * GKFparser::endElement    state |-> action           -> `stop`
        action = state := S (+ finish_X) | error(kind) | state := state_error without calling error()
  * GKFparser::characterDataHandler              -> `textAccepting`, `textErr`
  * GKFparser::tag()                             -> `tagTable` (string |-> tag; only reachable strcmp's)
  * every process_X: the order of `state = ...`, the attribute loop, calls of other process_Y
    (result used / ignored), the "xy and/or z" check of process_coords_point -> `handlerOps`
    attribute names compared in the loop                                      -> `attrNames`, `attrLoop`
  * every finish_X: does it require a cov-mat, does it compare `idim` with the number
    of observations of the cluster                                            -> `finishSpec`
  * the check every process_X applies to the VALUE of each attribute (tools/gen/c11_gkf_values.py,
    statement-level parse of the whole handler body)               -> lean/Gama/Gen/GkfValueChecks.lean

Anything the mini-parser does not recognise raises TieBroken (never guessed).
Python 3 standard library only.
"""
import re
import sys
from pathlib import Path

try:
    from lib.core import TieBroken
except Exception:  # stand-alone use
    class TieBroken(Exception):
        def __init__(self, name, detail=""):
            super().__init__(name + ": " + detail)
            self.name, self.detail = name, detail

NAME = "c11_gkf_automaton"
FIXED_KINDS = ["handler", "finish", "literal"]   # error kinds not named by a T_GKF_ constant in the tables


def fail(msg):
    raise TieBroken(NAME, msg)


def strip_comments(src):
    out, i, n = [], 0, len(src)
    while i < n:
        c = src[i]
        if src.startswith("//", i):
            while i < n and src[i] != "\n":
                i += 1
        elif src.startswith("/*", i):
            j = src.find("*/", i + 2)
            if j < 0:
                fail("unterminated comment")
            out.append(" " + "\n" * src.count("\n", i, j))
            i = j + 2
        elif c == '"':
            j = i + 1
            while j < n and src[j] != '"':
                j += 2 if src[j] == "\\" else 1
            out.append(src[i:j + 1])
            i = j + 1
        elif c == "'":
            j = i + 1
            while j < n and src[j] != "'":
                j += 2 if src[j] == "\\" else 1
            out.append(src[i:j + 1])
            i = j + 1
        else:
            out.append(c)
            i += 1
    return "".join(out)


def match_brace(s, i):
    """s[i] == '{' -> index of the matching '}' (strings/char literals skipped)"""
    assert s[i] == "{"
    d, n = 0, len(s)
    while i < n:
        c = s[i]
        if c == '"' or c == "'":
            q = c
            i += 1
            while i < n and s[i] != q:
                i += 2 if s[i] == "\\" else 1
        elif c == "{":
            d += 1
        elif c == "}":
            d -= 1
            if d == 0:
                return i
        i += 1
    fail("unbalanced braces")


def func_body(src, name, required=True):
    """body (without outer braces) of `GKFparser::name(` definition or inline `int name(` in the header"""
    m = re.search(r"\bGKFparser::" + re.escape(name) + r"\s*\(", src) or \
        re.search(r"\bint\s+" + re.escape(name) + r"\s*\([^)]*\)\s*\{", src)
    if not m:
        if required:
            fail(f"function {name} not found")
        return None
    i = src.find("{", m.start())
    semi = src.find(";", m.start())
    if i < 0 or (0 <= semi < i):
        if required:
            fail(f"function {name}: declaration only")
        return None
    j = match_brace(src, i)
    return src[i + 1:j]


def parse_enum(hdr, name):
    m = re.search(r"\benum\s+" + name + r"\s*\{([^}]*)\}", hdr)
    if not m:
        fail(f"enum {name} not found")
    items = [x.strip() for x in m.group(1).split(",") if x.strip()]
    for it in items:
        if not re.fullmatch(r"[A-Za-z_]\w*", it):
            fail(f"enum {name}: unexpected enumerator '{it}'")
    return items


def split_switch(body, what):
    """body of a `switch (...) { ... }` -> list of (labels, text); labels are 'default' or the case expression"""
    groups, labels, i, n, depth, start = [], [], 0, len(body), 0, None
    lab = re.compile(r"\s*(?:case\s+([^:]+?)\s*:(?!:)|default\s*:)")
    pos = 0
    cur_text_start = None
    out = []
    # walk at depth 0 only
    i = 0
    pieces = []  # (kind, value) kind in label/text
    buf = []
    while i < n:
        c = body[i]
        if depth == 0:
            m = lab.match(body, i) if (body[i].isspace() or body.startswith("case", i) or body.startswith("default", i)) else None
            if m and (i == 0 or not (body[i - 1].isalnum() or body[i - 1] == "_")):
                if "".join(buf).strip():
                    pieces.append(("text", "".join(buf)))
                buf = []
                pieces.append(("label", m.group(1) if m.group(1) else "default"))
                i = m.end()
                continue
        if c == '"' or c == "'":
            q = c
            j = i + 1
            while j < n and body[j] != q:
                j += 2 if body[j] == "\\" else 1
            buf.append(body[i:j + 1])
            i = j + 1
            continue
        if c == "{":
            depth += 1
        elif c == "}":
            depth -= 1
        buf.append(c)
        i += 1
    if "".join(buf).strip():
        pieces.append(("text", "".join(buf)))
    labels = []
    for kind, val in pieces:
        if kind == "label":
            labels.append(val.strip())
        else:
            if not labels:
                fail(f"{what}: statement before the first case label: {val.strip()[:60]}")
            groups.append((labels, val))
            labels = []
    if labels:
        fail(f"{what}: case labels {labels} without a body")
    return groups


def find_switch(body, selector, what):
    m = re.search(r"\bswitch\s*\(\s*" + selector + r"\s*\)\s*\{", body)
    if not m:
        fail(f"{what}: switch ({selector}) not found")
    i = m.end() - 1
    j = match_brace(body, i)
    return body[i + 1:j], m.start(), j + 1


def kind_of_error(args):
    m = re.search(r"\bT_GKF_(\w+)", args)
    if m:
        return m.group(1)
    return "literal"


def parse_start_element(src, states, tags):
    body = func_body(src, "startElement")
    if not re.search(r"\bntag\s*=\s*tag\s*\(\s*cname\s*\)", body):
        fail("startElement: `ntag = tag(cname)` not found")
    sw, a, b = find_switch(body, "state", "startElement")
    rest = (body[:a] + body[b:])
    rest = re.sub(r"const\s+gkf_tag\s+ntag\s*=\s*tag\s*\(\s*cname\s*\)\s*;", "", rest)
    rest = re.sub(r"return\s+0\s*;", "", rest)
    if rest.strip():
        fail("startElement: unrecognised code outside switch(state): " + rest.strip()[:80])
    table = {}          # state -> {tag: action, 'default': action}
    outer_default = None
    for labels, text in split_switch(sw, "startElement"):
        t = text.strip()
        entry = {}
        if re.search(r"\bswitch\s*\(\s*ntag\s*\)", t):
            inner, a2, b2 = find_switch(t, "ntag", "startElement/" + labels[0])
            if (t[:a2] + t[b2:]).strip(" \n\t{}"):
                fail(f"startElement {labels}: code around switch(ntag): " + (t[:a2] + t[b2:]).strip()[:80])
            for ilabels, itext in split_switch(inner, "startElement/" + labels[0]):
                act = parse_start_action(itext, states, "startElement " + "/".join(labels) + " " + "/".join(ilabels))
                for il in ilabels:
                    if il != "default" and il not in tags:
                        fail(f"startElement: unknown tag label {il}")
                    if il in entry:
                        fail(f"startElement: duplicate label {il} in {labels}")
                    entry[il] = act
        else:
            act = parse_start_action(t.strip(" \n\t{}"), states, "startElement " + "/".join(labels))
            entry["default"] = act
        for l in labels:
            if l == "default":
                outer_default = entry
            else:
                if l not in states:
                    fail(f"startElement: unknown state label {l}")
                if l in table:
                    fail(f"startElement: duplicate state label {l}")
                table[l] = entry
    return table, outer_default


def parse_start_action(text, states, where):
    t = text.strip().strip("{}").strip()
    m = re.fullmatch(r"return\s+(process_\w+)\s*\(\s*atts\s*\)\s*;", t)
    if m:
        return ("run", m.group(1)[len("process_"):])
    m = re.fullmatch(r"return\s*\(\s*state\s*=\s*(state_\w+)\s*\)\s*;", t)
    if m:
        if m.group(1) not in states:
            fail(f"{where}: unknown state {m.group(1)}")
        return ("set", m.group(1))
    m = re.fullmatch(r"return\s+error\s*\((.*)\)\s*;", t, re.S)
    if m:
        return ("err", kind_of_error(m.group(1)))
    fail(f"{where}: unrecognised action: {t[:100]}")


def parse_end_element(src, states):
    body = func_body(src, "endElement")
    sw, a, b = find_switch(body, "state", "endElement")
    rest = re.sub(r"return\s+0\s*;", "", body[:a] + body[b:])
    if rest.strip():
        fail("endElement: unrecognised code outside switch(state): " + rest.strip()[:80])
    table, default = {}, None
    for labels, text in split_switch(sw, "endElement"):
        stmts = [s.strip() for s in text.replace("{", " ").replace("}", " ").split(";") if s.strip()]
        nxt, fin, err, seen_finish_before_state = None, None, None, False
        if not stmts or stmts[-1] != "break":
            fail(f"endElement {labels}: case does not end with break (fall-through is not modelled)")
        for s in stmts[:-1]:
            m = re.fullmatch(r"state\s*=\s*(state_\w+)", s)
            if m:
                if nxt is not None:
                    fail(f"endElement {labels}: two state assignments")
                if fin is not None or err is not None:
                    fail(f"endElement {labels}: state assigned after finish_/error call (order not modelled)")
                if m.group(1) not in states:
                    fail(f"endElement: unknown state {m.group(1)}")
                nxt = m.group(1)
                continue
            m = re.fullmatch(r"(finish_\w+)\s*\(\s*\)", s)
            if m:
                if fin is not None:
                    fail(f"endElement {labels}: two finish calls")
                fin = m.group(1)[len("finish_"):]
                continue
            m = re.fullmatch(r"error\s*\((.*)\)", s, re.S)
            if m:
                err = kind_of_error(m.group(1))
                continue
            if re.fullmatch(r"lnet\.description\s*=\s*description", s):
                continue
            fail(f"endElement {labels}: unrecognised statement: {s[:80]}")
        if err is not None:
            act = ("fail", err)
        elif nxt is None:
            fail(f"endElement {labels}: no state assignment")
        elif nxt == "state_error":
            if fin:
                fail(f"endElement {labels}: finish call together with state_error")
            act = ("silent",)
        else:
            act = ("goto", nxt, fin)
        for l in labels:
            if l == "default":
                default = act
            else:
                if l not in states:
                    fail(f"endElement: unknown state label {l}")
                if l in table:
                    fail(f"endElement: duplicate state label {l}")
                table[l] = act
    return table, default


def parse_text_handler(src, states):
    body = func_body(src, "characterDataHandler")
    m = re.search(r"\belse\s*\{((?:[^{}]|\{[^{}]*\})*)\}\s*return\s+0\s*;\s*$", body.strip(), re.S)
    if not m:
        fail("characterDataHandler: final else-branch not found")
    els = m.group(1)
    me = re.search(r"\berror\s*\(([^;]*)\)\s*;", els)
    if not me or "isspace" not in els:
        fail("characterDataHandler: blank test / error call not found in the else-branch")
    head = body[:body.rfind(m.group(0)[:10])] if False else body[:body.find(els)]
    conds = re.findall(r"\bif\s*\(((?:[^()]|\([^()]*\))*)\)", head)
    accepting = []
    for c in conds:
        parts = [p.strip() for p in c.split("||")]
        for p in parts:
            mm = re.fullmatch(r"state\s*==\s*(state_\w+)", p)
            if not mm:
                fail(f"characterDataHandler: unrecognised condition '{p}'")
            if mm.group(1) not in states:
                fail(f"characterDataHandler: unknown state {mm.group(1)}")
            accepting.append(mm.group(1))
    if not accepting:
        fail("characterDataHandler: no accepting states found")
    return accepting, kind_of_error(me.group(1))


def parse_tag_function(src, tags):
    body = func_body(src, "tag")
    sw, a, b = find_switch(body, r"\*\s*c", "tag()")
    rest = body[:a] + body[b:]
    if not re.fullmatch(r"\s*return\s+tag_unknown\s*;\s*", rest):
        fail("tag(): expected only `return tag_unknown;` outside the switch, got: " + rest.strip()[:80])
    table = []
    for labels, text in split_switch(sw, "tag()"):
        chars = []
        for l in labels:
            m = re.fullmatch(r"'(.)'", l)
            if not m:
                fail(f"tag(): unrecognised case label {l}")
            chars.append(m.group(1))
        stmts = [s.strip() for s in text.split(";") if s.strip()]
        if not stmts or stmts[-1] != "break":
            fail(f"tag(): case {labels} does not end with break")
        for s in stmts[:-1]:
            m = re.fullmatch(r'if\s*\(\s*!\s*strcmp\s*\(\s*c\s*,\s*"([^"]*)"\s*\)\s*\)\s*return\s+(tag_\w+)', s)
            if not m:
                fail(f"tag(): unrecognised statement: {s[:80]}")
            name, tg = m.group(1), m.group(2)
            if tg not in tags:
                fail(f"tag(): unknown tag {tg}")
            if not name or name[0] not in chars:
                fail(f"tag(): strcmp with \"{name}\" is unreachable under case {labels}")
            if any(n == name for n, _ in table):
                continue        # an earlier identical strcmp wins
            table.append((name, tg))
    return table


ATTR_VARS = ("nam", "jmeno")


def parse_handler(src_all, name, states, stack=()):
    """-> (ops, attr_names, loop_kind) ; ops for the handler with callees inlined"""
    if name in stack:
        fail(f"process_{name}: recursive call")
    body = func_body(src_all, "process_" + name)
    events = []
    for m in re.finditer(r"\bstate\s*=\s*(state_\w+)\s*;", body):
        if m.group(1) not in states:
            fail(f"process_{name}: unknown state {m.group(1)}")
        events.append((m.start(), ("setState", m.group(1))))
    if re.search(r"\bstate\s*=(?!=)", re.sub(r"\bstate\s*=\s*state_\w+\s*;", "", body)):
        fail(f"process_{name}: unrecognised assignment to state")
    loops = [(m.start(), "all") for m in re.finditer(r"\bwhile\s*\(\s*\*\s*atts\s*\)", body)] + \
            [(m.start(), "first") for m in re.finditer(r"\bif\s*\(\s*\*\s*atts\s*\)", body)]
    if len(loops) > 1:
        fail(f"process_{name}: more than one attribute loop")
    loop_kind = "none"
    for pos, kind in loops:
        events.append((pos, ("attrs", name)))
        loop_kind = kind
    for m in re.finditer(r"(\breturn\s+|\bif\s*\(\s*)?\bprocess_(\w+)\s*\(\s*atts\s*(?:,\s*true\s*)?\)\s*(\)\s*return\b[^;]*;|;)", body):
        callee = m.group(2)
        pre, post = (m.group(1) or "").strip(), m.group(3)
        if pre.startswith("return"):
            mode = "tail"
        elif pre.startswith("if") and post.startswith(")"):
            mode = "guard"
        elif not pre and post == ";":
            mode = "ignore"
        else:
            fail(f"process_{name}: unrecognised call of process_{callee}")
        events.append((m.start(), ("call", callee, mode)))
    for m in re.finditer(r"\bif\s*\(\s*!\s*pp_xydef\s*&&\s*!\s*pp_zdef\s*\)\s*return\s+error\s*\(", body):
        events.append((m.start(), ("needXYorZ",)))
    names = []
    for m in re.finditer(r"\b(?:%s)\s*==\s*\"([^\"]*)\"" % "|".join(ATTR_VARS), body):
        if m.group(1) not in names:
            names.append(m.group(1))
    if loop_kind == "none" and names:
        fail(f"process_{name}: attribute comparisons without a loop over atts")
    events.sort(key=lambda e: e[0])
    ops = []
    own_attrs_seen = False
    for _, ev in events:
        if ev[0] == "setState":
            ops.append(("setState", ev[1]))
        elif ev[0] == "attrs":
            ops.append(("attrs", name))
            ops.append(("retIfFailed",))
            own_attrs_seen = True
        elif ev[0] == "needXYorZ":
            ops.append(("needXYorZ",))
            ops.append(("retIfFailed",))
        elif ev[0] == "call":
            cops, _, _ = parse_handler(src_all, ev[1], states, stack + (name,))
            # a `return` inside the callee only leaves the callee: drop its retIfFailed markers
            # that are not followed by further callee ops
            inl = list(cops)
            while inl and inl[-1] == ("retIfFailed",):
                inl.pop()
            if any(o == ("retIfFailed",) for o in inl):
                # callee has code after its own check; keep semantics by a scoped block
                ops.append(("block", tuple(cops)))
            else:
                ops += inl
            if ev[2] in ("guard", "tail"):
                ops.append(("retIfFailed",))
            if ev[2] == "tail":
                ops.append(("ret",))
    # data checks of a handler without an attribute loop (none today) are not modelled
    if not own_attrs_seen and not any(o[0] in ("attrs", "block") for o in ops):
        fail(f"process_{name}: no attribute handling found")
    return ops, names, loop_kind


def parse_finish(src, name):
    body = func_body(src, "finish_" + name)
    requires = bool(re.search(r"\bif\s*\(\s*!\s*idim\s*\)\s*return\s+error\s*\(", body))
    checks = bool(re.search(r"\bidim\s*!=\s*static_cast\s*<\s*int\s*>\s*\(\s*\w+\s*->\s*observation_list\s*\.\s*size\s*\(\s*\)\s*\)", body))
    if "finish_cov" not in body:
        fail(f"finish_{name}: call of finish_cov not found")
    return requires, checks


def parse_finish_cov(src):
    body = func_body(src, "finish_cov")
    m = re.search(r"\bint\s+elements\s*=\s*([^;]+);", body)
    if not m:
        fail("finish_cov: `int elements = ...` not found")
    expr = re.sub(r"\s+", "", m.group(1))
    # translate the C expression over idim/iband (ints, non-negative here) into a Lean Nat expression
    if not re.fullmatch(r"[idmbanv0-9+\-*/()]+", expr):
        fail("finish_cov: unexpected characters in the element count expression: " + expr)
    lean = expr.replace("idim", "dim").replace("iband", "band")
    lean = re.sub(r"([+\-*/])", r" \1 ", lean)
    wrap = re.search(r"\bif\s*\(\s*col\s*>\s*row\s*\+\s*iband\s*\|\|\s*col\s*>\s*idim\s*\)\s*col\s*=\s*\+\+row\s*;", body)
    if not wrap:
        fail("finish_cov: row/column advance `if (col > row+iband || col > idim) col = ++row;` not found")
    if not re.search(r"if\s*\(\s*elements\s*==\s*0\s*\)\s*return\s+error\s*\(\s*T_GKF_cov_mat_bad_dim_too_many_elements", body):
        fail("finish_cov: too-many-elements guard not found")
    if not re.search(r"if\s*\(\s*elements\s*\)\s*return\s+error\s*\(\s*T_GKF_cov_mat_bad_dim_not_enough_elements", body):
        fail("finish_cov: not-enough-elements guard not found")
    return expr, lean


def parse_process_cov_guards(src):
    body = func_body(src, "process_cov")
    g1 = re.search(r"\bif\s*\(\s*idim\s*<\s*1\s*\)\s*return\s+error", body)
    g2 = re.search(r"\bif\s*\(\s*isNegative\s*\(\s*iband\s*\)\s*\|\|\s*iband\s*>=\s*idim\s*\)\s*return\s+error", body)
    g3 = re.search(r"toIndex\s*\(\s*sdim\s*,\s*idim\s*\)", body) and re.search(r"toIndex\s*\(\s*sband\s*,\s*iband\s*\)", body)
    if not (g1 and g2 and g3):
        fail("process_cov: guards `idim < 1`, `isNegative(iband) || iband >= idim`, toIndex(sdim/sband) not all found")
    return "dimLt1_bandGeDim"


def parse_is_integer(repo):
    """intfloat.h IsInteger(Iterator&, Iterator): is `if (b == e) return false;` repeated after the optional sign?"""
    try:
        src = strip_comments((Path(repo) / "lib" / "gnu_gama" / "intfloat.h").read_text())
    except OSError as e:
        fail(f"cannot read intfloat.h: {e}")
    m = re.search(r"bool\s+IsInteger\s*\(\s*Iterator\s*&\s*b\s*,\s*Iterator\s+e\s*\)\s*\{", src)
    if not m:
        fail("intfloat.h: IsInteger(Iterator&, Iterator) not found")
    body = src[m.end() - 1:match_brace(src, m.end() - 1)]
    if "TrimWhiteSpaces" not in body or not re.search(r"case\s*'\+'\s*:\s*case\s*'-'\s*:\s*\+\+b", body):
        fail("intfloat.h: IsInteger no longer has the expected shape (trim, optional sign)")
    sw = body.find("switch")
    n_after = len(re.findall(r"if\s*\(\s*b\s*==\s*e\s*\)\s*return\s+false\s*;", body[sw:]))
    n_before = len(re.findall(r"if\s*\(\s*b\s*==\s*e\s*\)\s*return\s+false\s*;", body[:sw]))
    if n_before != 1 or n_after > 1:
        fail("intfloat.h: IsInteger: unexpected emptiness guards")
    return n_after == 1


def lean_ident(s, prefix):
    assert s.startswith(prefix)
    n = s[len(prefix):]
    return n if n not in ("error", "start", "stop", "point", "at", "from", "to") else n + "_"


def generate(repo):
    d = Path(repo) / "lib" / "gnu_gama" / "xml"
    try:
        hdr_raw = (d / "gkfparser.h").read_text()
        cpp_raw = (d / "gkfparser.cpp").read_text()
    except OSError as e:
        fail(f"cannot read sources: {e}")
    hdr, cpp = strip_comments(hdr_raw), strip_comments(cpp_raw)
    both = cpp + "\n" + hdr
    states = parse_enum(hdr, "gkf_state")
    tags = parse_enum(hdr, "gkf_tag")
    if states[0] != "state_error":
        fail("state_error is not the first enumerator (CoreParser requires state_error == 0)")
    if "tag_unknown" not in tags:
        fail("tag_unknown missing")

    stab, sdef = parse_start_element(cpp, states, tags)
    etab, edef = parse_end_element(cpp, states)
    accepting, text_err = parse_text_handler(cpp, states)
    tagtab = parse_tag_function(cpp, tags)
    cov_c, cov_lean = parse_finish_cov(cpp)
    int_lone = parse_is_integer(repo)
    parse_process_cov_guards(cpp)

    def start_action(s, t):
        e = stab.get(s, sdef)
        if e is None:
            return ("ignore",)
        if t in e:
            return e[t]
        if "default" in e:
            return e["default"]
        return ("ignore",)

    handlers, finishes, kinds = [], [], []
    for s in states:
        for t in tags:
            a = start_action(s, t)
            if a[0] == "run" and a[1] not in handlers:
                handlers.append(a[1])
            if a[0] == "err" and a[1] not in kinds:
                kinds.append(a[1])
    for s in states:
        a = etab.get(s, edef)
        if a is None:
            fail(f"endElement: state {s} has no case and there is no default")
        if a[0] == "goto" and a[2] and a[2] not in finishes:
            finishes.append(a[2])
        if a[0] == "fail" and a[1] not in kinds:
            kinds.append(a[1])
    if text_err not in kinds:
        kinds.append(text_err)
    kinds = [k for k in kinds if k not in FIXED_KINDS] + FIXED_KINDS

    hinfo = {}
    todo = list(handlers)
    allh = []
    while todo:
        h = todo.pop(0)
        if h in hinfo:
            continue
        ops, names, loop = parse_handler(both, h, states)
        hinfo[h] = (ops, names, loop)
        allh.append(h)

        def collect(ops_):
            for o in ops_:
                if o[0] == "attrs" and o[1] not in hinfo and o[1] not in todo:
                    todo.append(o[1])
                if o[0] == "block":
                    collect(o[1])
        collect(ops)
    finfo = {f: parse_finish(cpp, f) for f in finishes}

    S = lambda s: "." + lean_ident(s, "state_")
    T = lambda t: "." + lean_ident(t, "tag_")
    H = lambda h: "." + h + "_"
    K = lambda k: "." + k

    def ops_lean(ops):
        out = []
        for o in ops:
            if o[0] == "setState":
                out.append(f".setState {S(o[1])}")
            elif o[0] == "attrs":
                out.append(f".attrs {H(o[1])}")
            elif o[0] == "retIfFailed":
                out.append(".retIfFailed")
            elif o[0] == "ret":
                out.append(".ret")
            elif o[0] == "needXYorZ":
                out.append(".needXYorZ")
            elif o[0] == "block":
                fail("nested handler with code after its own check is not supported by the model")
        return "[" + ", ".join(out) + "]"

    L = []
    A = L.append
    A("/-")
    A("  GENERATED by tools/gen/c11_gkf_automaton.py from lib/gnu_gama/xml/gkfparser.{h,cpp}")
    A("  of the current working tree.  DO NOT EDIT: regenerated (and the proofs re-checked) on every run.")
    A("-/")
    A("namespace Gama.Gkf")
    A("")
    A("/-- `enum gkf_state` (order of declaration; `state_error == 0`) -/")
    A("inductive State where")
    for s in states:
        A(f"  | {lean_ident(s, 'state_')}")
    A("  deriving DecidableEq, Repr, Inhabited")
    A("")
    A("/-- `enum gkf_tag` -/")
    A("inductive Tag where")
    for t in tags:
        A(f"  | {lean_ident(t, 'tag_')}")
    A("  deriving DecidableEq, Repr, Inhabited")
    A("")
    A("/-- error kinds: the `T_GKF_…` constant naming the message in startElement / endElement /")
    A("    characterDataHandler; `handler` = a check inside a `process_*` (attribute name or value),")
    A("    `finish` = a check inside a `finish_*`, `literal` = message given as a string literal -/")
    A("inductive ErrKind where")
    for k in kinds:
        A(f"  | {k}")
    A("  deriving DecidableEq, Repr, Inhabited")
    A("")
    A("/-- the `process_*` member functions -/")
    A("inductive Handler where")
    for h in allh:
        A(f"  | {h}_")
    A("  deriving DecidableEq, Repr, Inhabited")
    A("")
    A("/-- the `finish_*` member functions called from endElement -/")
    A("inductive Finish where")
    for f in finishes:
        A(f"  | {f}_")
    if not finishes:
        A("  | none_")
    A("  deriving DecidableEq, Repr, Inhabited")
    A("")
    A("def State.all : List State := [" + ", ".join(S(s) for s in states) + "]")
    A("def Tag.all : List Tag := [" + ", ".join(T(t) for t in tags) + "]")
    A("def Handler.all : List Handler := [" + ", ".join(H(h) for h in allh) + "]")
    A("def Finish.all : List Finish := [" + ", ".join("." + f + "_" for f in finishes) + "]")
    A("")
    A("def State.name : State → String")
    for s in states:
        A(f"  | {S(s)} => \"{s}\"")
    A("def Tag.name : Tag → String")
    for t in tags:
        A(f"  | {T(t)} => \"{t}\"")
    A("def ErrKind.name : ErrKind → String")
    for k in kinds:
        A(f"  | {K(k)} => \"{k}\"")
    A("")
    A("inductive StartAct where")
    A("  | run (h : Handler)      -- `return process_h(atts);`")
    A("  | set (s : State)        -- `return (state = s);`")
    A("  | err (k : ErrKind)      -- `return error(...)`")
    A("  | ignore                 -- no case and no default: falls out of the switch, `return 0`")
    A("  deriving DecidableEq, Repr")
    A("")
    A("inductive StopAct where")
    A("  | goto (s : State) (f : Option Finish)   -- `state = s; [finish_f();] break;`")
    A("  | fail (k : ErrKind)                     -- `error(...)`")
    A("  | silent                                 -- `state = state_error;` without calling error()")
    A("  deriving DecidableEq, Repr")
    A("")
    A("/-- GKFparser::startElement -/")
    A("def start : State → Tag → StartAct")
    for s in states:
        acts = [start_action(s, t) for t in tags]
        # group: explicit tags first, then wildcard with the most common action
        from collections import Counter
        common = Counter(acts).most_common(1)[0][0]
        for t, a in zip(tags, acts):
            if a != common:
                A(f"  | {S(s)}, {T(t)} => {act_lean(a, S, H, K)}")
        A(f"  | {S(s)}, _ => {act_lean(common, S, H, K)}")
    A("")
    A("/-- GKFparser::endElement -/")
    A("def stop : State → StopAct")
    for s in states:
        a = etab.get(s, edef)
        if a[0] == "goto":
            fin = f"(some .{a[2]}_)" if a[2] else "none"
            A(f"  | {S(s)} => .goto {S(a[1])} {fin}")
        elif a[0] == "fail":
            A(f"  | {S(s)} => .fail {K(a[1])}")
        else:
            A(f"  | {S(s)} => .silent")
    A("")
    A("/-- GKFparser::characterDataHandler: states in which character data is collected -/")
    A("def textAccepting : State → Bool")
    for s in states:
        if s in accepting:
            A(f"  | {S(s)} => true")
    A("  | _ => false")
    A(f"def textErr : ErrKind := {K(text_err)}")
    A("")
    A("/-- GKFparser::tag(): element name ↦ tag (every other name is `tag_unknown`) -/")
    A("def tagTable : List (String × Tag) := [")
    A(",\n".join(f"  (\"{n}\", {T(t)})" for n, t in tagtab))
    A("]")
    A("")
    A("inductive AttrLoop where")
    A("  | all      -- `while (*atts)`: every attribute is examined")
    A("  | first    -- `if (*atts)`: only the first attribute is examined")
    A("  | none     -- attributes are not examined")
    A("  deriving DecidableEq, Repr")
    A("")
    A("/-- attribute names compared in the body of `process_h` -/")
    A("def attrNames : Handler → List String")
    for h in allh:
        A(f"  | {H(h)} => [" + ", ".join('"%s"' % n for n in hinfo[h][1]) + "]")
    A("def attrLoop : Handler → AttrLoop")
    for h in allh:
        A(f"  | {H(h)} => .{hinfo[h][2]}")
    A("")
    A("/-- straight-line skeleton of `process_h` in source order, callees inlined:")
    A("    `setState s` = `state = s;`   `attrs g` = attribute loop and value checks of `process_g`")
    A("    (on failure `error(..)` is called and `process_g` returns 1),")
    A("    `retIfFailed` = the enclosing function returns if the preceding check/callee failed,")
    A("    `needXYorZ` = `if (!pp_xydef && !pp_zdef) return error(..)`, `ret` = unconditional return -/")
    A("inductive Op where")
    A("  | setState (s : State) | attrs (h : Handler) | retIfFailed | needXYorZ | ret")
    A("  deriving DecidableEq, Repr")
    A("def handlerOps : Handler → List Op")
    for h in allh:
        A(f"  | {H(h)} => {ops_lean(hinfo[h][0])}")
    A("")
    A("structure FinishSpec where")
    A("  requiresCov : Bool   -- `if (!idim) return error(..)`")
    A("  checksDim : Bool     -- `if (idim != static_cast<int>(cluster->observation_list.size())) return error(..)`")
    A("  deriving DecidableEq, Repr")
    A("def finishSpec : Finish → FinishSpec")
    for f in finishes:
        r, c = finfo[f]
        A(f"  | .{f}_ => ⟨{'true' if r else 'false'}, {'true' if c else 'false'}⟩")
    A("")
    A(f"/-- finish_cov: `int elements = {cov_c};` (dim ≥ 1, 0 ≤ band < dim guaranteed by process_cov) -/")
    A(f"def covElements (dim band : Nat) : Nat := {cov_lean}")
    A("")
    A("/-- intfloat.h IsInteger: `if (b == e) return false;` after the optional sign (a lone \"+\" / \"-\" is refused) -/")
    A(f"def intLoneSignRejected : Bool := {'true' if int_lone else 'false'}")
    A("")
    A("end Gama.Gkf")
    return "\n".join(L) + "\n", _values().generate(repo, both, cpp, allh, finishes, func_body)


def _values():
    """the second table (value checks of every process_*): tools/gen/c11_gkf_values.py"""
    import importlib.util
    here = Path(__file__).resolve().parent
    if str(here) not in sys.path:
        sys.path.insert(0, str(here))
    sp = importlib.util.spec_from_file_location("c11_gkf_values", str(here / "c11_gkf_values.py"))
    m = importlib.util.module_from_spec(sp)
    sp.loader.exec_module(m)
    m.TieBroken, m.strip_comments, m.match_brace = TieBroken, strip_comments, match_brace
    return m


def act_lean(a, S, H, K):
    if a[0] == "run":
        return f".run {H(a[1])}"
    if a[0] == "set":
        return f".set {S(a[1])}"
    if a[0] == "err":
        return f".err {K(a[1])}"
    return ".ignore"


def write_if_changed(path, text):
    path = Path(path)
    if path.exists() and path.read_text() == text:
        return False
    path.parent.mkdir(parents=True, exist_ok=True)
    path.write_text(text)
    return True


def run(repo, verif):
    text, values = generate(repo)
    a = write_if_changed(Path(verif) / "lean" / "Gama" / "Gen" / "GkfAutomaton.lean", text)
    b = write_if_changed(Path(verif) / "lean" / "Gama" / "Gen" / "GkfValueChecks.lean", values)
    return a or b


if __name__ == "__main__":
    repo = sys.argv[1] if len(sys.argv) > 1 else "/repo"
    if len(sys.argv) > 2 and sys.argv[2] == "-":
        sys.stdout.write("".join(generate(repo)))
    else:
        ch = run(repo, Path(__file__).resolve().parents[2])
        print("GkfAutomaton.lean", "rewritten" if ch else "unchanged")
