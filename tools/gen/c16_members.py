"""Translator C16:  lib/gnu_gama/sparse/smatrix.h  ->  lean/Gama/Gen/SparseMembers.lean

What persists in a `SparseMatrix` object between calls, and what `replicate(new_n, new_r, new_c)` makes of
each of these members in the object it returns:

  * `members`        every data member of the class, in declaration order;
  * `ctorAlloc`      element counts of the three arrays allocated by `SparseMatrix(floats, rows, cols)`;
  * `ctorScalars`    the scalar members as that constructor leaves them;
  * `replicateScalars`  the scalar members of the replica: the value assigned by `r->m = …;` in `replicate`,
                     otherwise the value left by the constructor call `new SparseMatrix(new_n, new_r, new_c)`;
  * `replicateCopy`  element counts of the `memcpy` calls for `rptr`, `nonz`, `cind`.

Broken tie (Unparsable): a statement of `replicate` or of the constructor that is not of the expected shape
(`m = expr;`, `p = new T[expr];`, `rptr1 = rptr + 1;`, `r->m = expr;`, `memcpy(r->p, p, expr*sizeof(T));`),
an array member that `replicate` does not copy, a scalar member without a determined value, an expression
outside `ident | literal | ident + literal`.

A new data member shows up in `members` (and, if scalar, as a new field of `Scalars`): the theorem
`C16_replicate_members` (Props/C16.lean) compares the list with the members of the model `Gama.SMat`.
"""
import re
from pathlib import Path


class Unparsable(Exception):
    pass


def strip_comments(s):
    s = re.sub(r"/\*.*?\*/", lambda m: re.sub(r"[^\n]", " ", m.group(0)), s, flags=re.S)
    return re.sub(r"//[^\n]*", "", s)


def block_after(src, pos):
    """text of the `{…}` block that opens at or after pos (without the braces), and the index after it"""
    i = src.index("{", pos)
    depth, j = 0, i
    while j < len(src):
        if src[j] == "{":
            depth += 1
        elif src[j] == "}":
            depth -= 1
            if depth == 0:
                return src[i + 1:j], j + 1
        j += 1
    raise Unparsable("unbalanced braces")


def class_members(body):
    """data members declared at class scope, in order: [(name, 'scalar'|'ptr', type)]"""
    out = []
    depth, chunk, i = 0, "", 0
    while i < len(body):
        ch = body[i]
        if ch == "{":
            _, j = block_after(body, i)
            chunk = ""                     # a function definition (or in-class initialiser block): skip
            i = j
            continue
        if ch == ";":
            decl = re.sub(r"\b(public|private|protected)\s*:", " ", chunk).strip()
            chunk = ""
            i += 1
            if not decl or "(" in decl or decl.startswith("using ") or decl.startswith("typedef "):
                continue
            m = re.match(r"^(const\s+)?(Float|Index|int|long|double|bool|std::size_t|size_t|size_type)\b(.*)$", decl, re.S)
            if not m:
                raise Unparsable("class-scope declaration not understood: " + decl)
            ty = m.group(2)
            for item in m.group(3).split(","):
                item = item.strip()
                mm = re.match(r"^(\*?)\s*([A-Za-z_]\w*)\s*(?:=.*|\{.*\})?$", item, re.S)
                if not mm:
                    raise Unparsable("member declarator not understood: " + item)
                out.append((mm.group(2), "ptr" if mm.group(1) else "scalar", ty))
            continue
        chunk += ch
        i += 1
    return out


def statements(body):
    return [s.strip() for s in body.split(";") if s.strip()]


class Tr:
    def __init__(self, scalars, params):
        self.scalars, self.params = scalars, params

    def atom(self, t):
        t = t.strip()
        if re.fullmatch(r"\d+", t):
            return t
        if t in self.params:
            return self.params[t]
        if t in self.scalars:
            return "s." + t.rstrip("_")
        raise Unparsable("expression term not understood: " + t)

    def expr(self, e):
        e = e.strip()
        while e.startswith("(") and e.endswith(")"):
            e = e[1:-1].strip()
        parts = [p for p in e.split("+")]
        if not 1 <= len(parts) <= 2:
            raise Unparsable("expression not understood: " + e)
        return " + ".join(self.atom(p) for p in parts)


def run(repo, out_path):
    src = strip_comments((Path(repo) / "lib/gnu_gama/sparse/smatrix.h").read_text())
    m = re.search(r"\bclass\s+SparseMatrix\s*\{", src)
    if not m:
        raise Unparsable("class SparseMatrix not found")
    body, _ = block_after(src, m.start())
    members = class_members(body)
    names = [n for n, _, _ in members]
    scalars = [n for n, k, _ in members if k == "scalar"]
    ptrs = [n for n, k, _ in members if k == "ptr"]
    if len(set(names)) != len(names):
        raise Unparsable("duplicate member")

    # ---- SparseMatrix(Index floats, Index rows, Index cols)
    mc = re.search(r"\bSparseMatrix\s*\(\s*Index\s+(\w+)\s*,\s*Index\s+(\w+)\s*,\s*Index\s+(\w+)\s*\)\s*\{", body)
    if not mc:
        raise Unparsable("constructor SparseMatrix(Index, Index, Index) not found")
    cparams = [mc.group(1), mc.group(2), mc.group(3)]
    cbody, _ = block_after(body, mc.start())
    tr = Tr(scalars, {cparams[0]: "floats", cparams[1]: "rows", cparams[2]: "cols"})
    ctor_s, ctor_a = {}, {}
    for st in statements(cbody):
        ma = re.fullmatch(r"(\w+)\s*=\s*new\s+(\w+)\s*\[(.*)\]", st, re.S)
        if ma and ma.group(1) in ptrs:
            ctor_a[ma.group(1)] = tr.expr(ma.group(3))
            continue
        if re.fullmatch(r"rptr1\s*=\s*rptr\s*\+\s*1", st):
            ctor_a["rptr1"] = "rptr + 1"
            continue
        ms = re.fullmatch(r"(\w+)\s*=\s*(.*)", st, re.S)
        if ms and ms.group(1) in scalars:
            ctor_s[ms.group(1)] = tr.expr(ms.group(2))
            continue
        raise Unparsable("constructor statement not understood: " + st)

    # ---- replicate(Index new_n, Index new_r, Index new_c)
    mr = re.search(r"\breplicate\s*\(\s*Index\s+(\w+)\s*,\s*Index\s+(\w+)\s*,\s*Index\s+(\w+)\s*\)\s*const\s*\{", body)
    if not mr:
        raise Unparsable("replicate(Index, Index, Index) not found")
    rparams = [mr.group(1), mr.group(2), mr.group(3)]
    rbody, _ = block_after(body, mr.start())
    sts = statements(rbody)
    m0 = re.fullmatch(r"SparseMatrix\s*\*\s*(\w+)\s*=\s*new\s+SparseMatrix\s*\(\s*(\w+)\s*,\s*(\w+)\s*,\s*(\w+)\s*\)", sts[0])
    if not m0 or [m0.group(2), m0.group(3), m0.group(4)] != rparams:
        raise Unparsable("replicate: first statement is not `SparseMatrix* r = new SparseMatrix(new_n, new_r, new_c)`: " + sts[0])
    rv = m0.group(1)
    rtr = Tr(scalars, {rparams[0]: "new_n", rparams[1]: "new_r", rparams[2]: "new_c"})
    rep_s, rep_c = {}, {}
    for st in sts[1:]:
        if st == "using namespace std" or st == f"return {rv}":
            continue
        ms = re.fullmatch(re.escape(rv) + r"\s*->\s*(\w+)\s*=\s*(.*)", st, re.S)
        if ms and ms.group(1) in scalars:
            rep_s[ms.group(1)] = rtr.expr(ms.group(2))
            continue
        mm = re.fullmatch(r"(?:std::)?memcpy\s*\(\s*" + re.escape(rv) + r"\s*->\s*(\w+)\s*,\s*(\w+)\s*,\s*(.*)\*\s*sizeof\s*\(\s*(\w+)\s*\)\s*\)", st, re.S)
        if mm and mm.group(1) == mm.group(2) and mm.group(1) in ptrs:
            if mm.group(1) in rep_c:
                raise Unparsable("replicate: two memcpy calls for " + mm.group(1))
            rep_c[mm.group(1)] = rtr.expr(mm.group(3))
            continue
        raise Unparsable("replicate statement not understood: " + st)

    # constructor values seen from replicate: floats/rows/cols are the three arguments
    def via_ctor(e):
        return re.sub(r"\b(floats|rows|cols)\b", lambda k: {"floats": "new_n", "rows": "new_r", "cols": "new_c"}[k.group(1)], e)
    for p in ptrs:
        if p == "rptr1":
            if ctor_a.get("rptr1") != "rptr + 1":
                raise Unparsable("rptr1 is not set to rptr + 1 by the constructor")
            continue
        if p not in ctor_a:
            raise Unparsable(f"array member {p} is not allocated by the constructor")
        if p not in rep_c:
            raise Unparsable(f"array member {p} is not copied by replicate")
    final = {}
    for s in scalars:
        if s in rep_s:
            final[s] = rep_s[s]
        elif s in ctor_s:
            final[s] = via_ctor(ctor_s[s])
        else:
            raise Unparsable(f"scalar member {s} gets no value in the replica (neither in replicate nor in the constructor)")
    for s in scalars:
        if s not in ctor_s:
            raise Unparsable(f"scalar member {s} is not initialised by the constructor")

    fld = lambda s: s.rstrip("_")
    arrs = [p for p in ptrs if p != "rptr1"]
    L = []
    L.append("/-\n  GENERATED by tools/gen/c16_members.py from lib/gnu_gama/sparse/smatrix.h — do not edit.\n"
             "  Data members of `SparseMatrix`, what the constructor makes of them, and what\n"
             "  `replicate(new_n, new_r, new_c)` makes of them in the object it returns.\n-/\n"
             "namespace Gama.Gen.SparseMembers\n")
    L.append("/-- every data member of the class, in declaration order -/")
    L.append("def members : List String := [" + ", ".join(f'"{n}"' for n in names) + "]\n")
    L.append("/-- the scalar members -/")
    L.append("structure Scalars where\n" + "\n".join(f"  {fld(s)} : Nat" for s in scalars) + "\nderiving Repr, DecidableEq\n")
    L.append("/-- the array members (`rptr1 = rptr + 1` is an alias) -/")
    L.append("structure Counts where\n" + "\n".join(f"  {a} : Nat" for a in arrs) + "\nderiving Repr, DecidableEq\n")
    L.append("/-- `SparseMatrix(floats, rows, cols)`: allocated element counts -/")
    L.append("def ctorAlloc (floats rows cols : Nat) : Counts :=\n  { " + ", ".join(f"{a} := {ctor_a[a]}" for a in arrs) + " }\n")
    L.append("/-- `SparseMatrix(floats, rows, cols)`: scalar members -/")
    L.append("def ctorScalars (floats rows cols : Nat) : Scalars :=\n  { " + ", ".join(f"{fld(s)} := {ctor_s[s]}" for s in scalars) + " }\n")
    L.append("/-- scalar members of `s.replicate(new_n, new_r, new_c)` (assigned in `replicate`: "
             + ", ".join(s for s in scalars if s in rep_s) + "; left by the constructor: "
             + (", ".join(s for s in scalars if s not in rep_s) or "none") + ") -/")
    L.append("def replicateScalars (s : Scalars) (new_n new_r new_c : Nat) : Scalars :=\n  { "
             + ", ".join(f"{fld(s)} := {final[s]}" for s in scalars) + " }\n")
    L.append("/-- element counts of the `memcpy` calls of `replicate` -/")
    L.append("def replicateCopy (s : Scalars) : Counts :=\n  { " + ", ".join(f"{a} := {rep_c[a]}" for a in arrs) + " }\n")
    L.append("end Gama.Gen.SparseMembers\n")
    txt = "\n".join(L)
    # unused-variable hygiene: the generated functions may ignore arguments
    txt = txt.replace("namespace Gama.Gen.SparseMembers\n", "namespace Gama.Gen.SparseMembers\nset_option linter.unusedVariables false\n", 1)
    out = Path(out_path)
    out.parent.mkdir(exist_ok=True)
    if not out.exists() or out.read_text() != txt:
        out.write_text(txt)
        return True
    return False


if __name__ == "__main__":
    import sys
    print(run(sys.argv[1], sys.argv[2]))
