"""
C09 translator (cluster part): the numbering of the observations of a cluster and the standard deviation an
observation reports, read from the C++ text of the current tree  ->  lean/Gama/Gen/ClusterUpdate.lean.

What is read (Unreadable -> TieBroken if any of it can no longer be found / has another shape):
  lib/gnu_gama/obsdata.h : the body of `Cluster<Observation>::update()`: the initial values of act_obs, act_dim and
        `index`, the `for` loop over `observation_list` and, statement by statement IN SOURCE ORDER, what its body
        does to `p->cluster_index`, `index`, `act_obs`, `act_dim` -- including WHERE each statement stands relative
        to the `if (p->active())` block (before it / inside it / after it);
        `Cluster::stdDev(int i)`: the statements in front of the `return` and the two index expressions of
        `covariance_matrix( , )`;
  lib/gnu_gama/local/observation.cpp : `Observation::stdDev()` is `cluster->stdDev(cluster_index)`;
  every other assignment to `cluster_index` under lib/gnu_gama (outside g3's own model) is an error.

The generated loop body is a function `step` on the state (cluster_index of p, index, act_obs, act_dim); a
`cluster_index` that is not assigned in an iteration is `none` (the member keeps whatever it held before).
"""
import re
from pathlib import Path


class Unreadable(Exception):
    pass


def strip_comments(s):
    s = re.sub(r"/\*.*?\*/", " ", s, flags=re.S)
    return re.sub(r"//[^\n]*", "", s)


def block_after(text, pos):
    """text[pos] == '{' : returns (inside, index after the closing brace)"""
    if text[pos] != "{":
        raise Unreadable("expected '{'")
    depth = 0
    for j in range(pos, len(text)):
        if text[j] == "{":
            depth += 1
        elif text[j] == "}":
            depth -= 1
            if depth == 0:
                return text[pos + 1:j], j + 1
    raise Unreadable("unbalanced braces")


def function_body(text, header_re, what):
    m = re.search(header_re, text)
    if not m:
        raise Unreadable("cannot find " + what)
    i = text.find("{", m.end() - 1)
    if i < 0:
        raise Unreadable("no body for " + what)
    return block_after(text, i)[0]


def skip_ws(s, i):
    while i < len(s) and s[i].isspace():
        i += 1
    return i


def parse_items(body):
    """the loop body -> [("stmt", text) | ("if", cond, [items])] (one level of `if`, with or without braces)"""
    items, i = [], 0
    while True:
        i = skip_ws(body, i)
        if i >= len(body):
            return items
        m = re.match(r"if\s*\(", body[i:])
        if m:
            j = i + m.end() - 1
            depth = 0
            for k in range(j, len(body)):
                if body[k] == "(":
                    depth += 1
                elif body[k] == ")":
                    depth -= 1
                    if depth == 0:
                        break
            else:
                raise Unreadable("update(): unbalanced parentheses in an if")
            cond = re.sub(r"\s+", "", body[j + 1:k])
            k = skip_ws(body, k + 1)
            if k < len(body) and body[k] == "{":
                inner, i = block_after(body, k)
            else:
                e = body.find(";", k)
                if e < 0:
                    raise Unreadable("update(): if without a statement")
                inner, i = body[k:e + 1], e + 1
            if re.match(r"\s*else\b", body[i:]):
                raise Unreadable("update(): an else branch appeared in the loop")
            sub = parse_items(inner)
            if any(x[0] == "if" for x in sub):
                raise Unreadable("update(): nested if in the loop")
            items.append(("if", cond, sub))
            continue
        if re.match(r"(for|while|do|switch|return|break|continue|goto)\b", body[i:]):
            raise Unreadable("update(): control statement in the loop body: " + body[i:i + 30].strip())
        e = body.find(";", i)
        if e < 0:
            raise Unreadable("update(): statement without ';': " + body[i:i + 40].strip())
        items.append(("stmt", re.sub(r"\s+", "", body[i:e])))
        i = e + 1


VARS = {"index": "index", "act_obs": "actObs", "act_dim": "actDim"}


def stmt_lets(s):
    """one C++ statement (blanks removed) -> list of Lean `let` lines (without indentation)"""
    if s in ("p=(*i)", "p=*i", "p->cluster=this"):
        return [f"-- {s};"]
    m = re.fullmatch(r"p->cluster_index=(\+\+)?(index|act_obs|act_dim)(\+\+)?", s)
    if m and not (m.group(1) and m.group(3)):
        v = VARS[m.group(2)]
        if m.group(1):
            return [f"let {v} := {v} + 1", f"let ci : Option Nat := some {v}   -- {s};"]
        if m.group(3):
            return [f"let ci : Option Nat := some {v}   -- {s};", f"let {v} := {v} + 1"]
        return [f"let ci : Option Nat := some {v}   -- {s};"]
    m = re.fullmatch(r"p->cluster_index=(\d+)", s)
    if m:
        return [f"let ci : Option Nat := some {m.group(1)}   -- {s};"]
    m = re.fullmatch(r"(?:\+\+(index|act_obs|act_dim)|(index|act_obs|act_dim)\+\+|(index|act_obs|act_dim)\+=1)", s)
    if m:
        v = VARS[m.group(1) or m.group(2) or m.group(3)]
        return [f"let {v} := {v} + 1   -- {s};"]
    m = re.fullmatch(r"(index|act_obs|act_dim)\+=p->dimension\(\)", s)
    if m:
        v = VARS[m.group(1)]
        return [f"let {v} := {v} + p.dimension   -- {s};"]
    raise Unreadable("update(): statement of an unknown shape in the loop: " + s)


RET = "(ci, index, actObs, actDim)"


def emit_items(items, ind):
    if not items:
        return [ind + RET]
    it = items[0]
    if it[0] == "stmt":
        return [ind + l for l in stmt_lets(it[1])] + emit_items(items[1:], ind)
    cond = it[1]
    if cond != "p->active()":
        raise Unreadable("update(): the condition in the loop is not `p->active()`: " + cond)
    return ([ind + "if p.active then   -- if (p->active())"] + emit_items(it[2] + items[1:], ind + "  ")
            + [ind + "else"] + emit_items(items[1:], ind + "  "))


def index_expr(e):
    e = re.sub(r"\s+", "", e)
    if e == "i":
        return "i"
    m = re.fullmatch(r"i\+(\d+)|(\d+)\+i", e)
    if m:
        return f"(i + {m.group(1) or m.group(2)})"
    if re.fullmatch(r"\d+", e):
        return e
    raise Unreadable("Cluster::stdDev: index expression of an unknown shape: " + e)


def gen(repo):
    repo = Path(repo)
    oh = strip_comments((repo / "lib/gnu_gama/obsdata.h").read_text(errors="replace"))
    ocpp = strip_comments((repo / "lib/gnu_gama/local/observation.cpp").read_text(errors="replace"))

    # ---- Cluster<Observation>::update()
    body = function_body(oh, r"void\s+Cluster\s*<\s*Observation\s*>\s*::\s*update\s*\(\s*\)\s*\{", "Cluster<Observation>::update()")
    fm = re.search(r"\bfor\s*\(", body)
    if not fm or len(re.findall(r"\bfor\s*\(", body)) != 1:
        raise Unreadable("update(): expected exactly one for loop")
    pre = body[:fm.start()]
    init = {}
    for name in ("act_obs", "act_dim", "index"):
        ms = re.findall(r"(?:\bint\s+)?\b" + name + r"\s*=\s*([^;]+);", pre)
        if len(ms) != 1 or not re.fullmatch(r"\d+", ms[0].strip()):
            raise Unreadable(f"update(): initial value of {name} not found / not a literal")
        init[name] = int(ms[0])
    hdr_open = body.index("(", fm.start())
    depth = 0
    for k in range(hdr_open, len(body)):
        if body[k] == "(":
            depth += 1
        elif body[k] == ")":
            depth -= 1
            if depth == 0:
                break
    hdr = re.sub(r"\s+", "", body[hdr_open + 1:k])
    if not re.fullmatch(r"typenamestd::list<Observation\*>::iteratori=observation_list\.begin\(\);"
                        r"i!=observation_list\.end\(\);(\+\+i|i\+\+)", hdr):
        raise Unreadable("update(): the loop is not a walk over the whole observation_list: " + hdr)
    k = skip_ws(body, k + 1)
    loop, after = block_after(body, k)
    if re.search(r"cluster_index", body[:fm.start()] + body[after:]):
        raise Unreadable("update(): cluster_index is touched outside the loop")
    items = parse_items(loop)
    if sum(1 for it in items if it[0] == "if") > 1:
        raise Unreadable("update(): more than one if in the loop")
    flat = [x[1] for it in items for x in ([it] if it[0] == "stmt" else it[2])]
    if not any(s.startswith("p=") for s in flat[:1]):
        raise Unreadable("update(): the loop body does not start with `p = (*i);`")
    if not any(s.startswith("p->cluster_index=") for s in flat):
        raise Unreadable("update(): the statement assigning p->cluster_index is missing")
    step = emit_items(items, "  ")
    place = "unconditional (outside the if)"
    for it in items:
        if it[0] == "if" and any(x[1].startswith("p->cluster_index=") for x in it[2]):
            place = "inside `if (p->active())`"

    # ---- Cluster::stdDev(int i)
    sb = function_body(oh, r"double\s+stdDev\s*\(\s*int\s+i\s*\)\s*const\s*\{", "Cluster::stdDev(int)")
    sts = [re.sub(r"\s+", "", s) for s in sb.split(";") if s.strip()]
    if not sts or not sts[-1].startswith("return"):
        raise Unreadable("Cluster::stdDev: no return at the end")
    lets = []
    for s in sts[:-1]:
        if s in ("i++", "++i", "i+=1"):
            lets.append(f"  let i := i + 1   -- {s};")
        elif re.fullmatch(r"i\+=(\d+)", s):
            lets.append(f"  let i := i + {s[3:]}   -- {s};")
        else:
            raise Unreadable("Cluster::stdDev: statement of an unknown shape: " + s)
    m = re.fullmatch(r"return(?:(std::sqrt|sqrt)\()?covariance_matrix\(([^,()]+),([^,()]+)\)\)?", sts[-1])
    if not m or (m.group(1) is None) != (not sts[-1].endswith("))")):
        raise Unreadable("Cluster::stdDev: the return expression is not [sqrt of] covariance_matrix(a,b): " + sts[-1])
    read = f"cov.get {index_expr(m.group(2))} {index_expr(m.group(3))}"
    ret = f"  Scalar.sqrt ({read})" if m.group(1) else f"  {read}"

    # ---- Observation::stdDev()
    ob = re.sub(r"\s+", "", function_body(ocpp, r"double\s+Observation::stdDev\s*\(\s*\)\s*const\s*\{", "Observation::stdDev()"))
    if ob != "returncluster->stdDev(cluster_index);":
        raise Unreadable("Observation::stdDev() is no longer `return cluster->stdDev(cluster_index);`: " + ob)

    # ---- nobody else writes cluster_index
    for f in sorted((repo / "lib/gnu_gama").rglob("*")):
        if f.suffix not in (".h", ".cpp") or "g3" in f.relative_to(repo / "lib/gnu_gama").parts or f.name in ("model.h",):
            continue
        t = strip_comments(f.read_text(errors="replace"))
        if f.name != "obsdata.h" and re.search(r"cluster_index\s*(=(?!=)|\+\+|--|\+=|-=)", t):
            raise Unreadable(f"cluster_index is written in {f.relative_to(repo)}")
    if len(re.findall(r"cluster_index\s*=(?!=)", oh)) != 1:
        raise Unreadable("obsdata.h: cluster_index is assigned at more than one place")

    out = f"""/-
  GENERATED by tools/gen/c09_cluster.py from lib/gnu_gama/obsdata.h (Cluster<Observation>::update,
  Cluster::stdDev) and lib/gnu_gama/local/observation.cpp (Observation::stdDev) of the current tree.  DO NOT EDIT.
  Props/C09Cluster.lean proves that every definition here equals the reference model in
  Gama/Model/ClusterIndex.lean (`gen_clusterUpdate`, `gen_clusterStdDev`).
  The assignment to `p->cluster_index` stands: {place}.
-/
import Gama.Model.ClusterIndex
namespace Gama.ClusterGen
open Gama Gama.Cov

set_option linter.unusedVariables false

/-- one iteration of the loop of `Cluster<Observation>::update()`, statements in source order; state:
    `cluster_index` of `p` (`none` = not assigned in this iteration), `index`, `act_obs`, `act_dim` -/
def step (index actObs actDim : Nat) (p : ObsInfo) : Option Nat × Nat × Nat × Nat :=
  let ci : Option Nat := none
{chr(10).join(step)}

/-- the loop over the whole `observation_list` -/
def walk : Nat → Nat → Nat → List ObsInfo → List (Option Nat) × Nat × Nat
  | _, actObs, actDim, [] => ([], actObs, actDim)
  | index, actObs, actDim, p :: rest =>
    let s := step index actObs actDim p
    let r := walk s.2.1 s.2.2.1 s.2.2.2 rest
    (s.1 :: r.1, r.2)

/-- `update()`: `act_obs = {init['act_obs']}; act_dim = {init['act_dim']}; int index = {init['index']};` then the loop;
    (`cluster_index` of every observation in list order, `act_obs`, `act_dim`) -/
def update (obs : List ObsInfo) : List (Option Nat) × Nat × Nat := walk {init['index']} {init['act_obs']} {init['act_dim']} obs

/-- `cluster_index` of the observation at position `j` of the list after `update()`
    (`none`: no such observation, or the member was not assigned) -/
def clusterIndex (obs : List ObsInfo) (j : Nat) : Option Nat := ((update obs).1[j]?).join

/-- obsdata.h `Cluster::stdDev(int i)` -/
def stdDev {{K : Type}} [Scalar K] (cov : CovMat K) (i : Nat) : K :=
{chr(10).join(lets + [ret])}

/-- observation.cpp `Observation::stdDev()`: `cluster->stdDev(cluster_index)`, for the observation at position `j` -/
def observationStdDev {{K : Type}} [Scalar K] (cov : CovMat K) (obs : List ObsInfo) (j : Nat) : Option K :=
  (clusterIndex obs j).map (stdDev cov)

end Gama.ClusterGen
"""
    return out


if __name__ == "__main__":
    import sys
    print(gen(sys.argv[1] if len(sys.argv) > 1 else "/repo"))
