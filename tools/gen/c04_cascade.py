"""C04 translator: LocalNetwork's update cascade  ->  lean/Gama/Gen/NetCascade.lean

Reads lib/gnu_gama/local/network.h and network.cpp of the tree under test and extracts
  * the levels (enum Update, in order) and, from the body of LocalNetwork::update, the case
    labels in switch order with the flag each one clears and whether a `break`/`return`
    interrupts the fall-through;
  * the four compute functions (revision_points, revision_observations, project_equations,
    vyrovnani_): their early-return guard (`if (tst_x) return;`), the guarded call of the level
    below (`if (!tst_y) f();`), the flag they set and the `update(L)` they end with, and for
    vyrovnani_ whether the flag is set before the solver is consulted;
  * for every public member of LocalNetwork with a body: which compute function it calls
    unconditionally before anything else is read ("ensures"), which cached artefacts it reads
    (by member name: see ARTEFACTS), which `update(L)` it issues;
  * (round 9) the hand-over site of the regularisation list in project_equations,
    `least_squares->min_x(min_n_, min_x_)`: how often it occurs, whether it is a statement at brace
    depth 0 (runs on every pass that reaches the end of the function), its arguments, whether it stands
    after the last write of min_x_/min_n_ (the list just built) and after the solver's reset(...), before
    `tst_rov_opr_ = true`, and whether every earlier `return` is the recursive restart;
  * (round 9) set_algorithm: is the solver object replaced by a brand-new one on every path
    (`least_squares = <local>` at depth 0, every assignment to <local> a `new T` without arguments, no
    `return`), is the old object read, is the new one told a list, which update(L) is issued;
  * (round 9) the capacity of the envelope solver's move-to-front cache, `MoveToFront<N,…>` in
    lib/gnu_gama/adj/adj_envelope.h (`mtfCapacity`; Props/C04.lean proves `cacheSize = mtfCapacity` by rfl).
The Lean model (Model/NetState.lean) is generic over this table; the theorems in
Props/C04Full.lean about the table (`net_table_*`) are `decide`d on the generated data, so a
change in the source that breaks the cascade makes the proof fail.
Usage:  python3 tools/gen/c04_cascade.py <repo> [<out.lean>]   (prints to stdout without <out>)
"""
import re
import sys
from pathlib import Path

LEVELS_EXPECTED = ["Points", "Observations", "Residuals", "Adjustment"]
FLAGS = ["tst_redbod_", "tst_redmer_", "tst_rov_opr_", "tst_vyrovnani_"]
COMPUTE = ["revision_points", "revision_observations", "project_equations", "vyrovnani_"]
# cached artefacts by level (members of LocalNetwork written by the compute function of that level)
ARTEFACTS = {
    0: ["pocbod_", "undefined_xy_z_"],
    1: ["revised_obs_", "removed_obs_", "pocmer_"],
    2: ["A", "b", "rhs_", "unknowns_", "min_x_", "min_n_", "vybocujici_abscl_", "pocet_neznamych_",
        "design_matrix_graph_is_connected"],
    3: ["r", "suma_pvv_", "sigma_L", "vahkopr", "least_squares"],
}
# public wrappers whose first unconditional statement is a compute call are found by fixpoint
SKIP = {"LocalNetwork", "~LocalNetwork", "update"}


class TieBrokenLocal(Exception):
    pass


HANDLERS = {}      # function name -> [(exception declaration, handler body)] of a function-try-block


def strip(src):
    src = re.sub(r"/\*.*?\*/", lambda m: re.sub(r"[^\n]", " ", m.group(0)), src, flags=re.S)
    src = re.sub(r"//[^\n]*", "", src)
    src = re.sub(r'"(\\.|[^"\\])*"', '""', src)
    return src


def match_brace(s, i):
    """s[i] == '{' -> index of the matching '}'"""
    d = 0
    for k in range(i, len(s)):
        if s[k] == "{":
            d += 1
        elif s[k] == "}":
            d -= 1
            if d == 0:
                return k
    raise TieBrokenLocal("unbalanced braces")


def cpp_functions(cpp):
    """name -> list of bodies of `… LocalNetwork::name(…) [const] {…}`"""
    out = {}
    for m in re.finditer(r"LocalNetwork::(~?\w+)\s*\(([^;{}]*?)\)\s*(const)?\s*(try\b)?\s*(?::[^{;]*)?\{", cpp):
        i = m.end() - 1
        j = match_brace(cpp, i)
        body = cpp[i + 1:j]
        if m.group(4):                       # function-try-block: keep the handlers with the body
            k = j + 1
            while True:
                mm = re.match(r"\s*catch\s*\(([^)]*)\)\s*\{", cpp[k:])
                if not mm:
                    break
                e = match_brace(cpp, k + mm.end() - 1)
                HANDLERS.setdefault(m.group(1), []).append((mm.group(1).strip(), cpp[k + mm.end():e]))
                k = e + 1
        out.setdefault(m.group(1), []).append((m.group(2).strip(), body))
    return out


def header_public_inline(h):
    """inline bodies in the public part of class LocalNetwork: name -> [(args, body)]"""
    m = re.search(r"class\s+LocalNetwork\s*\{", h)
    if not m:
        raise TieBrokenLocal("class LocalNetwork not found")
    i = m.end() - 1
    j = match_brace(h, i)
    body = h[i + 1:j]
    # cut into access sections
    pieces = re.split(r"\b(public|private|protected)\s*:", body)
    access, pub = "private", []
    for p in pieces:
        if p in ("public", "private", "protected"):
            access = p
        elif access == "public":
            pub.append(p)
    pubtext = "\n".join(pub)
    out, decl = {}, set()
    k = 0
    while True:
        m = re.search(r"(~?\b[A-Za-z_]\w*)\s*\(((?:[^;{}()]|\([^()]*\))*)\)\s*(const)?\s*([;{])", pubtext[k:])
        if not m:
            break
        name, args, end = m.group(1), m.group(2), m.group(4)
        pos = k + m.end() - 1
        if end == "{":
            e = match_brace(pubtext, pos)
            if name not in ("if", "for", "while", "switch", "return", "sizeof"):
                out.setdefault(name, []).append((args.strip(), pubtext[pos + 1:e]))
            k = e + 1
        else:
            if name not in ("if", "for", "while", "switch", "return", "sizeof"):
                decl.add(name)
            k = pos + 1
    return out, decl


def depth0_statements(body):
    """statements at brace depth 0 of a function body (text between ';' / blocks), in order"""
    stmts, cur, d, par = [], "", 0, 0
    for ch in body:
        if ch == "{":
            d += 1
        elif ch == "}":
            d -= 1
            if d == 0:
                cur += ch
                stmts.append(cur.strip())
                cur = ""
                continue
        if ch == "(":
            par += 1
        elif ch == ")":
            par -= 1
        cur += ch
        if ch == ";" and d == 0 and par == 0:
            stmts.append(cur.strip())
            cur = ""
    if cur.strip():
        stmts.append(cur.strip())
    return [s for s in stmts if s]


def level_of_compute(name):
    return COMPUTE.index(name)


def local_names(args, body):
    """identifiers that are parameters or local variables (they shadow the single-letter members A, b, r)"""
    names = set(re.findall(r"(\w+)\s*(?:,|$|=)", args))
    for m in re.finditer(r"\b(?:double|int|float|auto|bool|long|Index|Vec|Mat|CovMat)\s*[&*]?\s*((?:\w+\s*(?:=\s*[^,;]+)?\s*,\s*)*\w+)\s*(?:=|;|\()", body):
        for n in re.findall(r"(\w+)\s*(?:=[^,;]*)?(?:,|$)", m.group(1)):
            names.add(n)
    return names


def events(text, shadow):
    """artefact reads and calls of members in textual order: [(pos, 'read', level) | (pos, 'call', name)]"""
    ev = []
    for l, names in ARTEFACTS.items():
        for n in names:
            if n in shadow:
                continue
            for m in re.finditer(r"(?<![\w.>:])" + re.escape(n) + r"\b", text):
                # `r(` etc. is an element access of the cached vector; a declaration `Vec r` cannot occur (member)
                if re.match(r"\s*=[^=]", text[m.end():]) or re.search(r"\bdelete\s*(\[\])?\s*$", text[:m.start()]):
                    continue            # the member is assigned / freed, not read
                ev.append((m.start(), "read", l))
    for m in re.finditer(r"(?<![\w.>])(\w+)\s*\(", text):
        ev.append((m.start(), "call", m.group(1)))
    return sorted(ev)


def analyse_member(name, args, body, info):
    """info: name -> (ensures, uncovered reads) of the members known so far.
       returns (ensures, reads, uncovered, updates)"""
    shadow = local_names(args, body)
    body = re.sub(r"\btry\s*\{", "{", body)
    stmts = depth0_statements(body)
    lvl = None          # level ensured so far by unconditional calls
    reads, uncovered = set(), set()
    uncond = True

    def scan(text, may_raise):
        nonlocal lvl
        for _, kind, x in events(text, shadow):
            if kind == "read":
                reads.add(x)
                if lvl is None or x > lvl:
                    uncovered.add(x)
            else:
                if x in info:
                    e, unc = info[x]
                    for r_ in unc:
                        reads.add(r_)
                        if lvl is None or r_ > lvl:
                            uncovered.add(r_)
                    if may_raise and e is not None:
                        lvl = e if lvl is None else max(lvl, e)

    for s_ in stmts:
        m = re.match(r"(if|while|switch)\s*\(", s_)
        if m and uncond:
            # the condition is evaluated unconditionally
            i = s_.index("(")
            d, j = 0, i
            for j in range(i, len(s_)):
                if s_[j] == "(":
                    d += 1
                elif s_[j] == ")":
                    d -= 1
                    if d == 0:
                        break
            scan(s_[i:j + 1], True)
            scan(s_[j + 1:], False)
            uncond = False
            continue
        if re.match(r"(for|do|else)\b", s_) or s_.startswith("{") and not uncond:
            scan(s_, False)
            uncond = False
            continue
        if s_.startswith("{"):          # flattened try block / plain block: unconditional
            inner = s_[1:s_.rindex("}")]
            e, rd, unc, _ = analyse_member(name, args, inner, info)
            for r_ in rd:
                reads.add(r_)
            for r_ in unc:
                if lvl is None or r_ > lvl:
                    uncovered.add(r_)
            if e is not None:
                lvl = e if lvl is None else max(lvl, e)
            continue
        scan(s_, uncond)
    upd = [LEVELS_EXPECTED.index(x) for x in re.findall(r"\bupdate\s*\(\s*(\w+)\s*\)", body) if x in LEVELS_EXPECTED]
    return lvl, sorted(reads), sorted(uncovered), (min(upd) if upd else None)


WRITE_LIST = r"(?:delete\s*\[\]\s*min_x_\b|\bmin_x_\s*(?:\[[^\]]*\])?\s*=[^=]|\bmin_n_\s*(?:=[^=]|\+=|-=|\+\+|--)|(?:\+\+|--)\s*min_n_\b)"


def extract_handover(fns):
    """the hand-over site `least_squares->min_x(min_n_, min_x_)` in project_equations()"""
    body = next(b for a, b in fns["project_equations"] if a == "")
    calls = list(re.finditer(r"\bleast_squares\s*->\s*min_x\s*\(([^()]*)\)", body))
    other = [m for m in re.finditer(r"(\w+)\s*(?:->|\.)\s*min_x\s*\(", body) if m.group(1) != "least_squares"]
    if other:
        raise TieBrokenLocal("project_equations: min_x(...) called through '%s' (shape not understood)" % other[0].group(1))
    d = {"count": len(calls), "depth0": False, "args": [], "after_build": False, "after_reset": False,
         "before_flag": False, "returns_restart": True}
    if len(calls) != 1:
        return d
    c = calls[0]
    d["args"] = [a.strip() for a in c.group(1).split(",")] if c.group(1).strip() else []
    stmts = depth0_statements(body)
    d["depth0"] = any(re.fullmatch(r"least_squares\s*->\s*min_x\s*\([^()]*\)\s*;", s_) for s_ in stmts)
    writes = [m.start() for m in re.finditer(WRITE_LIST, body)]
    d["after_build"] = bool(writes) and all(w < c.start() for w in writes)
    resets = [m.start() for m in re.finditer(r"->\s*reset\s*\(", body)]
    d["after_reset"] = bool(resets) and all(r_ < c.start() for r_ in resets)
    flag = re.search(FLAGS[2] + r"\s*=\s*true\s*;", body)
    d["before_flag"] = bool(flag) and c.start() < flag.start()
    # every `return` before the call must be the restart `update(Points); project_equations(); return;`
    # (the early-return guard `if (tst_rov_opr_) return;` is the Compute row's `guard`)
    pre = body[:c.start()]
    pre = re.sub(r"if\s*\(\s*" + FLAGS[2] + r"\s*\)\s*return\s*;", "", pre)
    for m in re.finditer(r"\breturn\b", pre):
        ctx_ = pre[max(0, m.start() - 80):m.start()]
        if not re.search(r"\bproject_equations\s*\(\s*\)\s*;\s*$", ctx_):
            d["returns_restart"] = False
    return d


def extract_set_algorithm(fns, levels, raw_fns):
    if "set_algorithm" not in fns or "set_algorithm" not in raw_fns:
        raise TieBrokenLocal("LocalNetwork::set_algorithm not found")
    body = fns["set_algorithm"][0][1]
    raw = raw_fns["set_algorithm"][0][1]          # string literals kept
    stmts = depth0_statements(body)
    d = {"fresh_object": False, "list_calls": len(re.findall(r"(?:->|\.)\s*min_x\s*\(", body)),
         "reads_old": bool(re.search(r"\bleast_squares\s*->|\*\s*least_squares\b", body)),
         "update": None, "update_depth0": False}
    asg = [re.fullmatch(r"least_squares\s*=\s*(\w+)\s*;", s_) for s_ in stmts]
    asg = [m for m in asg if m]
    all_asg = re.findall(r"\bleast_squares\s*=[^=]", body)
    if len(asg) == 1 and len(all_asg) == 1 and not re.search(r"\breturn\b", body):
        loc = asg[0].group(1)
        vals = re.findall(r"\b" + re.escape(loc) + r"\s*=\s*([^;]*);", body)
        d["fresh_object"] = bool(vals) and all(re.fullmatch(r"new\s+[\w:<>, ]+?(\s*\(\s*\))?", v.strip()) for v in vals)
    # which class is created for which name: `typedef GNU_gama::AdjGSO<…> OLS_gso;` … `if (alg == "gso") adjb = new OLS_gso;`
    # and what the final `else` creates (an unknown name)
    tdef = dict((b_, a_) for a_, b_ in re.findall(r"typedef\s+(?:\w+::)*(\w+)\s*<[^;]*>\s*(\w+)\s*;", raw))
    d["classes"] = [(n_, tdef.get(c_, c_)) for n_, c_ in
                    re.findall(r'\(\s*alg\s*==\s*"(\w*)"\s*\)\s*\w+\s*=\s*new\s+(\w+)\s*;', raw)]
    m = re.search(r'else\s*\{\s*alg\s*=\s*"(\w*)"\s*;\s*\w+\s*=\s*new\s+(\w+)\s*;\s*\}', raw)
    d["default"] = (m.group(1), tdef.get(m.group(2), m.group(2))) if m else ("", "")
    d["stores_name"] = bool(re.search(r"\balgorithm_\s*=\s*alg\s*;", raw))
    upd = [x for x in re.findall(r"\bupdate\s*\(\s*(\w+)\s*\)", body) if x in levels]
    if upd:
        d["update"] = min(levels.index(x) for x in upd)
        d["update_depth0"] = all(any(re.fullmatch(r"update\s*\(\s*" + x + r"\s*\)\s*;", s_) for s_ in stmts) for x in upd)
    return d


def extract_mtf(repo):
    h = strip((Path(repo) / "lib/gnu_gama/adj/adj_envelope.h").read_text())
    ms = re.findall(r"MoveToFront\s*<\s*(\d+)\s*,", h)
    if len(ms) != 1:
        raise TieBrokenLocal("adj_envelope.h: expected exactly one MoveToFront<N,...> member, found %d" % len(ms))
    return int(ms[0])


def extract(repo):
    HANDLERS.clear()
    repo = Path(repo)
    h = strip((repo / "lib/gnu_gama/local/network.h").read_text())
    cpp_text = (repo / "lib/gnu_gama/local/network.cpp").read_text()
    cpp = strip(cpp_text)
    raw_cpp = re.sub(r"//[^\n]*", "", re.sub(r"/\*.*?\*/", " ", cpp_text, flags=re.S))
    m = re.search(r"enum\s+Update\s*\{([^}]*)\}", h)
    if not m:
        raise TieBrokenLocal("enum Update not found")
    levels = [x.strip() for x in m.group(1).split(",") if x.strip()]
    fns = cpp_functions(cpp)
    if "update" not in fns:
        raise TieBrokenLocal("LocalNetwork::update not found")
    ub = fns["update"][0][1]
    sw = re.search(r"switch\s*\(\s*\w+\s*\)\s*\{", ub)
    if not sw:
        raise TieBrokenLocal("switch not found in update")
    swb = ub[sw.end():match_brace(ub, sw.end() - 1)]
    cascade = []
    interrupted = bool(re.search(r"\b(break|return|goto|throw)\b", swb))
    for m in re.finditer(r"case\s+(\w+)\s*:\s*((?:\w+\s*=\s*\w+\s*;\s*)*)", swb):
        lab = m.group(1)
        assigns = re.findall(r"(\w+)\s*=\s*(\w+)\s*;", m.group(2))
        for fl, val in assigns:
            if val != "false" or fl not in FLAGS:
                raise TieBrokenLocal(f"update: unexpected assignment {fl} = {val}")
        cascade.append((lab, [FLAGS.index(f) for f, _ in assigns]))
    default_first = bool(re.match(r"\s*default\s*:", swb))
    # compute functions
    comp = []
    for lv, name in enumerate(COMPUTE):
        if name not in fns:
            raise TieBrokenLocal(f"{name} not found")
        body = next(b for a, b in fns[name] if a == "" or name != "project_equations")
        if name == "project_equations":
            body = next(b for a, b in fns[name] if a == "")
        guard = bool(re.search(r"if\s*\(\s*" + FLAGS[lv] + r"\s*\)\s*return\s*;", body))
        below = None
        if lv > 0:
            mm = re.search(r"if\s*\(\s*!\s*" + FLAGS[lv - 1] + r"\s*\)\s*" + COMPUTE[lv - 1] + r"\s*\(\s*\)\s*;", body)
            below = "guarded" if mm else ("plain" if re.search(r"\b" + COMPUTE[lv - 1] + r"\s*\(\s*\)\s*;", body) else None)
        sets = re.search(FLAGS[lv] + r"\s*=\s*true\s*;", body)
        if not sets:
            raise TieBrokenLocal(f"{name} does not set {FLAGS[lv]}")
        tail = body[sets.end():]
        upd = re.search(r"\bupdate\s*\(\s*(\w+)\s*\)", tail)
        ends_update = levels.index(upd.group(1)) if (upd and lv < 3) else None
        # vyrovnani_: does the solver get consulted after the flag is set?
        flag_before_solver = bool(re.search(r"least_squares\s*->|->\s*residuals\s*\(", tail)) if lv == 3 else False
        # is the flag taken back when the function is left by an exception?
        reset = False
        for decl_, hb in HANDLERS.get(name, []):
            if decl_ == "..." and re.search(FLAGS[lv] + r"\s*=\s*false\s*;", hb) and re.search(r"\bthrow\s*;", hb):
                reset = True
        if re.search(r"catch\s*\(\s*\.\.\.\s*\)\s*\{[^{}]*" + FLAGS[lv] + r"\s*=\s*false\s*;[^{}]*\bthrow\s*;[^{}]*\}", body):
            reset = True
        comp.append({"name": name, "guard": guard, "below": below, "ends_update": ends_update,
                     "flag_before_solver": flag_before_solver, "reset_on_throw": reset})
    # public members (overloads on constness / arguments get a numeric suffix)
    inl, decl = header_public_inline(h)
    bodies = {}
    for n, lst in inl.items():
        bodies.setdefault(n, []).extend(lst)
    for n in decl:
        if n in fns:
            bodies.setdefault(n, []).extend(fns[n])
    info = {c: (i, []) for i, c in enumerate(COMPUTE)}
    for _ in range(8):
        changed = False
        for n, bl in bodies.items():
            if n in SKIP or n in COMPUTE:
                continue
            # a call `n(...)` from another member resolves to the first overload without arguments if any
            pick = next(((a, b) for a, b in bl if a == ""), bl[0])
            e, rd, unc, _ = analyse_member(n, pick[0], pick[1], info)
            if info.get(n) != (e, unc):
                info[n] = (e, unc)
                changed = True
        if not changed:
            break
    members = []
    for n in sorted(bodies):
        if n in SKIP:
            continue
        for k, (args, b) in enumerate(bodies[n]):
            nm = n if k == 0 else f"{n}#{k + 1}"
            if n in COMPUTE and args == "":
                lv = COMPUTE.index(n)
                # the update(L) a compute function ends with is part of the function (Compute.endsUpdate), not a
                # separate step of the member
                members.append((nm, lv, [], [], None))
                continue
            e, reads, unc, upd = analyse_member(n, args, b, info)
            members.append((nm, e, reads, unc, upd))
    saved = {k: list(v) for k, v in HANDLERS.items()}
    raw_fns = cpp_functions(raw_cpp)
    HANDLERS.clear()
    HANDLERS.update(saved)
    return {"levels": levels, "cascade": cascade, "interrupted": interrupted, "default_first": default_first,
            "compute": comp, "members": members, "handover": extract_handover(fns),
            "set_algorithm": extract_set_algorithm(fns, levels, raw_fns), "mtf": extract_mtf(repo)}


ARTEFACTS_READ_BY_COMPUTE = {}


def lean_opt(x):
    return "none" if x is None else f"(some {x})"


def render(d):
    L = []
    L.append("/-  GENERATED by tools/gen/c04_cascade.py from lib/gnu_gama/local/network.h, network.cpp, adj/adj_envelope.h — do not edit.")
    L.append("    The update cascade of LocalNetwork and the table `public member ↦ (ensured level, artefact")
    L.append("    levels read, update level issued)`.  Levels: 0 Points, 1 Observations, 2 Residuals, 3 Adjustment;")
    L.append("    flags: 0 tst_redbod_, 1 tst_redmer_, 2 tst_rov_opr_, 3 tst_vyrovnani_.  Core Lean only. -/")
    L.append("namespace Gama.C04.Net.Gen")
    L.append("")
    L.append("/-- `enum Update`, in declaration order -/")
    L.append("def levels : List String := [" + ", ".join(f'"{x}"' for x in d["levels"]) + "]")
    L.append("")
    L.append("/-- `switch` of `LocalNetwork::update` in source order: (level of the case label, flags it clears) -/")
    L.append("def cascade : List (Nat × List Nat) := [" + ", ".join(
        f"({d['levels'].index(lab)}, [{', '.join(map(str, fl))}])" for lab, fl in d["cascade"]) + "]")
    L.append("")
    L.append("/-- a `break` / `return` inside the switch would interrupt the fall-through -/")
    L.append(f"def interrupted : Bool := {'true' if d['interrupted'] else 'false'}")
    L.append("")
    L.append("/-- the compute function of each level: early-return guard on its own flag, how the level below is")
    L.append("    called (`some true`: `if (!flag) f();`, `some false`: unconditionally, `none`: not at all), the")
    L.append("    `update(L)` it ends with, (level 3) whether the flag is set before the solver is consulted, and")
    L.append("    whether a `catch (...)` handler takes the flag back (`flag = false; throw;`) -/")
    L.append("structure Compute where")
    L.append("  name : String")
    L.append("  guard : Bool")
    L.append("  below : Option Bool")
    L.append("  endsUpdate : Option Nat")
    L.append("  flagBeforeSolver : Bool")
    L.append("  resetOnThrow : Bool")
    L.append("deriving Repr, DecidableEq")
    L.append("")
    L.append("def compute : List Compute := [")
    rows = []
    for c in d["compute"]:
        below = "none" if c["below"] is None else ("(some true)" if c["below"] == "guarded" else "(some false)")
        rows.append(f'  ⟨"{c["name"]}", {"true" if c["guard"] else "false"}, {below}, {lean_opt(c["ends_update"])}, '
                    f'{"true" if c["flag_before_solver"] else "false"}, {"true" if c["reset_on_throw"] else "false"}⟩')
    L.append(",\n".join(rows) + "]")
    L.append("")
    L.append("/-- a public member: the level its unconditional prefix brings up to date, the levels of the cached")
    L.append("    artefacts it reads (directly or through members it calls), those of them read BEFORE a compute")
    L.append("    function of at least that level has been called (`uncovered`), the `update(L)` it issues -/")
    L.append("structure Member where")
    L.append("  name : String")
    L.append("  ensures : Option Nat")
    L.append("  reads : List Nat")
    L.append("  uncovered : List Nat")
    L.append("  updates : Option Nat")
    L.append("deriving Repr, DecidableEq, Inhabited")
    L.append("")
    L.append("def members : List Member := [")
    rows = []
    for n, e, reads, unc, upd in d["members"]:
        rows.append(f'  ⟨"{n}", {lean_opt(e)}, [{", ".join(map(str, reads))}], [{", ".join(map(str, unc))}], {lean_opt(upd)}⟩')
    L.append(",\n".join(rows) + "]")
    L.append("")
    b = lambda x: "true" if x else "false"
    h = d["handover"]
    L.append("/-- the hand-over of the regularisation list in `project_equations()`: the calls `least_squares->min_x(…)`")
    L.append("    (`count`); for a single call: is it a statement at brace depth 0 of the body (`depth0`: runs on every pass")
    L.append("    that reaches the end), its arguments, does it stand after the last write of `min_x_`/`min_n_` (`afterBuild`:")
    L.append("    the list just built, not the previous run's), after the solver's `reset(…)`, before `tst_rov_opr_ = true`,")
    L.append("    and is every `return` before it the recursive restart `project_equations(); return;` -/")
    L.append("structure HandOver where")
    L.append("  count : Nat")
    L.append("  depth0 : Bool")
    L.append("  args : List String")
    L.append("  afterBuild : Bool")
    L.append("  afterReset : Bool")
    L.append("  beforeFlag : Bool")
    L.append("  returnsRestart : Bool")
    L.append("deriving Repr, DecidableEq")
    L.append("")
    L.append("def handOver : HandOver :=")
    L.append(f'  ⟨{h["count"]}, {b(h["depth0"])}, [{", ".join(chr(34) + a + chr(34) for a in h["args"])}], {b(h["after_build"])}, '
             f'{b(h["after_reset"])}, {b(h["before_flag"])}, {b(h["returns_restart"])}⟩')
    L.append("")
    sa = d["set_algorithm"]
    L.append("/-- `set_algorithm(name)`: `freshObject` — `least_squares = <local>` is a statement at depth 0, the only assignment")
    L.append("    to `least_squares`, every value of <local> is `new T` without arguments and there is no `return`;")
    L.append("    `listCalls` — `min_x(` calls in the body (the new object is told a list); `readsOld` — the old object is")
    L.append("    dereferenced; `update` — the lowest level of the `update(L)` calls, `updateDepth0` — all of them at depth 0 -/")
    L.append("structure SetAlg where")
    L.append("  /-- (name, solver class created for it) in source order; the class created for any other name; `algorithm_ = alg` -/")
    L.append("  classes : List (String × String)")
    L.append("  dflt : String × String")
    L.append("  storesName : Bool")
    L.append("  freshObject : Bool")
    L.append("  listCalls : Nat")
    L.append("  readsOld : Bool")
    L.append("  update : Option Nat")
    L.append("  updateDepth0 : Bool")
    L.append("deriving Repr, DecidableEq")
    L.append("")
    L.append(f'def setAlg : SetAlg := ⟨[{", ".join("(" + chr(34) + n_ + chr(34) + ", " + chr(34) + c_ + chr(34) + ")" for n_, c_ in sa["classes"])}], '
             f'({chr(34)}{sa["default"][0]}{chr(34)}, {chr(34)}{sa["default"][1]}{chr(34)}), {b(sa["stores_name"])}, {b(sa["fresh_object"])}, {sa["list_calls"]}, {b(sa["reads_old"])}, '
             f'{lean_opt(sa["update"])}, {b(sa["update_depth0"])}⟩')
    L.append("")
    L.append("/-- `GNU_gama::MoveToFront<N,Index,Index> indbuf` of `AdjEnvelope` (lib/gnu_gama/adj/adj_envelope.h) -/")
    L.append(f'def mtfCapacity : Nat := {d["mtf"]}')
    L.append("")
    L.append("end Gama.C04.Net.Gen")
    return "\n".join(L) + "\n"


def generate(repo):
    return render(extract(repo))


if __name__ == "__main__":
    text = generate(sys.argv[1] if len(sys.argv) > 1 else "/repo")
    if len(sys.argv) > 2:
        p = Path(sys.argv[2])
        if not p.exists() or p.read_text() != text:
            p.write_text(text)
    else:
        sys.stdout.write(text)
