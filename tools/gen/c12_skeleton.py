#!/usr/bin/env python3
"""
Translator for C12 (document skeleton):  lib/gnu_gama/xml/localnetworkxml.cpp  ->  lean/Gama/Gen/XmlSkeleton.lean

The functions of LocalNetworkXML (`write`, `coordinates_summary`, `observations_summary`, `equations_summary`,
`std_dev_summary`, `coordinates`, `std_error_ellipses`, `orientation_shifts`, `observations`, the templates
`tagsp` / `tagnl`) and of WriteXMLVisitor (`visit(T*)`, `tag_id`, `tag_from_to`) are executed SYMBOLICALLY on their two
output streams:

  * statements are parsed into blocks / if / else / for / while / switch / simple statements; a simple statement either
    streams to `out` / `*ostr`, calls one of the functions above (inlined), declares or assigns a `const char*`
    variable holding a literal (`cx = "X"`), sets up the secondary stream, or is irrelevant to the output; a statement
    that mentions `out <<`, `*ostr <<` or passes `out` to a call and is not recognised STOPS the translator;
  * streamed operands are literals (kept), variables holding a literal (`t`, `cx`, the visitor's `tag`), the secondary
    stream's contents (`ostr.str()`, spliced where it is flushed), or anything else = an operand hole;
  * `for` / `while` -> star, `if` -> opt, `if/else` / `switch` -> alt; an `if` that only assigns literal variables and
    `accept(&writeVisitor)` fork the rest of the enclosing block (one alternative per value / per visit method), so that
    `"</" << lastTag() << ">"` is the tag the same path opened;
  * the resulting piece tree is tokenised (start tag with attributes, end tag, comment, declaration, character data,
    operand); a start tag may be completed across an `if` that writes one attribute (-> optional attribute) and an
    attribute value across a `switch` of literals (-> constant operand).  Operands are classified by the name of the
    enclosing element / attribute with the tables of c12_sites.py (unknown name = stop).
"""
import re
import sys
from pathlib import Path

sys.path.insert(0, str(Path(__file__).resolve().parent))
import c12_sites as S  # noqa: E402


class SkError(S.SitesError):
    pass


WRITER_FUNCS = ["write", "coordinates_summary", "observations_summary", "equations_summary", "std_dev_summary",
                "coordinates", "std_error_ellipses", "orientation_shifts", "observations"]
TEMPLATES = ["tagnl", "tagsp"]
VISITOR_HELPERS = ["tag_id", "tag_from_to"]


# ------------------------------------------------------------------ C++ subset parser

def match_close(t, i, op, cl):
    """t[i] == op; index of the matching close, skipping string / char literals"""
    depth, n = 0, len(t)
    while i < n:
        c = t[i]
        if c == '"' or c == "'":
            q = c
            i += 1
            while i < n and t[i] != q:
                if t[i] == "\\":
                    i += 1
                i += 1
        elif c == op:
            depth += 1
        elif c == cl:
            depth -= 1
            if depth == 0:
                return i
        i += 1
    raise SkError(f"unbalanced {op}{cl}")


def function_body(text, pattern):
    m = re.search(pattern, text)
    if not m:
        raise SkError(f"function not found: {pattern}")
    i = text.index("{", m.end() - 1)
    j = match_close(text, i, "{", "}")
    return text[i + 1:j]


class Parser:
    def __init__(self, text):
        self.t, self.i = text, 0

    def ws(self):
        while self.i < len(self.t) and self.t[self.i].isspace():
            self.i += 1

    def at_end(self):
        self.ws()
        return self.i >= len(self.t)

    def kw(self, w):
        self.ws()
        if self.t.startswith(w, self.i) and not (self.i + len(w) < len(self.t) and (self.t[self.i + len(w)].isalnum() or self.t[self.i + len(w)] == "_")):
            return True
        return False

    def parens(self):
        self.ws()
        if self.t[self.i] != "(":
            raise SkError("expected (")
        j = match_close(self.t, self.i, "(", ")")
        s = self.t[self.i + 1:j]
        self.i = j + 1
        return s

    def stmts(self):
        out = []
        while not self.at_end():
            out.append(self.stmt())
        return out

    def stmt(self):
        self.ws()
        t = self.t
        if t[self.i] == "{":
            j = match_close(t, self.i, "{", "}")
            inner = Parser(t[self.i + 1:j]).stmts()
            self.i = j + 1
            return ("block", inner)
        if t[self.i] == ";":
            self.i += 1
            return ("simple", "")
        if self.kw("if"):
            self.i += 2
            cond = self.parens()
            a = self.stmt()
            b = None
            if self.kw("else"):
                self.i += 4
                b = self.stmt()
            return ("if", cond, a, b)
        for w in ("for", "while"):
            if self.kw(w):
                self.i += len(w)
                self.parens()
                return ("loop", self.stmt())
        if self.kw("switch"):
            self.i += 6
            self.parens()
            self.ws()
            j = match_close(t, self.i, "{", "}")
            body = t[self.i + 1:j]
            self.i = j + 1
            return ("switch", self.switch_cases(body))
        for w in ("class", "struct"):
            if self.kw(w):
                j = t.index("{", self.i)
                k = match_close(t, j, "{", "}")
                self.i = t.index(";", k) + 1
                return ("class", t[j:k])
        for w in ("do", "try", "goto", "return"):
            if self.kw(w):
                raise SkError(f"statement `{w}` not supported in a writer function")
        # simple statement up to the top-level ';'
        i, n = self.i, len(t)
        depth = 0
        while i < n:
            c = t[i]
            if c in "\"'":
                q = c
                i += 1
                while i < n and t[i] != q:
                    if t[i] == "\\":
                        i += 1
                    i += 1
            elif c in "([{":
                depth += 1
            elif c in ")]}":
                depth -= 1
            elif c == ";" and depth == 0:
                break
            i += 1
        s = squeeze(t[self.i:i])
        self.i = i + 1
        return ("simple", s)

    @staticmethod
    def switch_cases(body):
        # split at `case X:` / `default:` labels (top level), each case runs to its `break;`
        labels = [m for m in re.finditer(r"\b(case\b[^:;]*?[^:]:(?!:)|default\s*:)", body)]
        if not labels:
            raise SkError("switch without case labels")
        cases = []
        for k, m in enumerate(labels):
            seg = body[m.end(): labels[k + 1].start() if k + 1 < len(labels) else len(body)]
            st = Parser(seg).stmts()
            if not st or st[-1] != ("simple", "break"):
                raise SkError("switch case without trailing break (fall-through not supported)")
            cases.append(st[:-1])
        return cases


def squeeze(s):
    """collapse white space outside string / char literals"""
    out, i, n = [], 0, len(s)
    while i < n:
        c = s[i]
        if c in "\"'":
            j = i + 1
            while j < n and s[j] != c:
                if s[j] == "\\":
                    j += 1
                j += 1
            out.append(s[i:j + 1])
            i = j + 1
        elif c.isspace():
            if out and out[-1] != " ":
                out.append(" ")
            i += 1
        else:
            out.append(c)
            i += 1
    return "".join(out).strip()


def split_top(s, sep):
    """split at top-level occurrences of `sep` (outside parens / literals)"""
    parts, depth, i, cur, n = [], 0, 0, 0, len(s)
    while i < n:
        c = s[i]
        if c in "\"'":
            q = c
            i += 1
            while i < n and s[i] != q:
                if s[i] == "\\":
                    i += 1
                i += 1
        elif c in "([{":
            depth += 1
        elif c in ")]}":
            depth -= 1
        elif depth == 0 and s.startswith(sep, i):
            parts.append(s[cur:i])
            i += len(sep)
            cur = i
            continue
        i += 1
    parts.append(s[cur:])
    return [p.strip() for p in parts]


C_ESC = {"n": "\n", "t": "\t", '"': '"', "\\": "\\", "'": "'", "r": "\r", "0": "\0"}


def c_unescape(s):
    out, i = [], 0
    while i < len(s):
        if s[i] == "\\" and i + 1 < len(s):
            if s[i + 1] not in C_ESC:
                raise SkError(f"escape \\{s[i + 1]} in literal not supported")
            out.append(C_ESC[s[i + 1]])
            i += 2
        else:
            out.append(s[i])
            i += 1
    return "".join(out)


STRLIT = r'"((?:[^"\\]|\\.)*)"'


# ------------------------------------------------------------------ symbolic execution

class State:
    def __init__(self, env=None, ostr=None, secondary=False, tag=None):
        self.env = dict(env or {})
        self.ostr = list(ostr) if ostr is not None else None   # secondary stream buffer (None = not declared)
        self.secondary = secondary                             # visitor's *ostr points to the secondary stream
        self.tag = tag

    def copy(self):
        return State(self.env, self.ostr, self.secondary, self.tag)


class Exec:
    def __init__(self, text):
        self.text = text
        self.fn = {}
        for f in WRITER_FUNCS:
            self.fn[f] = Parser(function_body(text, r"void\s+LocalNetworkXML::" + f + r"\s*\([^)]*\)\s*const\s*\{")).stmts()
        for f in TEMPLATES:
            self.fn[f] = Parser(function_body(text, r"void\s+LocalNetworkXML::" + f + r"\s*\([^)]*\)\s*const\s*\{")).stmts()
        for f in VISITOR_HELPERS:
            self.fn[f] = Parser(function_body(text, r"void\s+" + f + r"\s*\([^)]*\)\s*\{")).stmts()
        self.visits = []
        for m in re.finditer(r"void\s+visit\s*\(\s*(\w+)\s*\*\s*obs\s*\)\s*\{", text):
            # only the visitor that writes (class WriteXMLVisitor comes first; the counter's visits have no `obs` name)
            i = text.index("{", m.end() - 1)
            j = match_close(text, i, "{", "}")
            self.visits.append((m.group(1), Parser(text[i + 1:j]).stmts()))
        if len(self.visits) < 2:
            raise SkError("WriteXMLVisitor::visit methods not found")
        if not re.search(r"std::string\s+lastTag\s*\(\s*\)\s*const\s*\{\s*return\s+tag\s*;\s*\}", text):
            raise SkError("WriteXMLVisitor::lastTag() is not `return tag;`")
        self.inlined = set()

    # ---- statements
    def run(self, stmts, st):
        """nodes streamed to `out` by the statement list; forks distribute the rest of the list"""
        nodes = []
        for k, s in enumerate(stmts):
            kind = s[0]
            if kind == "block":
                nodes += self.run(s[1], st.copy() if False else st)
            elif kind == "loop":
                body = self.run([s[1]], self.loop_state(st))
                nodes.append(("star", body))
            elif kind == "class":
                if "<<" in s[1] or re.search(r"\bout\b", s[1]):
                    raise SkError("a local class of a writer function streams output")
            elif kind == "switch":
                nodes.append(("alt", [self.run(c, st.copy()) for c in s[1]] + [[]]))   # + no case taken (`default: break`)
            elif kind == "if":
                _, cond, a, b = s
                if a == ("simple", "continue") and b is None:
                    # the iteration ends here or goes on
                    return nodes + [("alt", [[], self.run(stmts[k + 1:], st)])]
                if self.assign_only(a, st) and (b is None or self.assign_only(b, st)):
                    alts = []
                    for br in (a, b):
                        st2 = st.copy()
                        if br is not None:
                            self.run([br], st2)
                        alts.append(self.run(stmts[k + 1:], st2))
                    return nodes + [("alt", alts)]
                na = self.run([a], st.copy())
                if b is None:
                    nodes.append(("opt", na))
                else:
                    nodes.append(("alt", [na, self.run([b], st.copy())]))
            else:
                r = self.simple(s[1], st)
                if isinstance(r, tuple) and r[0] == "fork":
                    alts = []
                    for st2, pre in r[1]:
                        alts.append(pre + self.run(stmts[k + 1:], st2))
                    return nodes + [("alt", alts)]
                nodes += r
        return nodes

    @staticmethod
    def loop_state(st):
        return st.copy()

    def assign_only(self, s, st):
        if s[0] == "block":
            return bool(s[1]) and all(self.assign_only(x, st) for x in s[1])
        if s[0] == "simple":
            m = re.fullmatch(r"(\w+)\s*=\s*" + STRLIT, s[1])
            return bool(m) and m.group(1) in st.env
        return False

    def emit(self, stream, nodes, st, out):
        if stream == "out":
            out += nodes
        else:   # *ostr
            if st.secondary:
                if st.ostr is None:
                    raise SkError("secondary stream used before its declaration")
                st.ostr += nodes
            else:
                out += nodes

    def simple(self, s, st):
        if not s or s.startswith("using ") or s == "break":
            return []
        if s == "continue":
            raise SkError("`continue` outside `if (…) continue;` at the top level of a loop body")
        m = re.fullmatch(r"(?:const\s+)?char\s*\*\s*(\w+)\s*=\s*" + STRLIT, s)
        if m:
            st.env[m.group(1)] = c_unescape(m.group(2))
            return []
        m = re.fullmatch(r"(\w+)\s*=\s*" + STRLIT, s)
        if m and m.group(1) in st.env:
            st.env[m.group(1)] = c_unescape(m.group(2))
            return []
        m = re.match(r"(out|\*\s*ostr)\s*<<", s)
        if m:
            stream = "out" if m.group(1) == "out" else "ostr"
            out = []
            for op in split_top(s, "<<")[1:]:
                self.emit(stream, self.operand(op, st), st, out)
            return out
        m = re.fullmatch(r"(tagsp|tagnl)\s*\(\s*out\s*,(.*)\)", s)
        if m:
            args = split_top(m.group(2), ",")
            if len(args) != 2:
                raise SkError(f"{m.group(1)}: two arguments expected in `{s}`")
            t = self.operand(args[0], st)
            if len(t) != 1 or t[0][0] != "lit":
                raise SkError(f"{m.group(1)}: tag argument `{args[0]}` is not a literal")
            st2 = State({"t": t[0][1]})
            st2.holes = {"n": args[1]}
            self.holes = {"n": args[1]}
            r = self.run(self.fn[m.group(1)], st2)
            self.holes = {}
            self.inlined.add(m.group(1))
            return r
        m = re.fullmatch(r"(\w+)\s*\(\s*out(?:\s*,[^()]*)?\)", s)
        if m and m.group(1) in WRITER_FUNCS:
            self.inlined.add(m.group(1))
            return [("call", m.group(1))]
        m = re.fullmatch(r"(tag_id|tag_from_to)\s*\(\s*obs\s*\)", s)
        if m:
            self.inlined.add(m.group(1))
            return self.run(self.fn[m.group(1)], st)
        if re.fullmatch(r"(?:std::)?ostringstream\s+ostr", s):
            st.ostr = []
            return []
        if re.fullmatch(r"WriteXMLVisitor\s+writeVisitor\s*\(\s*out\s*,[^()]*\)", s):
            # constructor: out(outStream), ostr(&outStream) — checked on the class text
            if not re.search(r":\s*out\s*\(\s*outStream\s*\)\s*,\s*ostr\s*\(\s*&\s*outStream\s*\)", self.text):
                raise SkError("WriteXMLVisitor constructor does not bind out / ostr to its stream argument")
            return []
        if re.fullmatch(r"writeVisitor\.setSecondaryOutStream\s*\(\s*ostr\s*\)", s):
            st.secondary = True
            return []
        if re.fullmatch(r"pm\s*->\s*accept\s*\(\s*&\s*writeVisitor\s*\)", s):
            forks = []
            for _, body in self.visits:
                st2 = st.copy()
                st2.tag = None
                pre = self.run(body, st2)
                if st2.tag is None:
                    raise SkError("a visit method does not set `tag`")
                forks.append((st2, pre))
            return ("fork", forks)
        # anything else must not touch the output
        if re.search(r"(^|[^\w.])(out|\*\s*ostr)\s*<<", s) or re.search(r"\(\s*out\s*[,)]", s) or re.search(r"\bostr\b\s*(<<|\.str)", s):
            raise SkError(f"unrecognised statement that writes: `{s[:120]}`")
        if re.search(r"\baccept\s*\(", s) and not re.search(r"accept\s*\(\s*&\s*counter\s*\)", s):
            raise SkError(f"unrecognised visitor call: `{s[:120]}`")
        return []

    def operand(self, op, st):
        op = op.strip()
        m = re.fullmatch(r"(?:" + STRLIT + r"\s*)+", op)
        if m:
            return [("lit", "".join(c_unescape(x) for x in re.findall(STRLIT, op)))]
        if re.fullmatch(r"'(?:[^'\\]|\\.)'", op):
            return [("lit", c_unescape(op[1:-1]))]
        if op in ("endl", "std::endl"):
            return [("lit", "\n")]
        if op in st.env:
            return [("lit", st.env[op])]
        m = re.fullmatch(r"\(\s*tag\s*=\s*" + STRLIT + r"\s*\)", op)
        if m:
            st.tag = c_unescape(m.group(1))
            return [("lit", st.tag)]
        if re.fullmatch(r"writeVisitor\.lastTag\s*\(\s*\)", op):
            if st.tag is None:
                raise SkError("lastTag() before any visit")
            return [("lit", st.tag)]
        if re.fullmatch(r"ostr\.str\s*\(\s*\)", op):
            if st.ostr is None:
                raise SkError("ostr.str() without a secondary stream")
            return list(st.ostr)
        if op in getattr(self, "holes", {}):
            op = self.holes[op]
        if re.search(r"\btag\b|\bostr\b|\blastTag\b", op):
            raise SkError(f"operand `{op}` refers to the visitor's state in an unsupported way")
        return [("hole", op, bool(re.search(r"\bstr2xml\s*\(", op)))]


# ------------------------------------------------------------------ tokeniser over the piece tree

def kind_of(ctx, name, where):
    if ctx == "elem":
        k = ("text" if name in S.TEXT_TAGS else "numeric" if name in S.NUMERIC_TAGS or name in ("X", "Y", "Z") else
             "const" if name in S.CONST_TAGS else None)
    else:
        k = ("text" if name in S.TEXT_ATTRS else "numeric" if name in S.NUMERIC_ATTRS else
             "const" if name in S.CONST_ATTRS else None)
    if k is None:
        raise SkError(f"unclassified {ctx} operand in <{name}> ({where})")
    return k


class Lexer:
    """character-level state machine over literals, with operand holes and control nodes"""

    def __init__(self, mode="content", where=""):
        self.mode, self.where = mode, where
        self.buf = ""            # character data / name being read
        self.name = ""
        self.attrs = []          # of the start tag being read
        self.aname = ""
        self.aparts = []
        self.last_open = None    # name of the start tag just emitted (no token since)
        self.out = []

    def flush_chars(self):
        if self.buf:
            self.out.append(("chars", self.buf))
            self.buf = ""
            self.last_open_keep = False

    def emit(self, tok):
        self.out.append(tok)
        self.last_open = tok[1] if tok[0] == "stag" and not tok[3] else None

    def feed(self, nodes):
        for nd in nodes:
            k = nd[0]
            if k == "lit":
                for ch in nd[1]:
                    self.char(ch)
            elif k == "hole":
                self.hole(nd)
            elif k == "call":
                self.need_content("call")
                self.flush_chars()
                self.emit(("call", nd[1]))
            elif k in ("opt", "alt", "star"):
                self.control(nd)
            else:
                raise SkError(f"node {k}")
        return self

    def need_content(self, what):
        if self.mode != "content":
            raise SkError(f"{what} inside markup ({self.mode}) in {self.where}")

    def sub(self, nodes):
        lx = Lexer("content", self.where)
        lx.last_open = None
        lx.feed(nodes)
        if lx.mode != "content":
            raise SkError(f"a branch / loop body ends inside markup in {self.where}")
        lx.flush_chars()
        return lx.out

    def control(self, nd):
        k = nd[0]
        if self.mode == "content":
            self.flush_chars()
            if k == "opt":
                self.emit(("opt", self.sub(nd[1])))
            elif k == "star":
                self.emit(("star", self.sub(nd[1])))
            else:
                self.emit(("alt", [self.sub(b) for b in nd[1]]))
            return
        if self.mode == "stagname" and k == "opt" and nd[1] and nd[1][0][0] == "lit" and nd[1][0][1][:1].isspace():
            self.mode, self.attrs = "tag", []       # the name is complete: the optional part starts with white space
        if self.mode == "tag" and k == "opt":
            lx = Lexer("tag", self.where)
            lx.feed(nd[1])
            if lx.mode != "tag" or lx.out or not lx.attrs:
                raise SkError(f"an `if` inside a start tag must write whole attributes ({self.where})")
            self.attrs += [(n, v, True) for n, v, _ in lx.attrs]
            return
        if self.mode == "attrval" and k == "alt":
            for b in nd[1]:
                if any(x[0] != "lit" for x in b):
                    raise SkError(f"alternative inside an attribute value is not literal ({self.where})")
            self.aparts.append(("op", "const", False))
            return
        raise SkError(f"control structure {k} inside markup ({self.mode}) in {self.where}")

    def hole(self, nd):
        _, expr, esc = nd
        if self.mode == "content":
            if self.buf.strip() or self.last_open is None:
                raise SkError(f"operand `{expr}` is not directly inside a leaf element ({self.where})")
            if self.buf:
                raise SkError(f"operand `{expr}` after white space inside <{self.last_open}> ({self.where})")
            tag = self.last_open
            self.out.append(("text", tag, kind_of("elem", tag, self.where), esc, expr))
        elif self.mode == "attrval":
            self.aparts.append(("op", kind_of("attr", self.aname, self.where), esc))
        else:
            raise SkError(f"operand `{expr}` inside markup ({self.mode}) in {self.where}")

    def char(self, ch):
        m = self.mode
        if m == "content":
            if ch == "<":
                self.flush_chars_keep()
                self.mode = "lt"
            else:
                self.buf += ch
        elif m == "lt":
            if ch == "/":
                self.mode, self.name = "etag", ""
            elif ch == "!":
                self.mode, self.name = "bang", "!"
            elif ch == "?":
                self.mode, self.name = "pi", ""
            else:
                self.mode, self.name = "stagname", ch
        elif m == "stagname":
            if ch.isspace():
                self.mode, self.attrs = "tag", []
            elif ch == ">":
                self.emit(("stag", self.name, [], False))
                self.mode = "content"
            elif ch == "/":
                self.attrs, self.mode = [], "slash"
            else:
                self.name += ch
        elif m == "tag":
            if ch.isspace():
                pass
            elif ch == ">":
                self.emit(("stag", self.name, self.attrs, False))
                self.mode = "content"
            elif ch == "/":
                self.mode = "slash"
            else:
                self.mode, self.aname = "attrname", ch
        elif m == "slash":
            if ch != ">":
                raise SkError("`/` not followed by `>` in a tag")
            self.emit(("stag", self.name, self.attrs, True))
            self.mode = "content"
        elif m == "attrname":
            if ch == "=":
                self.mode = "eq"
            else:
                self.aname += ch
        elif m == "eq":
            if ch != '"':
                raise SkError("attribute value not double-quoted")
            self.mode, self.aparts, self.buf = "attrval", [], ""
        elif m == "attrval":
            if ch == '"':
                if self.buf:
                    self.aparts.append(("lit", self.buf))
                    self.buf = ""
                if len(self.aparts) > 1:
                    raise SkError(f"attribute {self.aname}: value mixes literals and operands")
                v = self.aparts[0] if self.aparts else ("lit", "")
                self.attrs.append((self.aname, v, False))
                self.mode = "tag"
            else:
                self.buf += ch
        elif m == "etag":
            if ch == ">":
                self.emit(("etag", self.name))
                self.mode = "content"
            else:
                self.name += ch
        elif m == "bang":
            self.name += ch
            if self.name == "!--":
                self.mode, self.name = "comment", ""
            elif not "!--".startswith(self.name):
                raise SkError("`<!` that is not a comment")
        elif m == "comment":
            self.name += ch
            if self.name.endswith("-->"):
                self.emit(("comment", self.name[:-3]))
                self.mode = "content"
        elif m == "pi":
            self.name += ch
            if self.name.endswith("?>"):
                if self.name != 'xml version="1.0"?>':
                    raise SkError(f"processing instruction `<?{self.name}` is not the XML declaration")
                self.emit(("decl",))
                self.mode = "content"
        else:
            raise SkError(f"lexer mode {m}")

    def flush_chars_keep(self):
        if self.buf:
            self.out.append(("chars", self.buf))
            self.buf = ""
            self.last_open = None


def tokenise(nodes, where):
    lx = Lexer("content", where).feed(nodes)
    if lx.mode != "content":
        raise SkError(f"{where} ends inside markup")
    lx.flush_chars()
    return lx.out


# ------------------------------------------------------------------ Lean rendering

def lstr(s):
    out = ['"']
    for ch in s:
        if ch == "\\":
            out.append("\\\\")
        elif ch == '"':
            out.append('\\"')
        elif ch == "\n":
            out.append("\\n")
        elif ch == "\t":
            out.append("\\t")
        elif ch == "\r":
            out.append("\\r")
        elif ord(ch) < 32 or ord(ch) > 126:
            raise SkError("non-printable character in a literal")
        else:
            out.append(ch)
    out.append('"')
    return "".join(out)


def rbool(b):
    return "true" if b else "false"


def rval(v):
    if v[0] == "lit":
        return f"(.lit {lstr(v[1])})"
    return f"(.op .{v[1]} {rbool(v[2])})"


def prune(items):
    out = []
    for it in items:
        if it[0] in ("opt", "star"):
            b = prune(it[1])
            if b:
                out.append((it[0], b))
        elif it[0] == "alt":
            bs = [prune(b) for b in it[1]]
            uniq = []
            for b in bs:
                if b not in uniq:
                    uniq.append(b)
            if uniq == [[]]:
                continue
            if len(uniq) == 1:
                out += uniq[0]
            elif [] in uniq and len(uniq) == 2:
                out.append(("opt", [b for b in uniq if b][0]))
            else:
                out.append(("alt", uniq))
        else:
            out.append(it)
    return out


def render_items(items, ind):
    pad = " " * ind
    rows = []
    for it in items:
        k = it[0]
        if k == "decl":
            rows.append(pad + ".tok .decl")
        elif k == "stag":
            attrs = ", ".join(f"⟨{lstr(n)}, {rval(v)}, {rbool(o)}⟩" for n, v, o in it[2])
            rows.append(pad + f".tok (.stag {lstr(it[1])} [{attrs}] {rbool(it[3])})")
        elif k == "etag":
            rows.append(pad + f".tok (.etag {lstr(it[1])})")
        elif k == "comment":
            rows.append(pad + f".tok (.comment {lstr(it[1])})")
        elif k == "chars":
            rows.append(pad + f".tok (.chars {lstr(it[1])})")
        elif k == "text":
            rows.append(pad + f"-- operand: {' '.join(it[4].split())[:90]}\n" + pad + f".tok (.text {lstr(it[1])} .{it[2]} {rbool(it[3])})")
        elif k == "call":
            rows.append(pad + f"sk_{it[1]}")
        elif k == "opt":
            rows.append(pad + "Sk.opt (Sk.seqs [\n" + render_items(it[1], ind + 2) + "])")
        elif k == "star":
            rows.append(pad + ".star (Sk.seqs [\n" + render_items(it[1], ind + 2) + "])")
        elif k == "alt":
            brs = [" " * (ind + 2) + "Sk.seqs [\n" + render_items(b, ind + 4) + "]" for b in it[1]]
            rows.append(pad + "Sk.alts [\n" + ",\n".join(brs) + "]")
        else:
            raise SkError(f"render {k}")
    return ",\n".join(rows)


def count_tokens(items):
    n = 0
    for it in items:
        if it[0] in ("opt", "star"):
            n += count_tokens(it[1])
        elif it[0] == "alt":
            n += sum(count_tokens(b) for b in it[1])
        else:
            n += 1
    return n


def generate(repo):
    text = S.strip_cpp_comments((Path(repo) / "lib/gnu_gama/xml/localnetworkxml.cpp").read_text())
    ex = Exec(text)
    defs, order = {}, []

    def build(fn):
        if fn in defs:
            return
        defs[fn] = None
        nodes = ex.run(ex.fn[fn], State())
        items = prune(tokenise(nodes, fn))
        for c in calls(items):
            build(c)
        defs[fn] = items
        order.append(fn)

    def calls(items):
        for it in items:
            if it[0] == "call":
                yield it[1]
            elif it[0] in ("opt", "star"):
                yield from calls(it[1])
            elif it[0] == "alt":
                for b in it[1]:
                    yield from calls(b)

    build("write")
    missing = [f for f in WRITER_FUNCS if f not in defs]
    if missing:
        raise SkError(f"writer functions never called from write(): {missing}")
    for need in TEMPLATES + VISITOR_HELPERS:
        if need not in ex.inlined:
            raise SkError(f"{need} is never used")
    L = ["/-",
         "  GENERATED by tools/gen/c12_skeleton.py from lib/gnu_gama/xml/localnetworkxml.cpp — do not edit.",
         "  The element skeleton of LocalNetworkXML::write: one definition per writer function, `writeSk` = the document.",
         f"  visit methods: {', '.join(v for v, _ in ex.visits)}",
         "-/",
         "import Gama.Model.XmlDoc",
         "namespace Gama.Gen.XmlSkeleton",
         "open Gama.XmlDoc Gama.Gen.XmlSites",
         ""]
    total = 0
    for fn in order:
        total += count_tokens(defs[fn])
        L.append(f"/-- `LocalNetworkXML::{fn}` -/")
        L.append(f"def sk_{fn} : Sk := Sk.seqs [")
        L.append(render_items(defs[fn], 2) + "]")
        L.append("")
    L.append("def writeSk : Sk := sk_write")
    L.append("")
    L.append("end Gama.Gen.XmlSkeleton")
    return "\n".join(L) + "\n", {"functions": order, "tokens": total, "visits": [v for v, _ in ex.visits]}


if __name__ == "__main__":
    repo = sys.argv[1] if len(sys.argv) > 1 else "/repo"
    txt, info = generate(repo)
    if len(sys.argv) > 2:
        Path(sys.argv[2]).write_text(txt)
    else:
        sys.stdout.write(txt)
    print(info, file=sys.stderr)
