#!/usr/bin/env python3
"""
Translator for C12 (document skeleton):  lib/gnu_gama/xml/localnetworkxml.cpp  ->  lean/Gama/Gen/XmlSkeleton.lean

The functions of LocalNetworkXML (`write`, `coordinates_summary`, `observations_summary`, `equations_summary`,
`std_dev_summary`, `coordinates`, `std_error_ellipses`, `orientation_shifts`, `observations`, the templates
`tagsp` / `tagnl`) and of WriteXMLVisitor (`visit(T*)`, `tag_id`, `tag_from_to`) are executed SYMBOLICALLY on their two
output streams:

  * statements are parsed into blocks / if / else / for / while / switch / simple statements; a simple statement either
    streams to `out` / `*ostr`, calls one of the functions above (inlined), declares or assigns a `const char*`
    variable holding a literal (`cx = "X"`), sets up the secondary stream, or is irrelevant to the output; a statement
    that mentions `out <<`, `*ostr <<` or passes `out` to a call and is not recognised STOPS the translator;
  * streamed operands are literals (kept), variables holding a literal (`t`, `cx`, the visitor's `tag`), the secondary
    stream's contents (`ostr.str()`, spliced where it is flushed), or anything else = an operand hole;
  * `for` / `while` -> star, `if` -> opt, `if/else` / `switch` -> alt; an `if` that only assigns literal variables and
    `accept(&writeVisitor)` fork the rest of the enclosing block (one alternative per value / per visit method), so that
    `"</" << lastTag() << ">"` is the tag the same path opened;
  * the resulting piece tree is tokenised (start tag with attributes, end tag, comment, declaration, character data,
    operand); a start tag may be completed across an `if` that writes one attribute (-> optional attribute) and an
    attribute value across a `switch` of literals (-> constant operand).  Operands are classified by the name of the
    enclosing element / attribute with the tables of c12_sites.py (unknown name = stop).
"""
import re
import sys
from pathlib import Path

sys.path.insert(0, str(Path(__file__).resolve().parent))
import c12_sites as S  # noqa: E402


class SkError(S.SitesError):
    pass


WRITER_FUNCS = ["write", "coordinates_summary", "observations_summary", "equations_summary", "std_dev_summary",
                "coordinates", "std_error_ellipses", "orientation_shifts", "observations"]
TEMPLATES = ["tagnl", "tagsp"]
VISITOR_HELPERS = ["tag_id", "tag_from_to"]


# ------------------------------------------------------------------ C++ subset parser

def match_close(t, i, op, cl):
    """t[i] == op; index of the matching close, skipping string / char literals"""
    depth, n = 0, len(t)
    while i < n:
        c = t[i]
        if c == '"' or c == "'":
            q = c
            i += 1
            while i < n and t[i] != q:
                if t[i] == "\\":
                    i += 1
                i += 1
        elif c == op:
            depth += 1
        elif c == cl:
            depth -= 1
            if depth == 0:
                return i
        i += 1
    raise SkError(f"unbalanced {op}{cl}")


def function_body(text, pattern):
    m = re.search(pattern, text)
    if not m:
        raise SkError(f"function not found: {pattern}")
    i = text.index("{", m.end() - 1)
    j = match_close(text, i, "{", "}")
    return text[i + 1:j]


class Parser:
    def __init__(self, text):
        self.t, self.i = text, 0

    def ws(self):
        while self.i < len(self.t) and self.t[self.i].isspace():
            self.i += 1

    def at_end(self):
        self.ws()
        return self.i >= len(self.t)

    def kw(self, w):
        self.ws()
        if self.t.startswith(w, self.i) and not (self.i + len(w) < len(self.t) and (self.t[self.i + len(w)].isalnum() or self.t[self.i + len(w)] == "_")):
            return True
        return False

    def parens(self):
        self.ws()
        if self.t[self.i] != "(":
            raise SkError("expected (")
        j = match_close(self.t, self.i, "(", ")")
        s = self.t[self.i + 1:j]
        self.i = j + 1
        return s

    def stmts(self):
        out = []
        while not self.at_end():
            out.append(self.stmt())
        return out

    def stmt(self):
        self.ws()
        t = self.t
        if t[self.i] == "{":
            j = match_close(t, self.i, "{", "}")
            inner = Parser(t[self.i + 1:j]).stmts()
            self.i = j + 1
            return ("block", inner)
        if t[self.i] == ";":
            self.i += 1
            return ("simple", "")
        if self.kw("if"):
            self.i += 2
            cond = self.parens()
            a = self.stmt()
            b = None
            if self.kw("else"):
                self.i += 4
                b = self.stmt()
            return ("if", cond, a, b)
        for w in ("for", "while"):
            if self.kw(w):
                self.i += len(w)
                self.parens()
                return ("loop", self.stmt())
        if self.kw("switch"):
            self.i += 6
            self.parens()
            self.ws()
            j = match_close(t, self.i, "{", "}")
            body = t[self.i + 1:j]
            self.i = j + 1
            return ("switch", self.switch_cases(body))
        for w in ("class", "struct"):
            if self.kw(w):
                j = t.index("{", self.i)
                k = match_close(t, j, "{", "}")
                self.i = t.index(";", k) + 1
                return ("class", t[j:k])
        for w in ("do", "try", "goto", "return"):
            if self.kw(w):
                raise SkError(f"statement `{w}` not supported in a writer function")
        # simple statement up to the top-level ';'
        i, n = self.i, len(t)
        depth = 0
        while i < n:
            c = t[i]
            if c in "\"'":
                q = c
                i += 1
                while i < n and t[i] != q:
                    if t[i] == "\\":
                        i += 1
                    i += 1
            elif c in "([{":
                depth += 1
            elif c in ")]}":
                depth -= 1
            elif c == ";" and depth == 0:
                break
            i += 1
        s = squeeze(t[self.i:i])
        self.i = i + 1
        return ("simple", s)

    @staticmethod
    def switch_cases(body):
        # split at `case X:` / `default:` labels (top level), each case runs to its `break;`
        labels = [m for m in re.finditer(r"\b(case\b[^:;]*?[^:]:(?!:)|default\s*:)", body)]
        if not labels:
            raise SkError("switch without case labels")
        cases = []
        for k, m in enumerate(labels):
            seg = body[m.end(): labels[k + 1].start() if k + 1 < len(labels) else len(body)]
            st = Parser(seg).stmts()
            if not st or st[-1] != ("simple", "break"):
                raise SkError("switch case without trailing break (fall-through not supported)")
            cases.append(st[:-1])
        return cases


def squeeze(s):
    """collapse white space outside string / char literals"""
    out, i, n = [], 0, len(s)
    while i < n:
        c = s[i]
        if c in "\"'":
            j = i + 1
            while j < n and s[j] != c:
                if s[j] == "\\":
                    j += 1
                j += 1
            out.append(s[i:j + 1])
            i = j + 1
        elif c.isspace():
            if out and out[-1] != " ":
                out.append(" ")
            i += 1
        else:
            out.append(c)
            i += 1
    return "".join(out).strip()


def split_top(s, sep):
    """split at top-level occurrences of `sep` (outside parens / literals)"""
    parts, depth, i, cur, n = [], 0, 0, 0, len(s)
    while i < n:
        c = s[i]
        if c in "\"'":
            q = c
            i += 1
            while i < n and s[i] != q:
                if s[i] == "\\":
                    i += 1
                i += 1
        elif c in "([{":
            depth += 1
        elif c in ")]}":
            depth -= 1
        elif depth == 0 and s.startswith(sep, i):
            parts.append(s[cur:i])
            i += len(sep)
            cur = i
            continue
        i += 1
    parts.append(s[cur:])
    return [p.strip() for p in parts]


C_ESC = {"n": "\n", "t": "\t", '"': '"', "\\": "\\", "'": "'", "r": "\r", "0": "\0"}


def c_unescape(s):
    out, i = [], 0
    while i < len(s):
        if s[i] == "\\" and i + 1 < len(s):
            if s[i + 1] not in C_ESC:
                raise SkError(f"escape \\{s[i + 1]} in literal not supported")
            out.append(C_ESC[s[i + 1]])
            i += 2
        else:
            out.append(s[i])
            i += 1
    return "".join(out)


STRLIT = r'"((?:[^"\\]|\\.)*)"'


# ------------------------------------------------------------------ symbolic execution

UNKNOWN_FMT = ("?", "?")


def fresh_fmt():
    """`out` : whatever the caller of write() left (unknown); `sec` : the visitor's secondary `ostringstream`"""
    return {"out": UNKNOWN_FMT, "sec": UNKNOWN_FMT}


def join_fmt(a, b):
    """the format in force after two paths meet: a component survives only if both paths agree on it"""
    return {k: tuple(x if x == y else "?" for x, y in zip(a[k], b[k])) for k in a}


class State:
    def __init__(self, env=None, ostr=None, secondary=False, tag=None, fmt=None, ints=None, saved=None):
        self.env = dict(env or {})
        self.ostr = list(ostr) if ostr is not None else None   # secondary stream buffer (None = not declared)
        self.secondary = secondary                             # visitor's *ostr points to the secondary stream
        self.tag = tag
        # round 8: the floatfield / precision in force on the two streams, as the manipulator statements leave them
        self.fmt = dict(fmt) if fmt is not None else fresh_fmt()
        self.ints = dict(ints or {})                           # `const int linear = make_check_precision(6)` …
        self.saved = dict(saved or {})                         # `ios_base::fmtflags f(out.flags())`

    def copy(self):
        return State(self.env, self.ostr, self.secondary, self.tag, self.fmt, self.ints, self.saved)


class Exec:
    def __init__(self, text):
        self.text = text
        self.fn = {}
        for f in WRITER_FUNCS:
            self.fn[f] = Parser(function_body(text, r"void\s+LocalNetworkXML::" + f + r"\s*\([^)]*\)\s*const\s*\{")).stmts()
        for f in TEMPLATES:
            self.fn[f] = Parser(function_body(text, r"void\s+LocalNetworkXML::" + f + r"\s*\([^)]*\)\s*const\s*\{")).stmts()
        for f in VISITOR_HELPERS:
            self.fn[f] = Parser(function_body(text, r"void\s+" + f + r"\s*\([^)]*\)\s*\{")).stmts()
        self.visits = []
        for m in re.finditer(r"void\s+visit\s*\(\s*(\w+)\s*\*\s*obs\s*\)\s*\{", text):
            # only the visitor that writes (class WriteXMLVisitor comes first; the counter's visits have no `obs` name)
            i = text.index("{", m.end() - 1)
            j = match_close(text, i, "{", "}")
            self.visits.append((m.group(1), Parser(text[i + 1:j]).stmts()))
        if len(self.visits) < 2:
            raise SkError("WriteXMLVisitor::visit methods not found")
        if not re.search(r"std::string\s+lastTag\s*\(\s*\)\s*const\s*\{\s*return\s+tag\s*;\s*\}", text):
            raise SkError("WriteXMLVisitor::lastTag() is not `return tag;`")
        self.inlined = set()
        self.entry_fmt = {}       # writer function -> format state at its call site (joined over the call sites)
        self.int_fns = {}         # `int make_check_precision(int) { return 16; }`
        for m in re.finditer(r"\bint\s+(\w+)\s*\(\s*int\s*\w*\s*\)\s*\{\s*return\s+(\d+)\s*;\s*\}", text):
            self.int_fns[m.group(1)] = int(m.group(2))
        # the visitor's `linear` / `angular` are its 2nd and 3rd constructor arguments
        self.visitor_prec_ok = bool(re.search(
            r"WriteXMLVisitor\s*\(\s*std::ostream\s*&\s*outStream\s*,\s*int\s+(\w+)\s*,\s*int\s+(\w+)\s*,[^)]*\)"
            r"\s*:[^{]*\blinear\s*\(\s*\1\s*\)\s*,\s*angular\s*\(\s*\2\s*\)", text))

    def eval_int(self, e, st):
        e = e.strip()
        if re.fullmatch(r"\d+", e):
            return int(e)
        if e in st.ints:
            return st.ints[e]
        m = re.fullmatch(r"(\w+)\s*\(\s*\d+\s*\)", e)
        if m and m.group(1) in self.int_fns:
            return self.int_fns[m.group(1)]
        raise SkError(f"precision expression `{e}` is not a literal, a known constant or a constant function")

    @staticmethod
    def target(stream, st):
        """which stream an output statement of the visitor reaches"""
        return "out" if stream == "out" or not st.secondary else "sec"

    def set_ff(self, st, tgt, ff):
        st.fmt[tgt] = (ff, st.fmt[tgt][1])

    def set_prec(self, st, tgt, p):
        st.fmt[tgt] = (st.fmt[tgt][0], p)

    def manipulator(self, op, st, tgt):
        """`<< setprecision(n)`, `<< fixed` … inside an output statement; True if `op` was one"""
        op = op.strip()
        m = re.fullmatch(r"(?:std::)?setprecision\s*\((.*)\)", op)
        if m:
            self.set_prec(st, tgt, self.eval_int(m.group(1), st))
            return True
        m = re.fullmatch(r"(?:std::)?(fixed|scientific|defaultfloat)", op)
        if m:
            self.set_ff(st, tgt, {"fixed": "fixed", "scientific": "sci", "defaultfloat": "gen"}[m.group(1)])
            return True
        if re.search(r"\b(setprecision|setw|setfill|hexfloat|showpoint|showpos|uppercase|setiosflags|resetiosflags)\b", op):
            raise SkError(f"unrecognised stream manipulator `{op[:80]}`")
        return False

    # ---- statements
    def run(self, stmts, st):
        """nodes streamed to `out` by the statement list; forks distribute the rest of the list"""
        nodes = []
        for k, s in enumerate(stmts):
            kind = s[0]
            if kind == "block":
                nodes += self.run(s[1], st.copy() if False else st)
            elif kind == "loop":
                # the format at the head of the body = entry joined with what an iteration leaves (fixed point)
                ent = st.copy()
                for _ in range(6):
                    bst = self.loop_state(ent)
                    body = self.run([s[1]], bst)
                    new = join_fmt(ent.fmt, bst.fmt)
                    if new == ent.fmt:
                        break
                    ent.fmt = new
                else:
                    raise SkError("format state of a loop does not stabilise")
                st.fmt = dict(ent.fmt)
                nodes.append(("star", body))
            elif kind == "class":
                if "<<" in s[1] or re.search(r"\bout\b", s[1]):
                    raise SkError("a local class of a writer function streams output")
            elif kind == "switch":
                brs, f = [], dict(st.fmt)
                for c in s[1]:
                    stc = st.copy()
                    brs.append(self.run(c, stc))
                    f = join_fmt(f, stc.fmt)
                st.fmt = f
                nodes.append(("alt", brs + [[]]))   # + no case taken (`default: break`)
            elif kind == "if":
                _, cond, a, b = s
                if a == ("simple", "continue") and b is None:
                    # the iteration ends here or goes on
                    pre = dict(st.fmt)
                    rest = self.run(stmts[k + 1:], st)
                    st.fmt = join_fmt(pre, st.fmt)
                    return nodes + [("alt", [[], rest])]
                if self.assign_only(a, st) and (b is None or self.assign_only(b, st)):
                    alts, f = [], None
                    for br in (a, b):
                        st2 = st.copy()
                        if br is not None:
                            self.run([br], st2)
                        alts.append(self.run(stmts[k + 1:], st2))
                        f = dict(st2.fmt) if f is None else join_fmt(f, st2.fmt)
                    st.fmt = f
                    return nodes + [("alt", alts)]
                sa = st.copy()
                na = self.run([a], sa)
                if b is None:
                    st.fmt = join_fmt(st.fmt, sa.fmt)
                    nodes.append(("opt", na))
                else:
                    sb = st.copy()
                    nb = self.run([b], sb)
                    st.fmt = join_fmt(sa.fmt, sb.fmt)
                    nodes.append(("alt", [na, nb]))
            else:
                r = self.simple(s[1], st)
                if isinstance(r, tuple) and r[0] == "fork":
                    alts, f = [], None
                    for st2, pre in r[1]:
                        alts.append(pre + self.run(stmts[k + 1:], st2))
                        f = dict(st2.fmt) if f is None else join_fmt(f, st2.fmt)
                    st.fmt = f
                    return nodes + [("alt", alts)]
                nodes += r
        return nodes

    @staticmethod
    def loop_state(st):
        return st.copy()

    def assign_only(self, s, st):
        if s[0] == "block":
            return bool(s[1]) and all(self.assign_only(x, st) for x in s[1])
        if s[0] == "simple":
            m = re.fullmatch(r"(\w+)\s*=\s*" + STRLIT, s[1])
            return bool(m) and m.group(1) in st.env
        return False

    def emit(self, stream, nodes, st, out):
        if stream == "out":
            out += nodes
        else:   # *ostr
            if st.secondary:
                if st.ostr is None:
                    raise SkError("secondary stream used before its declaration")
                st.ostr += nodes
            else:
                out += nodes

    def simple(self, s, st):
        if not s or s.startswith("using ") or s == "break":
            return []
        if s == "continue":
            raise SkError("`continue` outside `if (…) continue;` at the top level of a loop body")
        m = re.fullmatch(r"(?:const\s+)?char\s*\*\s*(\w+)\s*=\s*" + STRLIT, s)
        if m:
            st.env[m.group(1)] = c_unescape(m.group(2))
            return []
        m = re.fullmatch(r"(\w+)\s*=\s*" + STRLIT, s)
        if m and m.group(1) in st.env:
            st.env[m.group(1)] = c_unescape(m.group(2))
            return []
        m = re.match(r"(out|\*\s*ostr)\s*<<", s)
        if m:
            stream = "out" if m.group(1) == "out" else "ostr"
            tgt = self.target(stream, st)
            out = []
            for op in split_top(s, "<<")[1:]:
                if self.manipulator(op, st, tgt):
                    continue
                nds = [nd + (st.fmt[tgt],) if nd[0] == "hole" else nd for nd in self.operand(op, st)]
                self.emit(stream, nds, st, out)
            return out
        m = re.fullmatch(r"(tagsp|tagnl)\s*\(\s*out\s*,(.*)\)", s)
        if m:
            args = split_top(m.group(2), ",")
            if len(args) != 2:
                raise SkError(f"{m.group(1)}: two arguments expected in `{s}`")
            t = self.operand(args[0], st)
            if len(t) != 1 or t[0][0] != "lit":
                raise SkError(f"{m.group(1)}: tag argument `{args[0]}` is not a literal")
            st2 = State({"t": t[0][1]}, fmt=st.fmt, ints=st.ints)
            st2.holes = {"n": args[1]}
            self.holes = {"n": args[1]}
            r = self.run(self.fn[m.group(1)], st2)
            self.holes = {}
            self.inlined.add(m.group(1))
            return r
        m = re.fullmatch(r"(\w+)\s*\(\s*out(?:\s*,[^()]*)?\)", s)
        if m and m.group(1) in WRITER_FUNCS:
            fn = m.group(1)
            self.inlined.add(fn)
            # the callee starts with the caller's format state and leaves its own behind (run here for that effect only;
            # its skeleton is built separately from the recorded entry state)
            self.entry_fmt[fn] = dict(st.fmt) if fn not in self.entry_fmt else join_fmt(self.entry_fmt[fn], st.fmt)
            st2 = State(fmt=st.fmt)
            self.run(self.fn[fn], st2)
            st.fmt = dict(st2.fmt)
            return [("call", fn)]
        m = re.fullmatch(r"(tag_id|tag_from_to)\s*\(\s*obs\s*\)", s)
        if m:
            self.inlined.add(m.group(1))
            return self.run(self.fn[m.group(1)], st)
        if re.fullmatch(r"(?:std::)?ostringstream\s+ostr", s):
            st.ostr = []
            st.fmt["sec"] = ("gen", 6)          # a new stream: default floatfield, precision 6
            return []
        # ---- round 8: the statements that change the format in force
        m = re.fullmatch(r"(out|ostr)\s*\.\s*setf\s*\(\s*(?:std::)?ios_base::(fixed|scientific)\s*,\s*(?:std::)?ios_base::floatfield\s*\)", s)
        if m:
            self.set_ff(st, "out" if m.group(1) == "out" else "sec", "fixed" if m.group(2) == "fixed" else "sci")
            return []
        m = re.fullmatch(r"(out|ostr)\s*\.\s*precision\s*\((.+)\)", s)
        if m:
            self.set_prec(st, "out" if m.group(1) == "out" else "sec", self.eval_int(m.group(2), st))
            return []
        m = re.fullmatch(r"ostr\s*->\s*precision\s*\((.+)\)", s)
        if m:
            self.set_prec(st, self.target("ostr", st), self.eval_int(m.group(1), st))
            return []
        m = re.fullmatch(r"(?:const\s+)?int\s+(\w+)\s*=\s*(.+)", s)
        if m:
            try:
                st.ints[m.group(1)] = self.eval_int(m.group(2), st)
            except SkError:
                st.ints.pop(m.group(1), None)
            return []
        m = re.fullmatch(r"(?:std::)?ios_base::fmtflags\s+(\w+)\s*\(\s*out\s*\.\s*flags\s*\(\s*\)\s*\)", s)
        if m:
            st.saved[m.group(1)] = st.fmt["out"][0]
            return []
        m = re.fullmatch(r"out\s*\.\s*flags\s*\(\s*(\w+)\s*\)", s)
        if m:
            if m.group(1) not in st.saved:
                raise SkError(f"`{s}` restores flags that were not saved in this function")
            self.set_ff(st, "out", st.saved[m.group(1)])       # precision is not part of the flags
            return []
        if re.fullmatch(r"out\s*\.\s*width\s*\(\s*\d+\s*\)", s):
            return []                                          # pads the next item (a literal); no digit is affected
        mv = re.fullmatch(r"WriteXMLVisitor\s+writeVisitor\s*\(\s*out\s*,([^()]*)\)", s)
        if mv:
            # constructor: out(outStream), ostr(&outStream) — checked on the class text
            if not re.search(r":\s*out\s*\(\s*outStream\s*\)\s*,\s*ostr\s*\(\s*&\s*outStream\s*\)", self.text):
                raise SkError("WriteXMLVisitor constructor does not bind out / ostr to its stream argument")
            if not self.visitor_prec_ok:
                raise SkError("WriteXMLVisitor constructor does not take (stream, linear, angular, …) / bind linear, angular")
            args = split_top(mv.group(1), ",")
            st.ints["linear"], st.ints["angular"] = self.eval_int(args[0], st), self.eval_int(args[1], st)
            return []
        if re.fullmatch(r"writeVisitor\.setSecondaryOutStream\s*\(\s*ostr\s*\)", s):
            st.secondary = True
            return []
        if re.fullmatch(r"pm\s*->\s*accept\s*\(\s*&\s*writeVisitor\s*\)", s):
            forks = []
            for _, body in self.visits:
                st2 = st.copy()
                st2.tag = None
                pre = self.run(body, st2)
                if st2.tag is None:
                    raise SkError("a visit method does not set `tag`")
                forks.append((st2, pre))
            return ("fork", forks)
        if re.search(r"\b(precision|setf|unsetf|flags|setprecision|copyfmt|imbue)\s*\(", s) and re.search(r"\b(out|ostr)\b", s):
            raise SkError(f"unrecognised statement that changes the stream format: `{s[:120]}`")
        # anything else must not touch the output
        if re.search(r"(^|[^\w.])(out|\*\s*ostr)\s*<<", s) or re.search(r"\(\s*out\s*[,)]", s) or re.search(r"\bostr\b\s*(<<|\.str)", s):
            raise SkError(f"unrecognised statement that writes: `{s[:120]}`")
        if re.search(r"\baccept\s*\(", s) and not re.search(r"accept\s*\(\s*&\s*counter\s*\)", s):
            raise SkError(f"unrecognised visitor call: `{s[:120]}`")
        return []

    def operand(self, op, st):
        op = op.strip()
        m = re.fullmatch(r"(?:" + STRLIT + r"\s*)+", op)
        if m:
            return [("lit", "".join(c_unescape(x) for x in re.findall(STRLIT, op)))]
        if re.fullmatch(r"'(?:[^'\\]|\\.)'", op):
            return [("lit", c_unescape(op[1:-1]))]
        if op in ("endl", "std::endl"):
            return [("lit", "\n")]
        if op in st.env:
            return [("lit", st.env[op])]
        m = re.fullmatch(r"\(\s*tag\s*=\s*" + STRLIT + r"\s*\)", op)
        if m:
            st.tag = c_unescape(m.group(1))
            return [("lit", st.tag)]
        if re.fullmatch(r"writeVisitor\.lastTag\s*\(\s*\)", op):
            if st.tag is None:
                raise SkError("lastTag() before any visit")
            return [("lit", st.tag)]
        if re.fullmatch(r"ostr\.str\s*\(\s*\)", op):
            if st.ostr is None:
                raise SkError("ostr.str() without a secondary stream")
            return list(st.ostr)
        if op in getattr(self, "holes", {}):
            op = self.holes[op]
        if re.search(r"\btag\b|\bostr\b|\blastTag\b", op):
            raise SkError(f"operand `{op}` refers to the visitor's state in an unsupported way")
        return [("hole", op, bool(re.search(r"\bstr2xml\s*\(", op)))]


# ------------------------------------------------------------------ tokeniser over the piece tree

def kind_of(ctx, name, where):
    if ctx == "elem":
        k = ("text" if name in S.TEXT_TAGS else "numeric" if name in S.NUMERIC_TAGS or name in ("X", "Y", "Z") else
             "const" if name in S.CONST_TAGS else None)
    else:
        k = ("text" if name in S.TEXT_ATTRS else "numeric" if name in S.NUMERIC_ATTRS else
             "const" if name in S.CONST_ATTRS else None)
    if k is None:
        raise SkError(f"unclassified {ctx} operand in <{name}> ({where})")
    return k


class Lexer:
    """character-level state machine over literals, with operand holes and control nodes"""

    def __init__(self, mode="content", where=""):
        self.mode, self.where = mode, where
        self.buf = ""            # character data / name being read
        self.name = ""
        self.attrs = []          # of the start tag being read
        self.aname = ""
        self.aparts = []
        self.last_open = None    # name of the start tag just emitted (no token since)
        self.out = []

    def flush_chars(self):
        if self.buf:
            self.out.append(("chars", self.buf))
            self.buf = ""
            self.last_open_keep = False

    def emit(self, tok):
        self.out.append(tok)
        self.last_open = tok[1] if tok[0] == "stag" and not tok[3] else None

    def feed(self, nodes):
        for nd in nodes:
            k = nd[0]
            if k == "lit":
                for ch in nd[1]:
                    self.char(ch)
            elif k == "hole":
                self.hole(nd)
            elif k == "call":
                self.need_content("call")
                self.flush_chars()
                self.emit(("call", nd[1]))
            elif k in ("opt", "alt", "star"):
                self.control(nd)
            else:
                raise SkError(f"node {k}")
        return self

    def need_content(self, what):
        if self.mode != "content":
            raise SkError(f"{what} inside markup ({self.mode}) in {self.where}")

    def sub(self, nodes):
        lx = Lexer("content", self.where)
        lx.last_open = None
        lx.feed(nodes)
        if lx.mode != "content":
            raise SkError(f"a branch / loop body ends inside markup in {self.where}")
        lx.flush_chars()
        return lx.out

    def control(self, nd):
        k = nd[0]
        if self.mode == "content":
            self.flush_chars()
            if k == "opt":
                self.emit(("opt", self.sub(nd[1])))
            elif k == "star":
                self.emit(("star", self.sub(nd[1])))
            else:
                self.emit(("alt", [self.sub(b) for b in nd[1]]))
            return
        if self.mode == "stagname" and k == "opt" and nd[1] and nd[1][0][0] == "lit" and nd[1][0][1][:1].isspace():
            self.mode, self.attrs = "tag", []       # the name is complete: the optional part starts with white space
        if self.mode == "tag" and k == "opt":
            lx = Lexer("tag", self.where)
            lx.feed(nd[1])
            if lx.mode != "tag" or lx.out or not lx.attrs:
                raise SkError(f"an `if` inside a start tag must write whole attributes ({self.where})")
            self.attrs += [(n, v, True) for n, v, _ in lx.attrs]
            return
        if self.mode == "attrval" and k == "alt":
            for b in nd[1]:
                if any(x[0] != "lit" for x in b):
                    raise SkError(f"alternative inside an attribute value is not literal ({self.where})")
            self.aparts.append(("op", "const", False))
            return
        raise SkError(f"control structure {k} inside markup ({self.mode}) in {self.where}")

    def hole(self, nd):
        _, expr, esc = nd[:3]
        fmt = nd[3] if len(nd) > 3 else UNKNOWN_FMT
        if self.mode == "content":
            if self.buf.strip() or self.last_open is None:
                raise SkError(f"operand `{expr}` is not directly inside a leaf element ({self.where})")
            if self.buf:
                raise SkError(f"operand `{expr}` after white space inside <{self.last_open}> ({self.where})")
            tag = self.last_open
            self.out.append(("text", tag, kind_of("elem", tag, self.where), esc, expr, fmt))
        elif self.mode == "attrval":
            self.aparts.append(("op", kind_of("attr", self.aname, self.where), esc, fmt))
        else:
            raise SkError(f"operand `{expr}` inside markup ({self.mode}) in {self.where}")

    def char(self, ch):
        m = self.mode
        if m == "content":
            if ch == "<":
                self.flush_chars_keep()
                self.mode = "lt"
            else:
                self.buf += ch
        elif m == "lt":
            if ch == "/":
                self.mode, self.name = "etag", ""
            elif ch == "!":
                self.mode, self.name = "bang", "!"
            elif ch == "?":
                self.mode, self.name = "pi", ""
            else:
                self.mode, self.name = "stagname", ch
        elif m == "stagname":
            if ch.isspace():
                self.mode, self.attrs = "tag", []
            elif ch == ">":
                self.emit(("stag", self.name, [], False))
                self.mode = "content"
            elif ch == "/":
                self.attrs, self.mode = [], "slash"
            else:
                self.name += ch
        elif m == "tag":
            if ch.isspace():
                pass
            elif ch == ">":
                self.emit(("stag", self.name, self.attrs, False))
                self.mode = "content"
            elif ch == "/":
                self.mode = "slash"
            else:
                self.mode, self.aname = "attrname", ch
        elif m == "slash":
            if ch != ">":
                raise SkError("`/` not followed by `>` in a tag")
            self.emit(("stag", self.name, self.attrs, True))
            self.mode = "content"
        elif m == "attrname":
            if ch == "=":
                self.mode = "eq"
            else:
                self.aname += ch
        elif m == "eq":
            if ch != '"':
                raise SkError("attribute value not double-quoted")
            self.mode, self.aparts, self.buf = "attrval", [], ""
        elif m == "attrval":
            if ch == '"':
                if self.buf:
                    self.aparts.append(("lit", self.buf))
                    self.buf = ""
                if len(self.aparts) > 1:
                    raise SkError(f"attribute {self.aname}: value mixes literals and operands")
                v = self.aparts[0] if self.aparts else ("lit", "")
                self.attrs.append((self.aname, v, False))
                self.mode = "tag"
            else:
                self.buf += ch
        elif m == "etag":
            if ch == ">":
                self.emit(("etag", self.name))
                self.mode = "content"
            else:
                self.name += ch
        elif m == "bang":
            self.name += ch
            if self.name == "!--":
                self.mode, self.name = "comment", ""
            elif not "!--".startswith(self.name):
                raise SkError("`<!` that is not a comment")
        elif m == "comment":
            self.name += ch
            if self.name.endswith("-->"):
                self.emit(("comment", self.name[:-3]))
                self.mode = "content"
        elif m == "pi":
            self.name += ch
            if self.name.endswith("?>"):
                if self.name != 'xml version="1.0"?>':
                    raise SkError(f"processing instruction `<?{self.name}` is not the XML declaration")
                self.emit(("decl",))
                self.mode = "content"
        else:
            raise SkError(f"lexer mode {m}")

    def flush_chars_keep(self):
        if self.buf:
            self.out.append(("chars", self.buf))
            self.buf = ""
            self.last_open = None


def tokenise(nodes, where):
    lx = Lexer("content", where).feed(nodes)
    if lx.mode != "content":
        raise SkError(f"{where} ends inside markup")
    lx.flush_chars()
    return lx.out


# ------------------------------------------------------------------ Lean rendering

def lstr(s):
    out = ['"']
    for ch in s:
        if ch == "\\":
            out.append("\\\\")
        elif ch == '"':
            out.append('\\"')
        elif ch == "\n":
            out.append("\\n")
        elif ch == "\t":
            out.append("\\t")
        elif ch == "\r":
            out.append("\\r")
        elif ord(ch) < 32 or ord(ch) > 126:
            raise SkError("non-printable character in a literal")
        else:
            out.append(ch)
    out.append('"')
    return "".join(out)


def rbool(b):
    return "true" if b else "false"


def rval(v):
    if v[0] == "lit":
        return f"(.lit {lstr(v[1])})"
    return f"(.op .{v[1]} {rbool(v[2])})"


def prune(items):
    out = []
    for it in items:
        if it[0] in ("opt", "star"):
            b = prune(it[1])
            if b:
                out.append((it[0], b))
        elif it[0] == "alt":
            bs = [prune(b) for b in it[1]]
            uniq = []
            for b in bs:
                if b not in uniq:
                    uniq.append(b)
            if uniq == [[]]:
                continue
            if len(uniq) == 1:
                out += uniq[0]
            elif [] in uniq and len(uniq) == 2:
                out.append(("opt", [b for b in uniq if b][0]))
            else:
                out.append(("alt", uniq))
        else:
            out.append(it)
    return out


def render_items(items, ind):
    pad = " " * ind
    rows = []
    for it in items:
        k = it[0]
        if k == "decl":
            rows.append(pad + ".tok .decl")
        elif k == "stag":
            attrs = ", ".join(f"⟨{lstr(n)}, {rval(v)}, {rbool(o)}⟩" for n, v, o in it[2])
            rows.append(pad + f".tok (.stag {lstr(it[1])} [{attrs}] {rbool(it[3])})")
        elif k == "etag":
            rows.append(pad + f".tok (.etag {lstr(it[1])})")
        elif k == "comment":
            rows.append(pad + f".tok (.comment {lstr(it[1])})")
        elif k == "chars":
            rows.append(pad + f".tok (.chars {lstr(it[1])})")
        elif k == "text":
            rows.append(pad + f"-- operand: {' '.join(it[4].split())[:90]}\n" + pad + f".tok (.text {lstr(it[1])} .{it[2]} {rbool(it[3])})")
        elif k == "call":
            rows.append(pad + f"sk_{it[1]}")
        elif k == "opt":
            rows.append(pad + "Sk.opt (Sk.seqs [\n" + render_items(it[1], ind + 2) + "])")
        elif k == "star":
            rows.append(pad + ".star (Sk.seqs [\n" + render_items(it[1], ind + 2) + "])")
        elif k == "alt":
            brs = [" " * (ind + 2) + "Sk.seqs [\n" + render_items(b, ind + 4) + "]" for b in it[1]]
            rows.append(pad + "Sk.alts [\n" + ",\n".join(brs) + "]")
        else:
            raise SkError(f"render {k}")
    return ",\n".join(rows)


def count_tokens(items):
    n = 0
    for it in items:
        if it[0] in ("opt", "star"):
            n += count_tokens(it[1])
        elif it[0] == "alt":
            n += sum(count_tokens(b) for b in it[1])
        else:
            n += 1
    return n


def generate(repo):
    text = S.strip_cpp_comments((Path(repo) / "lib/gnu_gama/xml/localnetworkxml.cpp").read_text())
    ex = Exec(text)
    defs, order = {}, []

    def build(fn):
        if fn in defs:
            return
        defs[fn] = None
        nodes = ex.run(ex.fn[fn], State(fmt=ex.entry_fmt.get(fn)))
        items = prune(tokenise(nodes, fn))
        for c in calls(items):
            build(c)
        defs[fn] = items
        order.append(fn)

    def calls(items):
        for it in items:
            if it[0] == "call":
                yield it[1]
            elif it[0] in ("opt", "star"):
                yield from calls(it[1])
            elif it[0] == "alt":
                for b in it[1]:
                    yield from calls(b)

    build("write")
    missing = [f for f in WRITER_FUNCS if f not in defs]
    if missing:
        raise SkError(f"writer functions never called from write(): {missing}")
    for need in TEMPLATES + VISITOR_HELPERS:
        if need not in ex.inlined:
            raise SkError(f"{need} is never used")
    L = ["/-",
         "  GENERATED by tools/gen/c12_skeleton.py from lib/gnu_gama/xml/localnetworkxml.cpp — do not edit.",
         "  The element skeleton of LocalNetworkXML::write: one definition per writer function, `writeSk` = the document.",
         f"  visit methods: {', '.join(v for v, _ in ex.visits)}",
         "-/",
         "import Gama.Model.XmlDoc",
         "namespace Gama.Gen.XmlSkeleton",
         "open Gama.XmlDoc Gama.Gen.XmlSites",
         ""]
    total = 0
    for fn in order:
        total += count_tokens(defs[fn])
        L.append(f"/-- `LocalNetworkXML::{fn}` -/")
        L.append(f"def sk_{fn} : Sk := Sk.seqs [")
        L.append(render_items(defs[fn], 2) + "]")
        L.append("")
    L.append("def writeSk : Sk := sk_write")
    L.append("")
    L.append("end Gama.Gen.XmlSkeleton")
    return "\n".join(L) + "\n", {"functions": order, "tokens": total, "visits": [v for v, _ in ex.visits],
                                 "fmt_sites": fmt_sites(defs, order), "fmt_lean": render_fmt_sites(fmt_sites(defs, order))}


# ------------------------------------------------------------------ round 8: the per-site number formats

# numeric sites whose operand is an `int` (counters, dimensions, index lists): `operator<<(int)` ignores floatfield and
# precision.  Hand table (trusted); every other numeric site is a `double` and MUST have a determined format.
INT_SITES = {"dim", "band", "ind", "count-xyz", "count-xy", "count-z", "distances", "directions", "angles", "xyz-coords",
             "h-diffs", "z-angles", "s-dists", "vectors", "azimuths", "equations", "unknowns", "degrees-of-freedom",
             "defect", "linearization-iterations"}


def fmt_sites(defs, order):
    """[(fn, path, ctx, name, isInt, (floatfield, precision))] in source order, duplicates merged; `path` = the open
    elements of the same function around the site (`coordinates/adjusted/point`)"""
    rows = []

    def walk(fn, items, stack):
        stack = list(stack)
        for it in items:
            if it[0] == "text" and it[2] == "numeric":
                add(fn, stack[:-1], "elem", it[1], it[5])
            elif it[0] == "stag":
                for n, v, _ in it[2]:
                    if v[0] == "op" and v[1] == "numeric":
                        add(fn, stack + [it[1]], "attr", n, v[3] if len(v) > 3 else UNKNOWN_FMT)
                if not it[3]:
                    stack.append(it[1])
            elif it[0] == "etag":
                if stack and stack[-1] == it[1]:
                    stack.pop()
            elif it[0] in ("opt", "star"):
                walk(fn, it[1], stack)
            elif it[0] == "alt":
                for b in it[1]:
                    walk(fn, b, stack)

    def add(fn, stack, ctx, name, fmt):
        row = (fn, "/".join(stack), ctx, name, name in INT_SITES, tuple(fmt))
        if row not in rows:
            rows.append(row)

    for fn in order:
        walk(fn, defs[fn], [])
    return rows


def render_fmt_sites(rows):
    def rf(isint, f):
        if isint:
            return ".int"
        ff, p = f
        if ff == "?" or p == "?":
            return ".unknown"
        return f".num (.{ff} {p})"
    L = ["/-",
         "  GENERATED by tools/gen/c12_skeleton.py from lib/gnu_gama/xml/localnetworkxml.cpp — do not edit.",
         "  The number format in force at every numeric operand site of LocalNetworkXML::write (round 8): the floatfield",
         "  (`setf(ios_base::fixed | scientific, floatfield)`, `<< fixed` …) and the precision (`precision(n)`,",
         "  `setprecision(n)`, constants resolved: `make_check_precision(·)`, the visitor's `linear` / `angular`) that the",
         "  manipulator statements executed BEFORE the output statement leave on the stream the operand goes to (`out` or the",
         "  visitor's secondary `ostringstream`), followed through calls, branches (join) and loops (fixed point).",
         "  `.int` : the operand is an `int` (hand table of tag names in the generator); `.unknown` : not determined.",
         "-/",
         "import Gama.Model.DecimalCodec",
         "namespace Gama.Gen.XmlFmtSites",
         "open Gama.Dec",
         "",
         "inductive SiteFmt where",
         "  | int",
         "  | num (f : Fmt)",
         "  | unknown",
         "deriving DecidableEq, Repr",
         "",
         "structure FmtSite where",
         "  fn : String        -- writer function (templates and visit methods are inlined into their caller)",
         "  attr : Bool        -- attribute value (else element content)",
         "  path : String      -- the open elements of that function around the site",
         "  name : String      -- element / attribute name",
         "  fmt : SiteFmt",
         "deriving DecidableEq, Repr",
         "",
         "def sites : List FmtSite := ["]
    L.append(",\n".join(f"  ⟨{lstr(fn)}, {rbool(ctx == 'attr')}, {lstr(path)}, {lstr(name)}, {rf(isint, f)}⟩" for fn, path, ctx, name, isint, f in rows) + "]")
    L += ["", "end Gama.Gen.XmlFmtSites"]
    return "\n".join(L) + "\n"


if __name__ == "__main__":
    repo = sys.argv[1] if len(sys.argv) > 1 else "/repo"
    txt, info = generate(repo)
    if len(sys.argv) > 2:
        Path(sys.argv[2]).write_text(txt)
        if len(sys.argv) > 3:
            Path(sys.argv[3]).write_text(info["fmt_lean"])
    else:
        sys.stdout.write(txt)
    print({k: v for k, v in info.items() if k != "fmt_lean"}, file=sys.stderr)
