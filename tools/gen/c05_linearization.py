"""
C05 translator:  /repo/lib/gnu_gama/local/{local_linearization.cpp, bearing.cpp, float.h,
local_linearization.h, observation.h}  ->  lean/Gama/Gen/Linearization.lean

A small C++ front end (tokenizer with the project's object-like macros expanded textually,
recursive-descent expression/statement parser) for the straight-line member functions
LocalLinearization::<type> and the two bearing_distance overloads.  Every function becomes a
Lean definition over `[TrigScalar K]`:

  * locals            -> `let v_<name> := …`   (re-assignment = shadowing)
  * `while (c) a op= e;` -> `Lin.whileLoop` with fuel (`LinErr.fuel` when exhausted)
  * `if (c) throw …`  -> `Except.error`
  * `if (!i) i = ++maxn;`                       -> `Ev.touch role coord`
  * `index[size]=i; coeff[size]=e; size++;`     -> `Ev.push role coord e`
  * `if (P.free_xy()) { … }`                    -> `if o.<P>.free_xy then [events] else []`

Anything it does not understand raises TieBroken (the model would no longer be the code).
Pure python3 standard library.
"""
import re
from pathlib import Path

try:
    from lib.core import TieBroken
except Exception:  # stand-alone use
    class TieBroken(Exception):
        def __init__(self, name, detail=""):
            super().__init__(name + ": " + detail)
            self.name, self.detail = name, detail

NAME = "c05_linearization"
FUNCS = ["direction", "distance", "angle", "azimuth", "s_distance", "z_angle", "h_diff",
         "x", "y", "z", "xdiff", "ydiff", "zdiff"]


def broken(msg):
    raise TieBroken(NAME, msg)


# ------------------------------------------------------------------ tokenizer

TOK = re.compile(r"""
    (?P<num>(?:\d+\.\d*|\.\d+|\d+)(?:[eE][+-]?\d+)?)
  | (?P<id>[A-Za-z_]\w*)
  | (?P<op>->|\+\+|--|\+=|-=|\*=|/=|==|!=|>=|<=|\|\||&&|::|[-+*/%<>=!&|^~?:;,.(){}\[\]])
  | (?P<ws>\s+)
""", re.X)


def strip_comments(src):
    src = re.sub(r"/\*.*?\*/", lambda m: "\n" * m.group(0).count("\n"), src, flags=re.S)
    return re.sub(r"//[^\n]*", "", src)


def tokenize(src, what):
    toks, i = [], 0
    while i < len(src):
        m = TOK.match(src, i)
        if not m:
            broken(f"{what}: cannot tokenize at {src[i:i+30]!r}")
        i = m.end()
        if m.lastgroup == "ws":
            continue
        toks.append((m.lastgroup, m.group(0)))
    return toks


def read_macros(float_h):
    """object-like macros of float.h as token lists (M_PI is kept symbolic)"""
    src = strip_comments(float_h)
    macros = {}
    for m in re.finditer(r"^[ \t]*#[ \t]*define[ \t]+(\w+)[ \t]+(.+?)[ \t]*$", src, re.M):
        name, body = m.group(1), m.group(2)
        if name.endswith("_h") or "(" in name:
            continue
        macros[name] = tokenize(body, "float.h")
    if "M_PI" not in macros:
        broken("float.h: M_PI not defined")
    pi_txt = "".join(t for _, t in macros.pop("M_PI"))
    for need in ("R2G", "R2CC"):
        if need not in macros:
            broken(f"float.h: macro {need} missing")
    return macros, pi_txt


def expand(toks, macros, depth=0):
    if depth > 8:
        broken("macro recursion")
    out = []
    for k, t in toks:
        if k == "id" and t in macros:
            out += expand(macros[t], macros, depth + 1)
        else:
            out.append((k, t))
    return out


# ------------------------------------------------------------------ parser (expressions)

class P:
    def __init__(self, toks, what):
        self.t, self.i, self.what = toks, 0, what

    def peek(self, k=0):
        return self.t[self.i + k][1] if self.i + k < len(self.t) else None

    def kind(self, k=0):
        return self.t[self.i + k][0] if self.i + k < len(self.t) else None

    def next(self):
        v = self.t[self.i][1]
        self.i += 1
        return v

    def eat(self, s):
        if self.peek() != s:
            broken(f"{self.what}: expected {s!r} got {self.peek()!r} near "
                   + " ".join(t for _, t in self.t[max(0, self.i - 6):self.i + 4]))
        self.i += 1

    def accept(self, s):
        if self.peek() == s:
            self.i += 1
            return True
        return False

    # precedence climbing
    def expr(self):
        return self.assign()

    def assign(self):
        lhs = self.ternary()
        if self.peek() in ("=", "+=", "-=", "*=", "/="):
            op = self.next()
            rhs = self.assign()
            return ("assign", op, lhs, rhs)
        return lhs

    def ternary(self):
        c = self.binary(0)
        if self.accept("?"):
            a = self.expr()
            self.eat(":")
            b = self.ternary()
            return ("tern", c, a, b)
        return c

    LEVELS = [["||"], ["&&"], ["==", "!="], ["<", ">", "<=", ">="], ["+", "-"], ["*", "/"]]

    def binary(self, lvl):
        if lvl == len(self.LEVELS):
            return self.unary()
        e = self.binary(lvl + 1)
        while self.peek() in self.LEVELS[lvl]:
            op = self.next()
            r = self.binary(lvl + 1)
            e = ("bin", op, e, r)
        return e

    def unary(self):
        if self.peek() in ("-", "+", "!"):
            op = self.next()
            return ("un", op, self.unary())
        if self.peek() == "++":
            self.next()
            return ("preinc", self.unary())
        if self.peek() in ("static_cast", "const_cast"):
            self.next()
            self.eat("<")
            depth = 1
            while depth:
                t = self.next()
                depth += (t == "<") - (t == ">")
            self.eat("(")
            e = self.expr()
            self.eat(")")
            return e            # pointer casts do not change the object
        return self.postfix()

    def postfix(self):
        e = self.primary()
        while True:
            if self.peek() in (".", "->"):
                self.next()
                name = self.next()
                if self.accept("("):
                    args = self.args()
                    e = ("meth", e, name, args)
                else:
                    broken(f"{self.what}: data member access .{name}")
            elif self.peek() == "[":
                self.next()
                ix = self.expr()
                self.eat("]")
                e = ("index", e, ix)
            elif self.peek() == "++":
                self.next()
                e = ("postinc", e)
            else:
                return e

    def args(self):
        a = []
        if self.accept(")"):
            return a
        while True:
            a.append(self.expr())
            if self.accept(")"):
                return a
            self.eat(",")

    def qualified(self):
        name = self.next()
        while self.peek() == "::":
            self.next()
            name = name + "::" + self.next()
        return name

    def primary(self):
        k = self.kind()
        if k == "num":
            return ("num", self.next())
        if k == "id":
            name = self.qualified()
            if self.accept("("):
                return ("call", name, self.args())
            return ("var", name)
        if self.accept("("):
            e = self.expr()
            self.eat(")")
            return e
        broken(f"{self.what}: unexpected token {self.peek()!r}")

    # ---------------------------------------------------------------- statements
    TYPEWORDS = {"const", "double", "LocalPoint", "StandPoint", "int", "long"}

    def stmt(self):
        if self.accept("{"):
            body = []
            while not self.accept("}"):
                body.append(self.stmt())
            return ("block", body)
        if self.accept(";"):
            return ("block", [])
        if self.accept("if"):
            self.eat("(")
            c = self.expr()
            self.eat(")")
            th = self.stmt()
            el = None
            if self.accept("else"):
                el = self.stmt()
            return ("if", c, th, el)
        if self.accept("while"):
            self.eat("(")
            c = self.expr()
            self.eat(")")
            return ("while", c, self.stmt())
        if self.accept("throw"):
            e = self.expr()
            self.eat(";")
            return ("throw", e)
        if self.accept("return"):
            if self.peek() != ";":
                broken(f"{self.what}: return with a value")
            self.eat(";")
            return ("return",)
        if self.peek() in ("for", "do", "switch", "goto", "try"):
            broken(f"{self.what}: statement kind {self.peek()!r} is not straight-line")
        if self.peek() in self.TYPEWORDS and self.kind(1) in ("id", "op") and self.peek(1) not in ("(", ".", "->", "=", "["):
            return self.decl()
        e = self.expr()
        self.eat(";")
        return ("expr", e)

    def decl(self):
        words = []
        while self.peek() in self.TYPEWORDS:
            words.append(self.next())
        base = [w for w in words if w != "const"]
        if len(base) != 1:
            broken(f"{self.what}: declaration type {words}")
        decls = []
        while True:
            ref = ""
            while self.peek() in ("&", "*"):
                ref += self.next()
            name = self.next()
            init = None
            if self.accept("="):
                init = self.ternary()
            decls.append((name, ref, init))
            if self.accept(";"):
                break
            self.eat(",")
        return ("decl", base[0], decls)


def find_functions(toks, what, cls):
    """{name: (params tokens, body stmts)} for `void [cls::]name(params) [const] { … }`"""
    res = []
    i = 0
    n = len(toks)
    while i < n:
        if toks[i][1] == "void":
            j = i + 1
            if cls:
                if not (j + 2 < n and toks[j][1] == cls and toks[j + 1][1] == "::"):
                    i += 1
                    continue
                j += 2
            if j + 1 < n and toks[j][0] == "id" and toks[j + 1][1] == "(":
                name = toks[j][1]
                k = j + 2
                depth = 1
                while depth:
                    depth += (toks[k][1] == "(") - (toks[k][1] == ")")
                    k += 1
                params = toks[j + 2:k - 1]
                if toks[k][1] == "const":
                    k += 1
                if toks[k][1] != "{":
                    i = k
                    continue
                p = P(toks, f"{what}:{name}")
                p.i = k
                body = p.stmt()
                res.append((name, params, body[1]))
                i = p.i
                continue
        i += 1
    return res


# ------------------------------------------------------------------ code generation

def num_is_int(txt):
    return re.fullmatch(r"\d+", txt) is not None


def lean_num(txt):
    if num_is_int(txt):
        return f"(Scalar.ofNat {int(txt)} : K)"
    m = re.fullmatch(r"(\d*)\.?(\d*)(?:[eE]([+-]?\d+))?", txt)
    if not m:
        broken(f"literal {txt}")
    ip, fp, ex = m.group(1) or "", m.group(2) or "", int(m.group(3) or 0)
    mant = int((ip + fp) or "0")
    e = ex - len(fp)
    while mant and mant % 10 == 0 and e < 0:      # 200.0 -> 200
        mant //= 10
        e += 1
    if e >= 0:
        return f"(Scalar.ofSci {mant} false {e} : K)"
    return f"(Scalar.ofSci {mant} true {-e} : K)"


ROLES = {"from": "pfrom", "to": "pto", "bs": "pto", "fs": "pfs"}
ROLE_CTOR = {"pfrom": ".pfrom", "pto": ".pto", "pfs": ".pfs"}
FLAGS = {"free_xy", "free_z", "fixed_xy", "fixed_z", "constrained_xy", "constrained_z", "active_xy", "active_z"}
MATH1 = {"sin": "TrigScalar.sin", "cos": "TrigScalar.cos", "acos": "TrigScalar.acos", "sqrt": "Scalar.sqrt"}
ERRS = {"T_POBS_zero_or_negative_slope_distance": "LinErr.zeroSlopeDistance",
        "T_POBS_zero_or_negative_zenith_angle": "LinErr.zeroZenithAngle"}


class Gen:
    """translates one function body"""

    def __init__(self, fname, mode):
        self.f = fname
        self.mode = mode          # "lin" (member of LocalLinearization) | "fn" (free function)
        self.points = {}          # C++ name -> lean term of type Pt K
        self.sp = set()           # names bound to the StandPoint cluster
        self.vars = {}            # C++ double variable -> assigned? (bool)
        self.outs = []            # by-reference double parameters (free functions)
        self.lines = []
        self.segs = []            # event segments
        self.nfresh = 0
        self.size_reset = False
        self.ind = "  "

    def bad(self, msg):
        broken(f"{self.f}: {msg}")

    def emit(self, s):
        self.lines.append(self.ind + s)

    def fresh(self, p):
        self.nfresh += 1
        return f"{p}_{self.nfresh}"

    # ---- expressions (double / bool)
    def point(self, e):
        if e[0] == "var" and e[1] in self.points:
            return self.points[e[1]]
        if e[0] == "index" and e[1] == ("var", "PD"):
            r = e[2]
            if r[0] == "meth" and r[1] == ("var", "obs") and r[2] in ROLES and not r[3]:
                return "o." + ROLES[r[2]]
        return None

    def is_int(self, e):
        if e[0] == "num":
            return num_is_int(e[1])
        if e[0] == "un" and e[1] in "+-":
            return self.is_int(e[2])
        if e[0] == "bin" and e[1] in "+-*/":
            return self.is_int(e[2]) and self.is_int(e[3])
        return False

    def ex(self, e):
        k = e[0]
        if k == "num":
            return lean_num(e[1])
        if k == "var":
            n = e[1]
            if n == "M_PI":
                return "(TrigScalar.pi : K)"
            if n in self.vars:
                if not self.vars[n]:
                    self.bad(f"variable {n} read before assignment")
                return "v_" + n
            self.bad(f"unknown identifier {n}")
        if k == "un":
            if e[1] == "-":
                return f"(-{self.ex(e[2])})"
            if e[1] == "+":
                return self.ex(e[2])
            self.bad("'!' in arithmetic")
        if k == "bin" and e[1] in "+-*/":
            if self.is_int(e):
                self.bad("integer arithmetic sub-expression (C++ int semantics not modelled)")
            return f"({self.ex(e[2])} {e[1]} {self.ex(e[3])})"
        if k == "call":
            fn = e[1][5:] if e[1].startswith("std::") else e[1]
            if fn in MATH1 and len(e[2]) == 1:
                return f"({MATH1[fn]} {self.ex(e[2][0])})"
            if fn == "atan2" and len(e[2]) == 2:
                return f"(TrigScalar.atan2 {self.ex(e[2][0])} {self.ex(e[2][1])})"
            self.bad(f"call of {e[1]}/{len(e[2])}")
        if k == "meth":
            obj, name, args = e[1], e[2], e[3]
            if args:
                self.bad(f"method {name} with arguments in an expression")
            pt = self.point(obj)
            if pt and name in ("x", "y", "z"):
                return f"{pt}.{name}"
            if obj == ("var", "obs") and name == "value":
                return "o.value"
            if obj[0] == "var" and obj[1] in self.sp and name == "orientation":
                return "o.orientation"
            if obj == ("var", "PD") and name == "xNorthAngle":
                return "o.xNorth"
            self.bad(f"method {name}() on {obj}")
        if k == "tern":
            return f"(if {self.cond(e[1])} then {self.ex(e[2])} else {self.ex(e[3])})"
        self.bad(f"expression form {k}")

    def cond(self, e):
        """a C++ condition as a Lean Bool"""
        k = e[0]
        if k == "bin" and e[1] in ("||", "&&"):
            return f"({self.cond(e[2])} {e[1]} {self.cond(e[3])})"
        if k == "un" and e[1] == "!":
            return f"(!{self.cond(e[2])})"
        if k == "bin" and e[1] in ("<", ">", "<=", ">=", "==", "!="):
            a, b = self.ex(e[2]), self.ex(e[3])
            return {"<": f"decide ({a} < {b})", ">": f"decide ({b} < {a})",
                    "<=": f"decide ({a} ≤ {b})", ">=": f"decide ({b} ≤ {a})",
                    "==": f"(Scalar.beq {a} {b})", "!=": f"(!Scalar.beq {a} {b})"}[e[1]]
        if k == "meth" and not e[3] and e[2] in FLAGS:
            pt = self.point(e[1])
            if pt:
                return f"{pt}.{e[2]}"
        self.bad(f"condition {e}")

    # ---- unknown targets
    def target(self, e):
        """`P.index_c()` / `sp->index_orientation()` -> (role ctor, coord ctor)"""
        if e[0] == "meth" and not e[3]:
            pt = self.point(e[1])
            if pt and e[2] in ("index_x", "index_y", "index_z"):
                return (ROLE_CTOR[pt[2:]], "." + e[2][-1])
            if e[1][0] == "var" and e[1][1] in self.sp and e[2] == "index_orientation":
                return (".station", ".ori")
        return None

    def touch_of(self, s):
        """`if (!T) T = ++maxn;`  or  `if (!sp->index_orientation()) sp->index_orientation(++maxn);`"""
        if s[0] != "if" or s[3] is not None:
            return None
        c = s[1]
        if not (c[0] == "un" and c[1] == "!"):
            return None
        t = self.target(c[2])
        if not t:
            return None
        body = s[2]
        if body[0] == "block" and len(body[1]) == 1:
            body = body[1][0]
        if body[0] != "expr":
            self.bad("index allocation body")
        b = body[1]
        inc = ("preinc", ("var", "maxn"))
        if b[0] == "assign" and b[1] == "=" and self.target(b[2]) == t and b[3] == inc:
            return t
        if b[0] == "meth" and b[2] == "index_orientation" and b[3] == [inc] and t == (".station", ".ori") \
                and b[1][0] == "var" and b[1][1] in self.sp:
            return t
        self.bad(f"index allocation for {t} is not `= ++maxn`")

    def events(self, stmts):
        """a run of touch / push statements -> list of Ev terms (coefficients bound by lets)"""
        evs, i = [], 0
        while i < len(stmts):
            s = stmts[i]
            t = self.touch_of(s)
            if t:
                evs.append(f"Ev.touch {t[0]} {t[1]}")
                i += 1
                continue
            # push triple
            if i + 2 < len(stmts) and self.is_arr_assign(s, "index") and self.is_arr_assign(stmts[i + 1], "coeff") \
                    and stmts[i + 2] == ("expr", ("postinc", ("var", "size"))):
                if not self.size_reset:
                    self.bad("push before `size = 0`")
                tgt = self.target(s[1][3])
                if not tgt:
                    self.bad(f"index[size] = {s[1][3]}")
                c = self.fresh("c")
                self.emit(f"let {c} : K := {self.ex(stmts[i + 1][1][3])}")
                evs.append(f"Ev.push {tgt[0]} {tgt[1]} {c}")
                i += 3
                continue
            return None
        return evs

    @staticmethod
    def is_arr_assign(s, arr):
        return (s[0] == "expr" and s[1][0] == "assign" and s[1][1] == "=" and
                s[1][2] == ("index", ("var", arr), ("var", "size")))

    # ---- statements
    def assign(self, e):
        """double assignment (possibly chained / compound)"""
        op, lhs, rhs = e[1], e[2], e[3]
        if lhs[0] != "var" or lhs[1] not in self.vars:
            self.bad(f"assignment to {lhs}")
        if rhs[0] == "assign":
            self.assign(rhs)
            val = self.ex(rhs[2])
        else:
            val = self.ex(rhs)
        n = lhs[1]
        if op != "=":
            val = f"({self.ex(lhs)} {op[0]} {val})"
        self.emit(f"let v_{n} : K := {val}")
        self.vars[n] = True

    def pure_assign_value(self, s):
        """body of `if`/`while` that is a single assignment `v op= e;` -> (var, new value expr)"""
        if s[0] == "block" and len(s[1]) == 1:
            s = s[1][0]
        if s[0] == "expr" and s[1][0] == "assign" and s[1][2][0] == "var" and s[1][2][1] in self.vars \
                and s[1][3][0] != "assign":
            n, op = s[1][2][1], s[1][1]
            val = self.ex(s[1][3])
            if op != "=":
                val = f"({self.ex(s[1][2])} {op[0]} {val})"
            return n, val
        return None

    def ends_flow(self, s):
        if s[0] in ("throw", "return"):
            return True
        if s[0] == "block" and s[1]:
            return self.ends_flow(s[1][-1])
        return False

    def run(self, stmts):
        """emit the statements; returns when control reaches the end"""
        i = 0
        while i < len(stmts):
            s = stmts[i]
            k = s[0]
            # ---- events at top level
            evs = self.events(stmts[i:i + 1]) if k == "if" else None
            if evs is None and k == "expr" and self.is_arr_assign(s, "index"):
                evs = self.events(stmts[i:i + 3])
                if evs is None:
                    self.bad("index[size] not followed by coeff[size], size++")
                i += 2
            if evs is not None:
                self.segs.append("[" + ", ".join(evs) + "]")
                i += 1
                continue
            if k == "block":
                self.run(s[1])
            elif k == "decl":
                self.decl(s)
            elif k == "expr":
                self.expr_stmt(s[1])
            elif k == "while":
                pa = self.pure_assign_value(s[2])
                if not pa:
                    self.bad("while body is not a single assignment")
                n, val = pa
                c = self.cond(s[1])
                self.emit(f"match Lin.whileLoop (fun v_{n} => {c}) (fun v_{n} => {val}) fuel v_{n} with")
                self.emit("| none => Except.error LinErr.fuel" if self.mode == "lin" else "| none => none")
                self.emit(f"| some v_{n} =>")
            elif k == "if":
                self.if_stmt(s)
            elif k == "throw":
                self.emit(self.throw_term(s[1]))
                return False
            elif k == "return":
                self.emit(self.final())
                return False
            else:
                self.bad(f"statement {k}")
            i += 1
        return True

    def throw_term(self, e):
        if self.mode != "lin":
            self.bad("throw in a free function")
        if e[0] == "call" and e[1].endswith("Exception") and len(e[2]) == 1 and e[2][0][0] == "var":
            tag = e[2][0][1]
            return "Except.error " + ERRS.get(tag, f'(LinErr.other "{tag}")')
        self.bad("throw expression")

    def decl(self, s):
        ty, decls = s[1], s[2]
        for name, ref, init in decls:
            if ty == "LocalPoint":
                pt = self.point(init) if init else None
                if ref != "&" or not pt:
                    self.bad(f"LocalPoint {name} is not a reference to PD[obs->role()]")
                self.points[name] = pt
            elif ty == "StandPoint":
                ok = init is not None and ((init[0] == "meth" and init[1] == ("var", "obs") and init[2] == "ptr_cluster")
                                           or (init[0] == "var" and init[1] in self.sp))
                if ref != "*" or not ok:
                    self.bad(f"StandPoint {name} is not the observation's cluster")
                self.sp.add(name)
            elif ty == "double":
                if ref:
                    self.bad(f"double{ref} {name}")
                self.vars[name] = False
                if init is not None:
                    self.emit(f"let v_{name} : K := {self.ex(init)}")
                    self.vars[name] = True
            else:
                self.bad(f"declaration of type {ty}")

    def expr_stmt(self, e):
        if e[0] == "assign":
            if e[2] == ("var", "size"):
                if e[1] == "=" and e[3] == ("num", "0") and not self.segs:
                    self.size_reset = True
                    return
                self.bad("assignment to size")
            if e[2] == ("var", "rhs") and self.mode == "lin":
                self.vars.setdefault("rhs", False)
            return self.assign(e)
        if e[0] == "call" and e[1] == "bearing_distance":
            a = e[2]
            if len(a) == 4 and self.point(a[0]) and self.point(a[1]):
                ins = [self.point(a[0]), self.point(a[1])]
                fn = "bearingDistancePt"
            elif len(a) == 6:
                ins = [self.ex(x) for x in a[:4]]
                fn = "bearingDistance"
            else:
                self.bad("bearing_distance overload")
            outs = a[-2:]
            for o_ in outs:
                if o_[0] != "var" or o_[1] not in self.vars:
                    self.bad("bearing_distance output argument")
            r = self.fresh("bd")
            self.emit(f"let {r} := {fn} {' '.join(ins)}")
            self.emit(f"let v_{outs[0][1]} : K := {r}.1")
            self.emit(f"let v_{outs[1][1]} : K := {r}.2")
            self.vars[outs[0][1]] = self.vars[outs[1][1]] = True
            return
        self.bad(f"expression statement {e[0]}")

    def if_stmt(self, s):
        c, th, el = s[1], s[2], s[3]
        # guard block of events
        if c[0] == "meth" and c[2] in FLAGS or (c[0] == "un" and c[2][0] == "meth" and c[2][2] in FLAGS):
            if el is not None:
                self.bad("else on a guard block")
            body = th[1] if th[0] == "block" else [th]
            evs = self.events(body)
            if evs is None:
                self.bad("guard block contains something else than index allocations and pushes")
            self.segs.append(f"(if {self.cond(c)} then [" + ", ".join(evs) + "] else [])")
            return
        if el is not None:
            self.bad("if/else on values")
        if self.ends_flow(th):
            self.emit(f"if {self.cond(c)} then")
            saved = dict(self.vars)
            self.ind += "  "
            self.run(th[1] if th[0] == "block" else [th])
            self.ind = self.ind[:-2]
            self.vars = saved
            self.emit("else")
            return
        pa = self.pure_assign_value(th)
        if pa:
            n, val = pa
            if not self.vars[n]:
                self.bad(f"conditional first assignment of {n}")
            self.emit(f"let v_{n} : K := if {self.cond(c)} then {val} else v_{n}")
            return
        # a block of plain assignments: evaluate the condition once, then assign in order
        if th[0] == "block" and th[1] and all(
                st[0] == "expr" and st[1][0] == "assign" and st[1][2][0] == "var" and st[1][2][1] in self.vars
                and st[1][3][0] != "assign" for st in th[1]):
            b = self.fresh("b")
            self.emit(f"let {b} : Bool := {self.cond(c)}")
            for st in th[1]:
                n, val = self.pure_assign_value(st)
                if not self.vars[n]:
                    self.bad(f"conditional first assignment of {n}")
                self.emit(f"let v_{n} : K := if {b} then {val} else v_{n}")
            return
        self.bad("if body is neither a throw/return, plain assignments nor a guard block")

    def final(self):
        if self.mode == "lin":
            if not self.vars.get("rhs"):
                self.bad("rhs is never assigned")
            if not self.size_reset:
                self.bad("size is never reset")
            segs = " ++\n      ".join(self.segs) if self.segs else "[]"
            return f"Except.ok ⟨v_rhs,\n      {segs}⟩"
        for o_ in self.outs:
            if not self.vars.get(o_):
                self.bad(f"output parameter {o_} not assigned on a return path")
        inner = "(" + ", ".join("v_" + o_ for o_ in self.outs) + ")"
        return inner


def gen_lin(name, body):
    g = Gen(name, "lin")
    if g.run(body):
        g.emit(g.final())
    head = (f"def {name} {{K : Type}} [TrigScalar K] (fuel : Nat) (o : Obs K) : Except LinErr (LinOut K) :=")
    return head + "\n" + "\n".join(g.lines) + "\n"


def gen_free(name, lean_name, params, body):
    """free function `void f(params)`; by-value doubles / const LocalPoint& in, double& out"""
    g = Gen(name, "fn")
    p = P(params + [("op", ",")], name)
    sig = []
    while p.i < len(p.t):
        words = []
        while p.peek() not in (",",):
            words.append(p.next())
        p.eat(",")
        pname = words[-1]
        ty = [w for w in words[:-1] if w != "const"]
        if ty == ["LocalPoint", "&"]:
            g.points[pname] = "p_" + pname
            sig.append(f"(p_{pname} : Pt K)")
        elif ty == ["double"]:
            g.vars[pname] = True
            sig.append(f"(v_{pname} : K)")
        elif ty == ["double", "&"]:
            g.vars[pname] = False
            g.outs.append(pname)
        else:
            broken(f"{name}: parameter {' '.join(words)}")
    if len(g.outs) != 2:
        broken(f"{name}: expected two output parameters")
    # free functions may contain a while -> Option; here none does, so result is a plain pair
    if g.run(body):
        g.emit(g.final())
    if any("whileLoop" in l for l in g.lines):
        broken(f"{name}: loop in a free function")
    head = f"def {lean_name} {{K : Type}} [TrigScalar K] {' '.join(sig)} : K × K :="
    return head + "\n" + "\n".join(g.lines) + "\n"


HEADER = """/-
  GENERATED by tools/gen/c05_linearization.py — do not edit.
  Source: lib/gnu_gama/local/local_linearization.cpp, bearing.cpp, float.h,
          local_linearization.h (max_size, visit table), observation.h (Angle::bs)
  One definition per `LocalLinearization::<type>`; C++ locals are `v_<name>`,
  coefficients at the point of each push are `c_<n>`.
-/
import Gama.Model.LinTypes
set_option linter.unusedVariables false
namespace Gama.Gen.Lin
open Gama Gama.Lin

"""


def gen_reset_guard(loc):
    """network.cpp, prologue of LocalNetwork::project_equations(): which points get their cached
    unknown indexes zeroed before a new LocalLinearization (maxn = 0) numbers the unknowns"""
    try:
        nsrc = strip_comments((loc / "network.cpp").read_text())
    except OSError as e:
        broken(f"cannot read network.cpp: {e}")
    m = re.search(r"void\s+LocalNetwork::project_equations\(\)\s*\{", nsrc)
    if not m:
        broken("network.cpp: LocalNetwork::project_equations() not found")
    i, depth = m.end(), 1
    while depth and i < len(nsrc):
        depth += (nsrc[i] == "{") - (nsrc[i] == "}")
        i += 1
    body = nsrc[m.end():i]
    k = body.find("LocalLinearization")
    if k < 0 or not re.search(r"LocalLinearization\s+\w+\(PD\s*,", body):
        broken("network.cpp: project_equations no longer constructs a fresh LocalLinearization(PD, …)")
    pro = body[:k]
    mm = re.search(r"for\s*\(\s*PointData::iterator\s+(\w+)\s*=\s*PD\.begin\(\)\s*;\s*\1\s*!=\s*PD\.end\(\)\s*;\s*\+\+\1\s*\)\s*\{"
                   r"\s*LocalPoint\s*&\s*(?P<v>\w+)\s*=\s*\(\*\1\)\.second;\s*if\s*\((?P<cond>[^{;]*)\)\s*\{"
                   r"\s*(?P=v)\.index_y\(\)\s*=\s*(?P=v)\.index_x\(\)\s*=\s*(?P=v)\.index_z\(\)\s*=\s*0\s*;\s*\}\s*\}", pro)
    if not mm:
        broken("network.cpp: index reset loop of project_equations has an unexpected shape")
    if not re.search(r"if\s*\(StandPoint\*\s*(\w+)\s*=\s*dynamic_cast<StandPoint\*>\(\*\w+\)\)\s*\1->index_orientation\(0\);", pro):
        broken("network.cpp: orientation indexes are no longer reset for every StandPoint cluster")
    g = Gen("project_equations", "fn")
    g.points[mm.group("v")] = "p"
    pp = P(tokenize(mm.group("cond"), "network.cpp") + [("op", ";")], "network.cpp:project_equations")
    cond = pp.expr()
    if pp.peek() != ";":
        broken("network.cpp: reset guard expression")
    return ("/-- network.cpp `LocalNetwork::project_equations()`: `if (" + " ".join(mm.group("cond").split()) +
            ") b.index_y() = b.index_x() = b.index_z() = 0;` for every point of PD; every\n"
            "    `StandPoint::index_orientation(0)`; then a new `LocalLinearization` (`maxn = 0`) -/\n"
            f"def resetGuard {{K : Type}} (p : Pt K) : Bool := {g.cond(cond)}\n")


def translate_text(repo):
    loc = Path(repo) / "lib" / "gnu_gama" / "local"
    try:
        src = (loc / "local_linearization.cpp").read_text()
        bsrc = (loc / "bearing.cpp").read_text()
        fsrc = (loc / "float.h").read_text()
        hsrc = (loc / "local_linearization.h").read_text()
        osrc = (loc / "observation.h").read_text()
    except OSError as e:
        broken(f"cannot read sources: {e}")
    macros, pi_txt = read_macros(fsrc)
    if not re.fullmatch(r"3\.14159265358979\d*", pi_txt):
        broken(f"M_PI is {pi_txt}")
    out = [HEADER]
    out.append(f"/-- float.h: `#define M_PI {pi_txt}` (modelled as `TrigScalar.pi`) -/\n"
               f"def M_PI_text : String := \"{pi_txt}\"\n")

    # bearing.cpp ------------------------------------------------------
    btoks = expand(tokenize(strip_comments(re.sub(r"^\s*#.*$", "", bsrc, flags=re.M)), "bearing.cpp"), macros)
    bfs = [f for f in find_functions(btoks, "bearing.cpp", None) if f[0] == "bearing_distance"]
    if len(bfs) != 2:
        broken(f"bearing.cpp: expected 2 overloads of bearing_distance, found {len(bfs)}")
    scalar = [f for f in bfs if not any(t == "LocalPoint" for _, t in f[1])]
    ptver = [f for f in bfs if any(t == "LocalPoint" for _, t in f[1])]
    if len(scalar) != 1 or len(ptver) != 1:
        broken("bearing.cpp: overload shapes")
    out.append(gen_free("bearing_distance/6", "bearingDistance", scalar[0][1], scalar[0][2]))
    out.append(gen_free("bearing_distance/4", "bearingDistancePt", ptver[0][1], ptver[0][2]))

    # observation.h: Angle::bs() is to() -------------------------------
    if not re.search(r"bs\(\)\s*const\s*\{\s*return\s+to\(\)\s*;\s*\}", strip_comments(osrc)):
        broken("observation.h: Angle::bs() is no longer to()")

    # local_linearization.cpp -------------------------------------------
    toks = expand(tokenize(strip_comments(re.sub(r"^\s*#.*$", "", src, flags=re.M)), "local_linearization.cpp"), macros)
    fs = find_functions(toks, "local_linearization.cpp", "LocalLinearization")
    names = [f[0] for f in fs]
    if sorted(names) != sorted(FUNCS):
        broken(f"member functions found: {names}")
    by = {f[0]: f for f in fs}
    for n in FUNCS:
        ptoks = [t for _, t in by[n][1]]
        if not (len(ptoks) == 4 and ptoks[0] == "const" and ptoks[2] == "*" and ptoks[3] == "obs"):
            broken(f"{n}: parameter list {' '.join(ptoks)}")
        out.append(gen_lin(n, by[n][2]))

    # header: max_size and the visit table ------------------------------
    h = strip_comments(hsrc)
    m = re.search(r"double\s+coeff\[(\d+)\]", h)
    m2 = re.search(r"long\s+index\[(\d+)\]", h)
    m3 = re.search(r"max_size\((\d+)\)", h)
    if not (m and m2 and m3):
        broken("local_linearization.h: coeff[]/index[]/max_size")
    out.append(f"/-- `coeff[{m.group(1)}]`, `index[{m2.group(1)}]`, `max_size({m3.group(1)})` -/\n"
               f"def coeffCap : Nat := {m.group(1)}\ndef indexCap : Nat := {m2.group(1)}\ndef maxSize : Nat := {m3.group(1)}\n")
    visits = re.findall(r"void\s+visit\((\w+)\s*\*\s*element\)\s*\{\s*(\w+)\(element\);\s*\}", h)
    if sorted(v[1] for v in visits) != sorted(FUNCS):
        broken(f"local_linearization.h: visit table {visits}")
    out.append("/-- `visit(<Class>* e) { <fn>(e); }` -/\n"
               "def visit {K : Type} [TrigScalar K] : String → Option (Nat → Obs K → Except LinErr (LinOut K))\n" +
               "".join(f'  | "{c}" => some {f}\n' for c, f in visits) + "  | _ => none\n")
    out.append(gen_reset_guard(loc))
    out.append("end Gama.Gen.Lin\n")
    return "\n".join(out)


def translate(repo, lean_dir):
    text = translate_text(repo)
    dst = Path(lean_dir) / "Gama" / "Gen" / "Linearization.lean"
    dst.parent.mkdir(parents=True, exist_ok=True)
    if not dst.exists() or dst.read_text() != text:
        dst.write_text(text)
    return dst


if __name__ == "__main__":
    import sys
    print(translate_text(sys.argv[1] if len(sys.argv) > 1 else "/repo"))
