#!/usr/bin/env python3
"""
Translator for C12:  lib/gnu_gama/xml/str2xml.cpp + lib/gnu_gama/xml/localnetworkxml.cpp
                     ->  lean/Gama/Gen/XmlSites.lean

 * `escMap`   : the if-chain of str2xml(), in source order: (byte, replacement bytes)
 * `sites`    : every place where the adjustment-XML writer streams an operand between
                `<tag>` and `</tag>` (directly or through tagsp/tagnl) or into an attribute
                value `name="…"`, with the operand text and whether the operand is wrapped in
                str2xml(…).  Tags / attributes are classified by name into *text* (the operand
                is a string that comes from the input: ids, description, extern …), *numeric*
                (streamed numbers) and *constant* (compile-time strings).  A tag or attribute
                name that is in none of the lists stops the translator (TieBroken), so a new
                site cannot slip past unclassified.

A site losing or gaining its str2xml() changes `escaped`, an edit of the character map changes
`escMap`; both change the Lean text and the theorems of Props/C12 are re-checked against it.
"""
import re
import sys
from pathlib import Path

TEXT_TAGS = {"id", "from", "to", "left", "right", "description"}
NUMERIC_TAGS = {
    "obs", "adj", "stdev", "qrr", "f", "std-residual", "err-obs", "err-adj", "dim", "band", "flt", "ind",
    "major", "minor", "alpha", "approx", "x", "y", "z", "cx", "cy", "cz",
    "count-xyz", "count-xy", "count-z", "distances", "directions", "angles", "xyz-coords", "h-diffs",
    "z-angles", "s-dists", "vectors", "azimuths", "equations", "unknowns", "degrees-of-freedom", "defect",
    "sum-of-squares", "linearization-iterations", "apriori", "aposteriori", "probability", "ratio",
    "lower", "upper", "confidence-scale",
}
CONST_TAGS = {"used"}            # string("aposteriori") / string("apriori")
TEXT_ATTRS = {"extern"}          # comes from the input document (Observation::set_extern)
NUMERIC_ATTRS = {"epoch", "latitude"}
CONST_ATTRS = {"xmlns", "gama-local-version", "gama-local-algorithm", "gama-local-compiler",
               "axes-xy", "angles", "ellipsoid", "version"}
# gama-local-algorithm: LocalNetwork::set_algorithm() maps anything unknown to "envelope";
# ellipsoid: gama-local refuses unknown names before adjustment (closed table of names)


class SitesError(Exception):
    pass


def strip_cpp_comments(src):
    src = re.sub(r"/\*.*?\*/", lambda m: re.sub(r"[^\n]", " ", m.group(0)), src, flags=re.S)
    out = []
    for line in src.split("\n"):
        # remove // comments that are not inside a string literal
        res, i, instr = [], 0, False
        while i < len(line):
            c = line[i]
            if instr:
                res.append(c)
                if c == "\\" and i + 1 < len(line):
                    res.append(line[i + 1])
                    i += 1
                elif c == '"':
                    instr = False
            else:
                if c == '"':
                    instr = True
                    res.append(c)
                elif line.startswith("//", i):
                    break
                else:
                    res.append(c)
            i += 1
        out.append("".join(res))
    return "\n".join(out)


def parse_escmap(text):
    """the chain   if (c == 'X') t += "ENT";  else if …   inside str2xml(const std::string&)"""
    text = strip_cpp_comments(text)
    m = re.search(r"std::string\s+str2xml\s*\(\s*const\s+std::string\s*&\s*\w+\s*\)\s*\{(.*?)\n  \}", text, re.S)
    if not m:
        raise SitesError("str2xml(const std::string&) not found")
    body = m.group(1)
    pairs = re.findall(r"if\s*\(\s*c\s*==\s*'(\\?.)'\s*\)\s*t\s*\+=\s*\"([^\"]*)\"\s*;", body)
    default = re.search(r"else\s+t\s*\+=\s*c\s*;", body)
    if not pairs or not default:
        raise SitesError("str2xml: if-chain / default branch not recognised")
    n_if = len(re.findall(r"\bif\s*\(", body))
    if n_if != len(pairs):
        raise SitesError(f"str2xml: {n_if} conditions but {len(pairs)} recognised")
    res = []
    for ch, ent in pairs:
        if ch.startswith("\\"):
            ch = {"\\'": "'", '\\"': '"', "\\\\": "\\", "\\n": "\n", "\\t": "\t"}.get(ch)
            if ch is None:
                raise SitesError("str2xml: escape in char literal not recognised")
        res.append((ord(ch), ent))
    return res


def enclosing_function(lines, idx):
    for i in range(idx, -1, -1):
        m = re.match(r"\s*(?:void|int|template.*)?\s*(?:[\w:<>]+\s+)?((?:LocalNetworkXML::)?\w+)\s*\([^;]*\)?\s*(?:const)?\s*$", lines[i])
        if m and not lines[i].lstrip().startswith(("if", "for", "while", "else", "switch", "out", "*ostr", "tag", "<<", "return")):
            if re.search(r"\b(visit|tag_id|tag_from_to|write|coordinates|observations|std_error_ellipses|orientation_shifts|"
                         r"coordinates_summary|observations_summary|equations_summary|std_dev_summary|tagnl|tagsp)\s*\(", lines[i]):
                mm = re.search(r"(\w+)\s*\(([^)]*)", lines[i])
                name = mm.group(1)
                if name == "visit":
                    name += "(" + mm.group(2).split("*")[0].strip() + ")"
                return name
    return "?"


def parse_sites(text):
    text = strip_cpp_comments(text)
    lines = text.split("\n")
    offs, pos = [], 0
    for l in lines:
        offs.append(pos)
        pos += len(l) + 1

    def line_of(p):
        lo, hi = 0, len(offs) - 1
        while lo < hi:
            mid = (lo + hi + 1) // 2
            if offs[mid] <= p:
                lo = mid
            else:
                hi = mid - 1
        return lo

    sites = []
    # 1. "<tag>" << EXPR << "</tag>"   (tag may be preceded by blanks / text inside the literal)
    for m in re.finditer(r'"[^"\n]*<([A-Za-z][\w-]*)>"\s*<<\s*(.+?)\s*<<\s*"</\1>', text, re.S):
        sites.append(("elem", m.group(1), " ".join(m.group(2).split()), m.start()))
    # 2. tagsp / tagnl (out, "tag" | var, EXPR);
    for m in re.finditer(r'\btag(?:sp|nl)\s*\(\s*out\s*,\s*("?[\w-]+"?)\s*,\s*(.+?)\)\s*;', text, re.S):
        tag = m.group(1)
        if m.group(0).startswith(("tagsp(std", "tagnl(std")):
            continue
        tag = tag.strip('"') if tag.startswith('"') else tag      # cx/cy/cz are variables holding x/X …
        sites.append(("elem", tag, " ".join(m.group(2).split()), m.start()))
    # 3. attribute   name=\"" << EXPR << "\"
    for m in re.finditer(r'([A-Za-z][\w-]*)=\\""\s*<<\s*(.+?)\s*<<\s*"\\"', text, re.S):
        sites.append(("attr", m.group(1), " ".join(m.group(2).split()), m.start()))
    # the template definitions of tagsp/tagnl themselves stream (t, n): skip them (operand n is the argument)
    sites = [s for s in sites if not (s[1] == "t" or s[2] == "n")]
    out = []
    for ctx, tag, expr, p in sorted(sites, key=lambda s: s[3]):
        if ctx == "elem":
            kind = ("text" if tag in TEXT_TAGS else "numeric" if tag in NUMERIC_TAGS else
                    "const" if tag in CONST_TAGS else None)
        else:
            kind = ("text" if tag in TEXT_ATTRS else "numeric" if tag in NUMERIC_ATTRS else
                    "const" if tag in CONST_ATTRS else None)
        ln = line_of(p)
        if kind is None:
            raise SitesError(f"unclassified {ctx} site <{tag}> operand `{expr}` at localnetworkxml.cpp:{ln + 1}")
        escaped = bool(re.search(r"\bstr2xml\s*\(", expr))
        out.append({"ctx": ctx, "tag": tag, "operand": expr, "kind": kind, "escaped": escaped,
                    "fn": enclosing_function(lines, ln), "line": ln + 1})
    if not any(s["kind"] == "text" for s in out):
        raise SitesError("no text sites recognised in localnetworkxml.cpp")
    return out


def lean_str(s):
    return '"' + s.replace("\\", "\\\\").replace('"', '\\"') + '"'


def render(escmap, sites):
    L = []
    L.append("/-")
    L.append("  GENERATED by tools/gen/c12_sites.py from lib/gnu_gama/xml/str2xml.cpp and")
    L.append("  lib/gnu_gama/xml/localnetworkxml.cpp — do not edit.")
    L.append("-/")
    L.append("namespace Gama.Gen.XmlSites")
    L.append("")
    L.append("/-- the if-chain of `str2xml(const std::string&)`, in source order: byte ↦ replacement -/")
    L.append("def escMap : List (UInt8 × List UInt8) :=")
    rows = []
    for ch, ent in escmap:
        rows.append(f"  ({ch}, [{', '.join(str(b) for b in ent.encode())}])   -- {chr(ch)!r} ↦ {ent}")
    L.append("  [\n" + ",\n".join(r.split("   --")[0] + " /- " + r.split("   -- ")[1] + " -/" for r in rows) + "\n  ]")
    L.append("")
    L.append("inductive Ctx where | elem | attr deriving DecidableEq, Repr")
    L.append("inductive Kind where | text | numeric | const deriving DecidableEq, Repr")
    L.append("")
    L.append("/-- one place where `LocalNetworkXML` streams an operand into element content or an attribute value -/")
    L.append("structure Site where")
    L.append("  ctx : Ctx")
    L.append("  tag : String")
    L.append("  fn : String")
    L.append("  operand : String")
    L.append("  kind : Kind")
    L.append("  escaped : Bool")
    L.append("deriving DecidableEq, Repr")
    L.append("")
    L.append("def sites : List Site := [")
    body = []
    for s in sites:
        body.append(f"  ⟨.{s['ctx']}, {lean_str(s['tag'])}, {lean_str(s['fn'])}, {lean_str(s['operand'])}, "
                    f".{s['kind']}, {'true' if s['escaped'] else 'false'}⟩")
    L.append(",\n".join(body))
    L.append("]")
    L.append("")
    L.append("end Gama.Gen.XmlSites")
    return "\n".join(L) + "\n"


def generate(repo):
    repo = Path(repo)
    escmap = parse_escmap((repo / "lib/gnu_gama/xml/str2xml.cpp").read_text())
    sites = parse_sites((repo / "lib/gnu_gama/xml/localnetworkxml.cpp").read_text())
    return render(escmap, sites), escmap, sites


if __name__ == "__main__":
    repo = sys.argv[1] if len(sys.argv) > 1 else "/repo"
    txt, escmap, sites = generate(repo)
    if len(sys.argv) > 2:
        Path(sys.argv[2]).write_text(txt)
    else:
        sys.stdout.write(txt)
    for s in sites:
        if s["kind"] == "text":
            print(f"-- {s['ctx']:4} {s['tag']:12} {s['fn']:24} escaped={s['escaped']}  {s['operand']}", file=sys.stderr)
