"""
C19 generator: consistent gama-g3 networks in geocentric coordinates, anywhere on the ellipsoid.

Everything is derived from the `random.Random` passed in, so cases replay exactly.  A network
is a JSON-serialisable dict

  {"family": str, "center": [lat_deg, lon_deg], "sd": apriori standard deviation,
   "points":   [{"id", "true": [x,y,z], "given": [x,y,z] | None, "h": st, "u": st, "geoid": g | None}],
   "clusters": [{"obs": [{"t": "vector","from","to","d":[dx,dy,dz]} | {"t":"xyz","id","v":[x,y,z]}
                         | {"t":"distance","from","to","v"} | {"t":"height","id","v"}
                         | {"t":"hdiff","from","to","v"} | {"t":"angle","from","left","right","v"(gon)}],
                 "cov": {"dim","band","vals"}}],
   "exact": bool   # adjusted coordinates must equal the generating ones
  }

st in {"fixed","free","constr"}; "h" is the status of n and e (the parser insists on a common
status), "u" the status of the height component.  All observation values are computed from the
generating ("true") coordinates; the <point> records of adjusted points carry approximate
coordinates displaced along their non-fixed n/e/u components.

Independent reference computations live here too (`frame`, `design`, `rank`), so the oracle
does not reuse any gama code.
"""
import math

A_WGS, B_WGS = 6378137.0, 6356752.31425          # lib/gnu_gama/ellipsoids.cpp (wgs84)
E2 = 1.0 - (B_WGS * B_WGS) / (A_WGS * A_WGS)
GON = 200.0 / math.pi


def blh2xyz(b, l, h):
    n = A_WGS / math.sqrt(1.0 - E2 * math.sin(b) ** 2)
    return [(n + h) * math.cos(b) * math.cos(l), (n + h) * math.cos(b) * math.sin(l), (n * (1 - E2) + h) * math.sin(b)]


def xyz2blh(x, y, z):
    l = math.atan2(y, x)
    p = math.hypot(x, y)
    if p < 1e-9:
        b = math.copysign(math.pi / 2, z)
        return b, 0.0, abs(z) - B_WGS
    b = math.atan2(z, p * (1 - E2))
    for _ in range(12):
        n = A_WGS / math.sqrt(1.0 - E2 * math.sin(b) ** 2)
        h = p / math.cos(b) - n if abs(b) < 1.2 else z / math.sin(b) - n * (1 - E2)
        b = math.atan2(z, p * (1 - E2 * n / (n + h)))
    n = A_WGS / math.sqrt(1.0 - E2 * math.sin(b) ** 2)
    h = p / math.cos(b) - n if abs(b) < 1.2 else z / math.sin(b) - n * (1 - E2)
    return b, l, h


def frame(b, l):
    """columns n, e, u of the local frame (rows: x, y, z)"""
    sb, cb, sl, cl = math.sin(b), math.cos(b), math.sin(l), math.cos(l)
    return [[-sb * cl, -sl, cb * cl], [-sb * sl, cl, cb * sl], [cb, 0.0, sb]]


def rot(R, v):
    return [sum(R[i][j] * v[j] for j in range(3)) for i in range(3)]


def rot_t(R, v):
    return [sum(R[j][i] * v[j] for j in range(3)) for i in range(3)]


def sub(a, b):
    return [a[i] - b[i] for i in range(3)]


def norm(a):
    return math.sqrt(sum(x * x for x in a))


def cross(a, b):
    return [a[1] * b[2] - a[2] * b[1], a[2] * b[0] - a[0] * b[2], a[0] * b[1] - a[1] * b[0]]


def horiz_angle(f, l, r):
    """angle between the vertical planes through the ellipsoid normal at f (as g3 defines it: unsigned)"""
    b, lam, _ = xyz2blh(*f)
    v = [math.cos(b) * math.cos(lam), math.cos(b) * math.sin(lam), math.sin(b)]
    fl, fr = sub(l, f), sub(r, f)
    vl, vr = cross(v, fl), cross(v, fr)
    c = sum(vl[i] * vr[i] for i in range(3)) / (norm(vl) * norm(vr))
    return math.acos(max(-1.0, min(1.0, c)))


def raised(p, dh):
    """the point dh metres up along its ellipsoid normal (g3: Model::instrument with dB = dL = 0)"""
    b, lam, _ = xyz2blh(*p)
    v = [math.cos(b) * math.cos(lam), math.cos(b) * math.sin(lam), math.sin(b)]
    return [p[i] + dh * v[i] for i in range(3)]


def signed_angle(f, l, r):
    """bearing(right) - bearing(left) in the horizontal plane of f, clockwise, in [0, 2 pi)"""
    b, lam, _ = xyz2blh(*f)
    R = frame(b, lam)
    a, c = rot_t(R, sub(l, f)), rot_t(R, sub(r, f))
    return (math.atan2(c[1], c[0]) - math.atan2(a[1], a[0])) % (2 * math.pi)


def r17(x):
    return repr(float(x))


# --------------------------------------------------------------------------- generation

CENTERS = ["generic", "generic", "north", "south", "antimeridian", "equator", "greenwich", "pole-exact"]


def pick_center(rng):
    c = rng.choice(CENTERS)
    if c == "generic":
        return c, rng.uniform(-80, 80), rng.uniform(-179, 179)
    if c == "north":
        return c, 90 - 10 ** rng.uniform(-4, -0.5), rng.uniform(-180, 180)
    if c == "south":
        return c, -90 + 10 ** rng.uniform(-4, -0.5), rng.uniform(-180, 180)
    if c == "antimeridian":
        return c, rng.uniform(-70, 70), rng.choice([180.0, -180.0]) - rng.choice([1, -1]) * 10 ** rng.uniform(-6, -2)
    if c == "equator":
        return c, rng.uniform(-1e-3, 1e-3), rng.uniform(-179, 179)
    if c == "greenwich":
        return c, rng.uniform(-60, 60), rng.uniform(-1e-3, 1e-3)
    return c, rng.choice([90.0, -90.0]), 0.0


def spd(rng, dim, band, scale):
    """packed upper band (by rows) of an SPD matrix L L^T + D with the given band width"""
    L = [[0.0] * dim for _ in range(dim)]
    for i in range(dim):
        for j in range(max(0, i - band), i + 1):
            L[i][j] = rng.randint(-3, 3) * 0.25 if i != j else rng.randint(2, 5) * 0.5
    C = [[sum(L[i][k] * L[j][k] for k in range(dim)) * scale for j in range(dim)] for i in range(dim)]
    vals = []
    for i in range(dim):
        for j in range(i, min(dim, i + band + 1)):
            vals.append(C[i][j])
    return {"dim": dim, "band": band, "vals": vals}


def make_points(rng, n, lat, lon, size):
    b0, l0 = math.radians(lat), math.radians(lon)
    c = blh2xyz(b0, l0, rng.uniform(0, 800))
    R = frame(b0, l0)
    pts = []
    for k in range(n):
        ang = 2 * math.pi * (k + rng.uniform(-0.3, 0.3)) / n
        rad = size * rng.uniform(0.35, 1.0)
        off = [rad * math.cos(ang), rad * math.sin(ang), rng.uniform(-0.05, 0.05) * size + rng.uniform(-300, 300)]
        if k == 0 and abs(lat) == 90.0:
            off = [0.0, 0.0, off[2]]                       # a point exactly on the rotation axis
        d = rot(R, off)
        t = [round(c[i] + d[i], 4) for i in range(3)]
        if k == 0 and abs(lat) == 90.0:
            t[0] = t[1] = 0.0
        pts.append({"id": "P%d" % (k + 1) if rng.random() < 0.7 else "%c%d" % (rng.choice("QAZk"), k + 1),
                    "true": t, "given": None, "h": "free", "u": "free", "geoid": None})
    ids = set()
    for k, p in enumerate(pts):
        while p["id"] in ids:
            p["id"] += "x"
        ids.add(p["id"])
    return pts


def displace(rng, p, amp):
    """approximate coordinates: the generating point moved along its non-fixed n/e/u components"""
    b, l, _ = xyz2blh(*p["true"])
    R = frame(b, l)
    d = [0.0, 0.0, 0.0]
    if p["h"] != "fixed":
        d[0], d[1] = rng.uniform(-amp, amp), rng.uniform(-amp, amp)
    if p["u"] != "fixed":
        d[2] = rng.uniform(-amp, amp)
    v = rot(R, d)
    p["given"] = [round(p["true"][i] - v[i], 5) for i in range(3)]
    if p["h"] == "fixed" or p["u"] == "fixed":
        # keep the displacement exactly inside the free components of the frame at the *given* position
        p["given"] = [p["true"][i] - v[i] for i in range(3)]


def vec_cluster(rng, pts, pairs, sd):
    obs = [{"t": "vector", "from": pts[i]["id"], "to": pts[j]["id"], "d": sub(pts[j]["true"], pts[i]["true"])}
           for i, j in pairs]
    dim = 3 * len(obs)
    band = rng.choice([0, 2, dim - 1, dim - 1]) if dim > 3 else rng.choice([0, 1, 2, 2])
    return {"obs": obs, "cov": spd(rng, dim, min(band, dim - 1), rng.choice([1.0, 4.0, 0.01]) * sd)}


def tree_and_chords(rng, n, extra):
    order = list(range(n))
    rng.shuffle(order)
    pairs = []
    for k in range(1, n):
        a, b = order[rng.randrange(k)], order[k]
        pairs.append((a, b) if rng.random() < 0.5 else (b, a))
    for _ in range(extra):
        a, b = rng.sample(range(n), 2)
        pairs.append((a, b))
    return pairs


def gen_network(rng, family=None):
    family = family or rng.choice(["vec-fixed", "vec-fixed", "vec-xyz", "vec-constr-exact", "vec-constr-shape",
                                   "vec-mixed", "vec-dist-height", "dist-height", "vec-angle"])
    cname, lat, lon = pick_center(rng)
    n = rng.randint(3, 7)
    size = 10 ** rng.uniform(2.7, 4.3)
    sd = rng.choice([1.0, 10.0, 2.5])
    pts = make_points(rng, n, lat, lon, size)
    clusters = []
    exact = True
    amp = 0.25      # |rhs| of a vector stays below tol-abs = 1 m (2 * sqrt(3) * 0.25 = 0.87)
    pairs = tree_and_chords(rng, n, rng.randint(1, n))
    # vectors: one cluster per vector, or a few multi-vector clusters with one covariance matrix
    def add_vectors(pairs):
        i = 0
        while i < len(pairs):
            k = 1 if rng.random() < 0.6 else rng.randint(2, 3)
            clusters.append(vec_cluster(rng, pts, pairs[i:i + k], sd))
            i += k
    if family == "vec-fixed":
        for p in rng.sample(pts, rng.randint(1, 2)):
            p["h"] = p["u"] = "fixed"
        add_vectors(pairs)
    elif family == "vec-xyz":
        add_vectors(pairs)
        chosen = rng.sample(pts, rng.randint(1, 2))
        obs = [{"t": "xyz", "id": p["id"], "v": list(p["true"])} for p in chosen]
        dim = 3 * len(obs)
        clusters.append({"obs": obs, "cov": spd(rng, dim, rng.choice([0, 2, dim - 1]), sd)})
    elif family in ("vec-constr-exact", "vec-constr-shape"):
        con = rng.sample(pts, rng.randint(1, n))
        for p in con:
            p["h"] = p["u"] = "constr"
        add_vectors(pairs)
        exact = family == "vec-constr-exact"
    elif family == "vec-mixed":
        a, b = rng.sample(pts, 2)
        a["h"] = "fixed"
        b["u"] = "fixed"
        for p in pts:
            if p is not a and p is not b and rng.random() < 0.3:
                p["h"] = "constr" if rng.random() < 0.5 else "free"
        add_vectors(pairs)
    elif family in ("vec-dist-height", "vec-angle"):
        amp = 0.002
        for p in rng.sample(pts, rng.randint(1, 2)):
            p["h"] = p["u"] = "fixed"
        add_vectors(pairs)
        for p in pts:
            p["geoid"] = round(rng.uniform(-50, 50), 3)
        for _ in range(rng.randint(1, 4)):
            i, j = rng.sample(range(n), 2)
            clusters.append({"obs": [{"t": "distance", "from": pts[i]["id"], "to": pts[j]["id"],
                                      "v": norm(sub(pts[j]["true"], pts[i]["true"]))}],
                             "cov": spd(rng, 1, 0, 25.0)})
        hs = []
        for p in rng.sample(pts, rng.randint(1, n)):
            hs.append({"t": "height", "id": p["id"], "v": xyz2blh(*p["true"])[2] - p["geoid"]})
        for _ in range(rng.randint(0, 3)):
            i, j = rng.sample(range(n), 2)
            hs.append({"t": "hdiff", "from": pts[i]["id"], "to": pts[j]["id"],
                       "v": (xyz2blh(*pts[j]["true"])[2] - pts[j]["geoid"]) - (xyz2blh(*pts[i]["true"])[2] - pts[i]["geoid"])})
        rng.shuffle(hs)
        clusters.append({"obs": hs, "cov": spd(rng, len(hs), rng.choice([0, min(1, len(hs) - 1)]), 4.0)})
        if family == "vec-angle":
            for _ in range(rng.randint(1, 3)):
                i, j, k = rng.sample(range(n), 3)
                sa = signed_angle(pts[i]["true"], pts[j]["true"], pts[k]["true"])
                if sa > math.pi:
                    # g3 compares the observed value with acos(...) in [0, 200 gon]: an angle above 200 gon
                    # cannot be expressed (finding C19-G4); generate the supported orientation only
                    j, k = k, j
                    sa = 2 * math.pi - sa
                if sa < 0.15 or sa > math.pi - 0.15:
                    continue
                ang = {"t": "angle", "from": pts[i]["id"], "left": pts[j]["id"], "right": pts[k]["id"]}
                f, l, r = pts[i]["true"], pts[j]["true"], pts[k]["true"]
                if rng.random() < 0.6:
                    # instrument / target heights (<from-dh>, <left-dh>, <right-dh>): every point is raised along its
                    # own ellipsoid normal; the targets' normals are tilted by distance / R against the station's
                    # vertical, so a target height moves the target horizontally as the station sees it
                    ang["dh"] = [round(rng.uniform(0, 2), 3), round(rng.choice([rng.uniform(0, 3), rng.uniform(5, 25)]), 3),
                                 round(rng.choice([rng.uniform(0, 3), rng.uniform(5, 25)]), 3)]
                    f, l, r = raised(f, ang["dh"][0]), raised(l, ang["dh"][1]), raised(r, ang["dh"][2])
                ang["v"] = horiz_angle(f, l, r) * GON
                clusters.append({"obs": [ang], "cov": spd(rng, 1, 0, 100.0)})
    elif family == "dist-height":
        amp = 0.002
        n = max(n, 5)
        pts = make_points(rng, n, lat, lon, size)
        for p in pts:
            p["geoid"] = round(rng.uniform(-50, 50), 3)
        free = pts[-1]
        for p in pts[:-1]:
            p["h"] = p["u"] = "fixed"
        obs = [{"t": "distance", "from": p["id"], "to": free["id"], "v": norm(sub(free["true"], p["true"]))} for p in pts[:-1]]
        for o in obs:
            if rng.random() < 0.5:
                o["from"], o["to"] = o["to"], o["from"]
        clusters.append({"obs": obs, "cov": spd(rng, len(obs), rng.choice([0, 1]), 9.0)})
        clusters.append({"obs": [{"t": "height", "id": free["id"], "v": xyz2blh(*free["true"])[2] - free["geoid"]}],
                         "cov": spd(rng, 1, 0, 1.0)})
    for p in pts:
        if p["h"] == "fixed" and p["u"] == "fixed":
            p["given"] = list(p["true"])
        elif family == "vec-constr-exact" and p["h"] == "constr":
            p["given"] = list(p["true"])
        else:
            displace(rng, p, amp)
    rng.shuffle(clusters)
    return {"family": family, "center": [lat, lon], "center_kind": cname, "sd": sd, "points": pts,
            "clusters": clusters, "exact": exact}


# --------------------------------------------------------------------------- XML

def point_xml(p):
    s = "<point> <id>%s</id> " % p["id"]
    if p["given"] is not None:
        s += "<x>%s</x> <y>%s</y> <z>%s</z> " % tuple(r17(v) for v in p["given"])
    if p["geoid"] is not None:
        s += "<geoid>%s</geoid> " % r17(p["geoid"])
    s += "<%s><n/><e/></%s> <%s><u/></%s> </point>" % (p["h"], p["h"], p["u"], p["u"])
    return s


def obs_xml(o):
    t = o["t"]
    if t == "vector":
        return "<vector> <from>%s</from> <to>%s</to> <dx>%s</dx> <dy>%s</dy> <dz>%s</dz> </vector>" % (
            o["from"], o["to"], r17(o["d"][0]), r17(o["d"][1]), r17(o["d"][2]))
    if t == "xyz":
        return "<xyz> <id>%s</id> <x>%s</x> <y>%s</y> <z>%s</z> </xyz>" % (o["id"], r17(o["v"][0]), r17(o["v"][1]), r17(o["v"][2]))
    if t == "distance":
        return "<distance> <from>%s</from> <to>%s</to> <val>%s</val> </distance>" % (o["from"], o["to"], r17(o["v"]))
    if t == "height":
        return "<height> <id>%s</id> <val>%s</val> </height>" % (o["id"], r17(o["v"]))
    if t == "hdiff":
        return "<hdiff> <from>%s</from> <to>%s</to> <val>%s</val> </hdiff>" % (o["from"], o["to"], r17(o["v"]))
    if t == "angle":
        dh = ""
        if o.get("dh"):
            dh = " <from-dh>%s</from-dh> <left-dh>%s</left-dh> <right-dh>%s</right-dh>" % tuple(r17(x) for x in o["dh"])
        return "<angle> <from>%s</from> <left>%s</left> <right>%s</right> <val>%s</val>%s </angle>" % (
            o["from"], o["left"], o["right"], r17(o["v"]), dh)
    raise ValueError(t)


def cluster_xml(c):
    cov = c["cov"]
    return ("<obs> " + " ".join(obs_xml(o) for o in c["obs"]) +
            " <cov-mat> <dim>%d</dim> <band>%d</band> %s </cov-mat> </obs>" % (
                cov["dim"], cov["band"], " ".join("<flt>%s</flt>" % r17(v) for v in cov["vals"])))


def to_xml(net, point_order=None, cluster_order=None, newline=" "):
    pts = net["points"] if point_order is None else [net["points"][i] for i in point_order]
    cls = net["clusters"] if cluster_order is None else [net["clusters"][i] for i in cluster_order]
    parts = ['<?xml version="1.0" ?>', '<gnu-gama-data xmlns="http://www.gnu.org/software/gama/gnu-gama-data">',
             "<g3-model>", "<constants> <apriori-standard-deviation>%s</apriori-standard-deviation> "
             "<ellipsoid> <id>wgs84</id> </ellipsoid> </constants>" % r17(net["sd"])]
    parts += [point_xml(p) for p in pts]
    parts += [cluster_xml(c) for c in cls]
    parts += ["</g3-model>", "</gnu-gama-data>"]
    return newline.join(parts)


# --------------------------------------------------------------------------- reference bookkeeping

def dim_of(o):
    return 3 if o["t"] in ("vector", "xyz") else 1


def touched(o):
    t = o["t"]
    if t in ("vector", "distance"):
        return [(o["from"], c) for c in "neu"] + [(o["to"], c) for c in "neu"]
    if t == "xyz":
        return [(o["id"], c) for c in "neu"]
    if t == "height":
        return [(o["id"], "u")]
    if t == "hdiff":
        return [(o["from"], "u"), (o["to"], "u")]
    if t == "angle":
        return [(o[k], c) for k in ("from", "left", "right") for c in "neu"]
    raise ValueError(t)


def design(net):
    """independent Jacobian (rows = observations, columns = adjusted n/e/u components that occur),
    evaluated at the generating coordinates; angles by central differences"""
    P = {p["id"]: p for p in net["points"]}
    F = {i: frame(*xyz2blh(*p["true"])[:2]) for i, p in P.items()}
    cols = {}
    for c in net["clusters"]:
        for o in c["obs"]:
            for (i, k) in touched(o):
                st = P[i]["h"] if k in "ne" else P[i]["u"]
                if st != "fixed" and (i, k) not in cols:
                    cols[(i, k)] = len(cols)
    rows = []

    def put(row, i, grad_xyz):
        g = rot_t(F[i], grad_xyz)
        for k, c in enumerate("neu"):
            if (i, c) in cols:
                row[cols[(i, c)]] += g[k]
    for c in net["clusters"]:
        for o in c["obs"]:
            t = o["t"]
            if t in ("vector", "xyz"):
                for a in range(3):
                    e = [0.0, 0.0, 0.0]
                    e[a] = 1.0
                    row = [0.0] * len(cols)
                    if t == "vector":
                        put(row, o["to"], e)
                        put(row, o["from"], [-v for v in e])
                    else:
                        put(row, o["id"], e)
                    rows.append(row)
            elif t == "distance":
                d = sub(P[o["to"]]["true"], P[o["from"]]["true"])
                u = [v / norm(d) for v in d]
                row = [0.0] * len(cols)
                put(row, o["to"], u)
                put(row, o["from"], [-v for v in u])
                rows.append(row)
            elif t == "height":
                row = [0.0] * len(cols)
                if (o["id"], "u") in cols:
                    row[cols[(o["id"], "u")]] = 1.0
                rows.append(row)
            elif t == "hdiff":
                row = [0.0] * len(cols)
                if (o["to"], "u") in cols:
                    row[cols[(o["to"], "u")]] += 1.0
                if (o["from"], "u") in cols:
                    row[cols[(o["from"], "u")]] -= 1.0
                rows.append(row)
            elif t == "angle":
                row = [0.0] * len(cols)
                names = [o["from"], o["left"], o["right"]]
                base = [list(P[i]["true"]) for i in names]
                for w, i in enumerate(names):
                    for k, cc in enumerate("neu"):
                        if (i, cc) not in cols:
                            continue
                        step = rot(F[i], [1.0 if q == k else 0.0 for q in range(3)])
                        hi = [list(b) for b in base]
                        lo = [list(b) for b in base]
                        for q in range(3):
                            hi[w][q] += 0.5 * step[q]
                            lo[w][q] -= 0.5 * step[q]
                        row[cols[(i, cc)]] += horiz_angle(*hi) - horiz_angle(*lo)
                rows.append([v * 1e3 for v in row])
    return rows, cols


def rank(rows, tol=1e-7):
    a = [list(r) for r in rows]
    if not a or not a[0]:
        return 0
    m, n = len(a), len(a[0])
    scale = max(max(abs(v) for v in r) for r in a) or 1.0
    rk, used = 0, set()
    for col in range(n):
        piv, best = None, tol * scale
        for r in range(m):
            if r not in used and abs(a[r][col]) > best:
                piv, best = r, abs(a[r][col])
        if piv is None:
            continue
        used.add(piv)
        rk += 1
        for r in range(m):
            if r != piv and a[r][col] != 0.0:
                f = a[r][col] / a[piv][col]
                for c in range(col, n):
                    a[r][c] -= f * a[piv][c]
    return rk


def expected_stats(net):
    rows, cols = design(net)
    m, n = len(rows), len(cols)
    # rank by eliminating on the better conditioned side
    rk = rank([list(c) for c in zip(*rows)]) if rows else 0
    return {"equations": m, "parameters": n, "defect": n - rk, "redundancy": m - n + (n - rk)}


if __name__ == "__main__":
    import random
    import sys
    rng = random.Random(sys.argv[1] if len(sys.argv) > 1 else "1")
    net = gen_network(rng, sys.argv[2] if len(sys.argv) > 2 else None)
    sys.stderr.write("%s %s %s\n" % (net["family"], net["center_kind"], expected_stats(net)))
    print(to_xml(net, newline="\n"))
