#!/usr/bin/env python3
"""
Translator for C12 (cross-format clause):  the four writers of one adjustment  ->  lean/Gama/Gen/FormatSites.lean

  xml     lib/gnu_gama/xml/localnetworkxml.cpp      (coordinates, orientation_shifts, WriteXMLVisitor::visit, observations)
  text    lib/gnu_gama/local/results/text/{fixed_points,adjusted_unknowns,adjusted_observations,residuals_observations}.h
  html    lib/gnu_gama/local/html.cpp               (htmlUnknowns, HtmlAdjustedObservationsVisitor, HtmlAdjustedResidualsVisitor)
  octave  lib/gnu_gama/xml/localnetworkoctave.cpp   (FixedXYZ, XYZ_0, XYZ, C_xx)

For every reported quantity of a point (fixed / approximate / adjusted x y z, standard deviation, confidence half-width,
covariance), of an orientation (approximate, adjusted, standard deviation, confidence) and of an adjusted observation of each
of the 13 kinds (observed, adjusted, standard deviation, confidence, residual, f, studentized residual, the two error
estimates) the function that prints it is executed SYMBOLICALLY:

  * statements are parsed by the C++-subset parser of c12_skeleton.py; declarations `T v = e`, assignments `v = e`,
    `v += e`, `v -= e`, `v *= e`, `v /= e` update a symbolic environment; loops are executed once; an `if` whose condition is
    decided by the configuration (observation kind through `dynamic_cast<T*>`, `gons()`, `y_sign() == -1.0`) takes that
    branch; `if (v < 0) v += 400` / `if (v >= 400) v -= 400` are recorded as the wrap signature of `v`; any other `if` is
    taken (both arms when there is an `else`) but must not update a numeric variable (else the translator STOPS);
  * an operand streamed with `<<`, through `tdRight(e, …)`, `tagsp(out, t, e)`, `tagnl(out, t, e)` is recorded with its raw
    text, its symbolic value at that point (local variables substituted: an expression over ACCESSOR atoms such as
    `net.solve()(pt.index_y())`, `obs.value()`, `net.stdev_obs(i)`, integer literals, `1/literal`), its wrap signature and
    whether it is displayed through `gon2deg`;
  * the table SPEC below says which recorded operand of which function is which quantity (by raw text + occurrence, or by
    position among the numeric operands of a visit method).  A quantity that is no longer found STOPS the translator.

Configurations: observation kind x angular unit (gons / degrees) x y_sign (+1 / -1).  `y_sign` is replaced by the literal of
the configuration (so `if (y_sign == -1) val *= -1` and `val*y_sign` are the same polynomial), `gons() ? 1.0 : 0.324` by 1 or
the atom `0.324`.  gama-local writes XML and Octave after `IS->set_gons()`: they take part in the gons configurations only;
the XML writer evaluated in the degrees configuration (a library caller) is emitted separately (`xmlDegrees`).

The Lean side normalises the expressions as polynomials over the atoms (`canon`) and decides, group by group, that all formats
print the same polynomial with the same wrap signature (`C12_formats_agree`); `canon_sound` gives that meaning: equal normal
forms evaluate equally in every commutative ring for every valuation of the accessors.
"""
import re
import sys
from pathlib import Path

sys.path.insert(0, str(Path(__file__).resolve().parent))
import c12_sites as S        # noqa: E402
import c12_skeleton as SK    # noqa: E402


class FormatsError(S.SitesError):
    pass


KINDS = [("distance", "Distance"), ("direction", "Direction"), ("angle", "Angle"), ("height-diff", "H_Diff"),
         ("slope-distance", "S_Distance"), ("zenith-angle", "Z_Angle"), ("coordinate-x", "X"), ("coordinate-y", "Y"),
         ("coordinate-z", "Z"), ("dx", "Xdiff"), ("dy", "Ydiff"), ("dz", "Zdiff"), ("azimuth", "Azimuth")]

NET_NAMES = ("IS", "lnet", "netinfo")


class Cfg:
    def __init__(self, gons, ysneg, kind=None):
        self.gons, self.ysneg, self.kind = gons, ysneg, kind

    def name(self):
        return ("gon" if self.gons else "deg") + ("/y-" if self.ysneg else "/y+")


# ------------------------------------------------------------------ expressions

TOK = re.compile(r"\s*(?:(\d+\.\d*(?:[eE][-+]?\d+)?|\.\d+|\d+(?:[eE][-+]?\d+)?)|([A-Za-z_]\w*(?:::[A-Za-z_]\w*)*)|(->|==|!=|<=|>=|&&|\|\||[-+*/().,\[\]?:<>!&]))")


def tokenize(s):
    out, i = [], 0
    s = s.strip()
    while i < len(s):
        m = TOK.match(s, i)
        if not m or m.end() == i:
            raise FormatsError(f"cannot tokenise expression: {s[i:i + 30]!r}")
        if m.group(1) is not None:
            out.append(("num", m.group(1)))
        elif m.group(2) is not None:
            out.append(("id", m.group(2)))
        else:
            out.append(("op", m.group(3)))
        i = m.end()
    return out


def num_node(text):
    """integer-valued literals become ("lit", n); other literals an atom named by their text"""
    try:
        v = float(text)
    except ValueError:
        raise FormatsError(f"bad literal {text}")
    if v == int(v) and abs(v) < 10 ** 9 and not re.search(r"[eE]", text):
        return ("lit", int(v))
    return ("atom", text)


class EParser:
    """precedence climbing for the arithmetic subset; everything else (calls, member chains) becomes an accessor atom"""

    def __init__(self, toks, env, cfg):
        self.t, self.i, self.env, self.cfg = toks, 0, env, cfg

    def peek(self):
        return self.t[self.i] if self.i < len(self.t) else (None, None)

    def eat(self, kind=None, val=None):
        k, v = self.peek()
        if k is None or (kind and k != kind) or (val is not None and v != val):
            raise FormatsError(f"expression: expected {val or kind}, got {v!r}")
        self.i += 1
        return v

    def parse(self):
        e = self.ternary()
        if self.i != len(self.t):
            raise FormatsError(f"expression: trailing tokens {self.t[self.i:][:4]}")
        return e

    def ternary(self):
        # cond ? a : b  -- the condition is re-read as text and decided by the configuration
        start = self.i
        depth = 0
        q = None
        for j in range(self.i, len(self.t)):
            k, v = self.t[j]
            if k == "op" and v in "([":
                depth += 1
            elif k == "op" and v in ")]":
                depth -= 1
                if depth < 0:
                    break
            elif k == "op" and v == "?" and depth == 0:
                q = j
                break
            elif k == "op" and v == "," and depth == 0:
                break
        if q is None:
            return self.additive()
        cond_text = " ".join(v for _, v in self.t[start:q]).replace(" ( ", "(").replace(" ) ", ")")
        cond_text = untok(self.t[start:q])
        self.i = q + 1
        a = self.ternary()
        self.eat("op", ":")
        b = self.ternary()
        c = cond_eval(cond_text, self.cfg)
        if c is None:
            raise FormatsError(f"conditional expression not decided by the configuration: {cond_text}")
        return a if c else b

    def additive(self):
        e = self.term()
        while self.peek() in (("op", "+"), ("op", "-")):
            op = self.eat()
            r = self.term()
            e = ("add", e, r) if op == "+" else ("sub", e, r)
        return e

    def term(self):
        e = self.unary()
        while self.peek() in (("op", "*"), ("op", "/")):
            op = self.eat()
            r = self.unary()
            e = ("mul", e, r) if op == "*" else ("div", e, r)
        return e

    def unary(self):
        if self.peek() == ("op", "-"):
            self.eat()
            return ("neg", self.unary())
        if self.peek() == ("op", "+"):
            self.eat()
            return self.unary()
        return self.postfix()

    def args(self):
        """after '(' : list of argument expressions, consumes ')'"""
        out = []
        if self.peek() == ("op", ")"):
            self.eat()
            return out
        while True:
            out.append(self.ternary())
            if self.peek() == ("op", ","):
                self.eat()
                continue
            self.eat("op", ")")
            return out

    def postfix(self):
        k, v = self.peek()
        if k == "num":
            self.eat()
            return num_node(v)
        if k == "op" and v == "(":
            self.eat()
            e = self.ternary()
            self.eat("op", ")")
            base = e
        elif k == "id":
            self.eat()
            name = v.replace("GNU_gama::local::", "").replace("GNU_gama::", "").replace("std::", "")
            if name in ("int", "double", "float") and self.peek() == ("op", "("):
                self.eat()
                a = self.args()
                if len(a) != 1:
                    raise FormatsError("cast with several arguments")
                base = a[0]
            elif name in ("fabs", "abs") and self.peek() == ("op", "("):
                self.eat()
                a = self.args()
                base = ("atom", "abs(" + ",".join(show(x) for x in a) + ")")
            elif name == "gon2deg" and self.peek() == ("op", "("):
                self.eat()
                a = self.args()
                base = ("disp", a[0])
            elif name in self.env:
                base = self.env[name]
            elif name in NET_NAMES:
                base = ("atom", "net")
            else:
                base = ("atom", name)
        else:
            raise FormatsError(f"expression: unexpected {v!r}")
        # member / call / index chain: only on an atom
        while self.peek()[0] == "op" and self.peek()[1] in ("(", "->", ".", "["):
            op = self.eat()
            if base[0] != "atom":
                raise FormatsError(f"member / call on a non-accessor expression {show(base)}")
            if op == "(":
                a = self.args()
                base = ("atom", base[1] + "(" + ",".join(show(x) for x in a) + ")")
            elif op == "[":
                e = self.ternary()
                self.eat("op", "]")
                base = ("atom", base[1] + "[" + show(e) + "]")
            else:
                m = self.eat("id")
                base = ("atom", base[1] + "." + m)
        return base


def untok(toks):
    out = ""
    for k, v in toks:
        if out and (out[-1].isalnum() or out[-1] == "_") and (v[0].isalnum() or v[0] == "_"):
            out += " "
        out += v
    return out


def show(e):
    """canonical text of an expression (used for accessor arguments and denominators)"""
    k = e[0]
    if k == "atom":
        return e[1]
    if k == "lit":
        return str(e[1])
    if k == "neg":
        return "-(" + show(e[1]) + ")"
    if k == "disp":
        return "gon2deg(" + show(e[1]) + ")"
    if k in ("add", "sub", "mul", "div"):
        return "(" + show(e[1]) + {"add": "+", "sub": "-", "mul": "*", "div": "/"}[k] + show(e[2]) + ")"
    raise FormatsError(f"show {e}")


def parse_expr(text, env, cfg):
    return EParser(tokenize(text), env, cfg).parse()


# ------------------------------------------------------------------ conditions

def cond_eval(text, cfg):
    """True / False when the configuration decides the condition, None otherwise"""
    t = text.strip()
    while t.startswith("(") and SK.match_close(t, 0, "(", ")") == len(t) - 1:
        t = t[1:-1].strip()
    parts = SK.split_top(t, "||")
    if len(parts) > 1:
        vals = [cond_eval(p, cfg) for p in parts]
        if any(v is True for v in vals):
            return True
        return False if all(v is False for v in vals) else None
    parts = SK.split_top(t, "&&")
    if len(parts) > 1:
        vals = [cond_eval(p, cfg) for p in parts]
        if any(v is False for v in vals):
            return False
        return True if all(v is True for v in vals) else None
    if t.startswith("!"):
        v = cond_eval(t[1:], cfg)
        return None if v is None else (not v)
    m = re.search(r"dynamic_cast\s*<\s*(?:const\s+)?(?:GNU_gama::local::)?(\w+)\s*\*\s*>", t)
    if m:
        if cfg.kind is None:
            return None
        return m.group(1) == cfg.kind
    if re.fullmatch(r"(?:IS|lnet|netinfo)\s*->\s*gons\s*\(\s*\)", t):
        return cfg.gons
    if re.fullmatch(r"(?:IS|lnet|netinfo)\s*->\s*degrees\s*\(\s*\)", t):
        return not cfg.gons
    if re.fullmatch(r"(?:IS|lnet|netinfo)\s*->\s*y_sign\s*\(\s*\)\s*==\s*-\s*1(?:\.0*)?", t):
        return cfg.ysneg
    return None


class LParser(SK.Parser):
    """the statement parser of c12_skeleton.py, lenient: `return`, `do … while`, `try … catch` are accepted (the text
    writers are ordinary functions, not only stream code)"""

    def stmts(self):
        out = []
        while not self.at_end():
            out.append(self.stmt())
        return out

    def stmt(self):
        self.ws()
        t = self.t
        if t[self.i] == "{":
            j = SK.match_close(t, self.i, "{", "}")
            inner = LParser(t[self.i + 1:j]).stmts()
            self.i = j + 1
            return ("block", inner)
        if t[self.i] == ";":
            self.i += 1
            return ("simple", "")
        if self.kw("if"):
            self.i += 2
            cond = self.parens()
            a = self.stmt()
            b = None
            if self.kw("else"):
                self.i += 4
                b = self.stmt()
            return ("if", cond, a, b)
        for w in ("for", "while"):
            if self.kw(w):
                self.i += len(w)
                self.parens()
                return ("loop", self.stmt())
        if self.kw("do"):
            self.i += 2
            body = self.stmt()
            self.ws()
            if self.kw("while"):
                self.i += 5
                self.parens()
                self.ws()
                if self.i < len(t) and t[self.i] == ";":
                    self.i += 1
            return ("loop", body)
        if self.kw("try"):
            self.i += 3
            body = self.stmt()
            while self.kw("catch"):
                self.i += 5
                self.parens()
                self.stmt()
            return body
        if self.kw("switch"):
            self.i += 6
            self.parens()
            self.ws()
            j = SK.match_close(t, self.i, "{", "}")
            self.i = j + 1
            return ("switch", [])
        for w in ("class", "struct"):
            if self.kw(w):
                j = t.index("{", self.i)
                k = SK.match_close(t, j, "{", "}")
                self.i = t.index(";", k) + 1
                return ("class", t[j:k])
        i, n = self.i, len(t)
        depth = 0
        while i < n:
            c = t[i]
            if c in "\"'":
                q = c
                i += 1
                while i < n and t[i] != q:
                    if t[i] == "\\":
                        i += 1
                    i += 1
            elif c in "([{":
                depth += 1
            elif c in ")]}":
                depth -= 1
            elif c == ";" and depth == 0:
                break
            i += 1
        st = SK.squeeze(t[self.i:i])
        self.i = i + 1
        return ("simple", st)


# ------------------------------------------------------------------ symbolic execution

DECL = re.compile(r"^(?:static\s+)?(?:const\s+)?(?:unsigned\s+)?[A-Za-z_][\w:]*(?:<[^=;]*>)?(?:\s*const)?\s*[&*]?\s*\b([A-Za-z_]\w*)\s*(?:=\s*(.+)|\{(.*)\})$", re.S)
ASSIGN = re.compile(r"^([A-Za-z_]\w*)\s*([-+*/]?)=(?!=)\s*(.+)$", re.S)
WRAP_COND = re.compile(r"^\s*([A-Za-z_]\w*)\s*(<|>=|>)\s*(0|400)\s*$")
SKIP_OPERAND = re.compile(r'^(?:"|\'|T_\w+\b|Utf8::|underline\(|std::endl$|endl$|setw\(|std::setw\(|setprecision\(|'
                          r'std::setprecision\(|fixed$|scientific$|std::fixed$|std::scientific$|tdSpace\(|tdLeft\(|.*str2xml\()')
STREAM_HEAD = re.compile(r"^(\*?\s*[A-Za-z_][\w:]*)\s*<<")


class Site:
    def __init__(self, raw, value, wrap, stream):
        self.raw, self.value, self.wrap, self.stream = raw, value, wrap, stream
        self.disp = False


class Exec:
    def __init__(self, cfg, env=None, textual=None, scoped=None, where="", assume=()):
        self.cfg, self.env = cfg, dict(env or {})
        self.assume = set(assume)
        self.pinned = set()
        self.wraps = {}
        self.sites = []
        self.textual = textual or []
        self.scoped = scoped or {}
        self.where = where

    # -- helpers
    def alias(self, s):
        for pat, rep in self.textual:
            s = re.sub(pat, rep, s)
        return s

    def expr(self, text):
        return parse_expr(self.alias(text), self.env, self.cfg)

    def try_expr(self, text, name):
        try:
            return self.expr(text)
        except (FormatsError, S.SitesError):
            return ("atom", "?" + name)

    def record(self, raw, stream):
        raw = raw.strip()
        araw = self.alias(raw)
        try:
            val = parse_expr(araw, self.env, self.cfg)
        except (FormatsError, S.SitesError):
            val = ("atom", "?unparsed:" + SK.squeeze(araw))
        st = Site(SK.squeeze(araw), val, "", stream)
        if val[0] == "disp":
            st.disp, st.value = True, val[1]
            m = re.search(r"gon2deg\s*\((.*)\)\s*$", araw, re.S)
            if m:
                st.raw = SK.squeeze(SK.split_top(m.group(1), ",")[0])
        m = re.fullmatch(r"[A-Za-z_]\w*", st.raw)
        if m:
            st.wrap = " ".join(self.wraps.get(st.raw, []))
        self.sites.append(st)

    def numeric_updates(self, stmts):
        """variables of the numeric environment this statement list assigns to"""
        out = set()
        for s in stmts:
            if s is None:
                continue
            if s[0] == "simple":
                m = ASSIGN.match(s[1])
                if m and m.group(1) in self.env and not DECL.match(s[1]):
                    out.add(m.group(1))
                m2 = re.match(r"^(?:\+\+|--)\s*([A-Za-z_]\w*)$|^([A-Za-z_]\w*)\s*(?:\+\+|--)$", s[1])
                if m2 and (m2.group(1) or m2.group(2)) in self.env:
                    out.add(m2.group(1) or m2.group(2))
            elif s[0] == "block":
                out |= self.numeric_updates(s[1])
            elif s[0] == "if":
                out |= self.numeric_updates([s[2], s[3]])
            elif s[0] == "loop":
                out |= self.numeric_updates([s[1]])
        return out

    # -- statements
    def run(self, stmts):
        for s in stmts:
            self.stmt(s)

    def stmt(self, s):
        k = s[0]
        if k == "block":
            self.run(s[1])
        elif k == "loop":
            self.stmt(s[1])
        elif k in ("switch", "class"):
            return
        elif k == "if":
            self.if_(s)
        elif k == "simple":
            self.simple(s[1])

    def if_(self, s):
        _, cond, a, b = s
        sq = SK.squeeze(cond)
        for key, add in self.scoped.items():
            if key == sq:
                saved, saved_pinned = dict(self.env), set(self.pinned)
                for n, v in add.items():
                    self.env[n] = ("atom", v)
                    self.pinned.add(n)
                self.stmt(a)
                self.env, self.pinned = saved, saved_pinned
                return
        c = True if sq in self.assume else cond_eval(cond, self.cfg)
        if c is True:
            self.stmt(a)
            return
        if c is False:
            if b is not None:
                self.stmt(b)
            return
        # wrap into [0, 400)
        m = WRAP_COND.match(cond)
        body = a[1] if a[0] == "simple" else (a[1][0][1] if a[0] == "block" and len(a[1]) == 1 and a[1][0][0] == "simple" else None)
        if m and b is None and body is not None:
            mm = re.fullmatch(rf"{m.group(1)}\s*([-+])=\s*400", body)
            if mm and m.group(1) in self.env:
                self.wraps.setdefault(m.group(1), []).append(f"{m.group(2)}{m.group(3)}:{mm.group(1)}400")
                return
        # `if (...) continue;` : the iteration that prints is the one that does not leave
        if a[0] == "simple" and a[1] in ("continue", "break", "return") and b is None:
            return
        upd = self.numeric_updates([a, b])
        self.stmt(a)
        if b is not None:
            self.stmt(b)
        # a numeric variable updated under a condition the configuration does not decide is unknown from here on:
        # a quantity that depends on it stops the translator (see `lower`)
        for name in upd - self.pinned:
            self.env[name] = ("atom", f"?{name} is updated under `if ({sq})`, which the configuration does not decide")

    def simple(self, s):
        if not s:
            return
        if s in ("continue", "break") or s.startswith("return") or s.startswith("using "):
            return
        m = STREAM_HEAD.match(s)
        if m and not s.startswith("std::string"):
            stream = m.group(1).replace(" ", "")
            ops = SK.split_top(s, "<<")[1:]
            for op in ops:
                self.operand(op, stream)
            return
        m = re.match(r"^tag(?:sp|nl)\s*\(\s*out\s*,(.*)\)$", s, re.S)
        if m:
            parts = SK.split_top(m.group(1), ",")
            if len(parts) == 2:
                self.record(parts[1], "out")
            return
        md = re.match(r"^(?:const\s+)?(?:double|int|float)\s+(.+)$", s, re.S)
        if md and len(SK.split_top(md.group(1), ",")) > 1:
            for d in SK.split_top(md.group(1), ","):
                self.simple("double " + d)
            return
        m = DECL.match(s)
        if m and not re.match(r"^(return|delete|else)\b", s):
            name, rhs = m.group(1), (m.group(2) if m.group(2) is not None else m.group(3))
            if name in self.pinned:
                return
            if rhs is not None and rhs.strip()[:1] in ('"', "'"):
                self.env.pop(name, None)        # a string / character variable: not numeric
                return
            if rhs is None or rhs.strip() == "":
                self.env[name] = ("lit", 0)
            else:
                self.env[name] = self.try_expr(rhs, name)
            self.wraps.pop(name, None)
            return
        m = ASSIGN.match(s)
        if m and m.group(1) in self.env and m.group(1) not in self.pinned:
            name, op, rhs = m.group(1), m.group(2), m.group(3)
            r = self.try_expr(rhs, name)
            old = self.env[name]
            self.env[name] = {"": r, "+": ("add", old, r), "-": ("sub", old, r), "*": ("mul", old, r), "/": ("div", old, r)}[op]
            if op == "":
                self.wraps.pop(name, None)
            return
        # anything else (calls, width/precision settings, ++k, …) does not print a number we track

    def operand(self, op, stream):
        op = op.strip()
        if not op:
            return
        # HTML: tdRight(e, …) cells, possibly several per streamed operand
        if "tdRight(" in op:
            i = 0
            while True:
                j = op.find("tdRight(", i)
                if j < 0:
                    break
                k = SK.match_close(op, j + 7, "(", ")")
                args = SK.split_top(op[j + 8:k], ",")
                first = args[0].strip()
                if not (first.startswith('"') or first.endswith(".str()") or re.match(r"^T_\w+$", first)):
                    self.record(first, stream)
                i = k + 1
            return
        if SKIP_OPERAND.match(op) or op.endswith(".str()"):
            return
        self.record(op, stream)


# ------------------------------------------------------------------ polynomial normal form (python side: denominators only)

def poly(e):
    """list of (coef:int, tuple(sorted atoms)) ; division by a literal n multiplies by the atom `1/n`; division by any other
    expression by the atom `1/(<canonical text of its polynomial>)`"""
    k = e[0]
    if k == "atom":
        return [(1, (e[1],))]
    if k == "lit":
        return [(e[1], ())] if e[1] != 0 else []
    if k == "neg":
        return [(-c, m) for c, m in poly(e[1])]
    if k == "disp":
        return poly(e[1])
    if k == "add":
        return merge(poly(e[1]) + poly(e[2]))
    if k == "sub":
        return merge(poly(e[1]) + [(-c, m) for c, m in poly(e[2])])
    if k == "mul":
        return merge([(c1 * c2, tuple(sorted(m1 + m2))) for c1, m1 in poly(e[1]) for c2, m2 in poly(e[2])])
    if k == "div":
        return poly(("mul", e[1], recip(e[2])))
    raise FormatsError(f"poly {e}")


def merge(p):
    d = {}
    for c, m in p:
        d[m] = d.get(m, 0) + c
    return sorted(((c, m) for m, c in d.items() if c != 0), key=lambda t: t[1])


def poly_text(p):
    return "+".join((f"{c}*" if c != 1 or not m else "") + "*".join(m) if m else str(c) for c, m in p) or "0"


def recip(e):
    if e[0] == "lit" and e[1] > 0:
        return ("inv", e[1])
    return ("atom", "1/(" + poly_text(poly(e)) + ")")


def lower(e, cfg):
    """rewrite into the Lean Expr constructors: atoms, integer literals, inv n, add, sub, mul, neg"""
    k = e[0]
    if k == "atom":
        if e[1] == "net.y_sign()":
            return ("lit", -1 if cfg.ysneg else 1)
        if "?" in e[1]:
            raise FormatsError(f"operand depends on something the translator could not read: {e[1]}")
        return e
    if k in ("lit", "inv"):
        return e
    if k == "neg":
        return ("neg", lower(e[1], cfg))
    if k == "disp":
        return lower(e[1], cfg)
    if k in ("add", "sub", "mul"):
        return (k, lower(e[1], cfg), lower(e[2], cfg))
    if k == "div":
        d = e[2]
        if d[0] == "lit" and d[1] > 0:
            return ("mul", lower(e[1], cfg), ("inv", d[1]))
        dl = lower(d, cfg)
        return ("mul", lower(e[1], cfg), ("atom", "1/(" + poly_text(poly_l(dl)) + ")"))
    raise FormatsError(f"lower {e}")


def poly_l(e):
    if e[0] == "inv":
        return [(1, (f"1/{e[1]}",))]
    if e[0] in ("atom", "lit"):
        return poly(e)
    if e[0] == "neg":
        return [(-c, m) for c, m in poly_l(e[1])]
    if e[0] == "add":
        return merge(poly_l(e[1]) + poly_l(e[2]))
    if e[0] == "sub":
        return merge(poly_l(e[1]) + [(-c, m) for c, m in poly_l(e[2])])
    if e[0] == "mul":
        return merge([(c1 * c2, tuple(sorted(m1 + m2))) for c1, m1 in poly_l(e[1]) for c2, m2 in poly_l(e[2])])
    raise FormatsError(f"poly_l {e}")


# ------------------------------------------------------------------ the specification: which operand is which quantity

PT_TEXTUAL = [(r"\(\s*\*\s*ii?\s*\)\s*\.\s*second", "pt"), (r"\bii?\s*->\s*second", "pt"), (r"\bp\s*\.\s*second\b", "pt")]

XML = "lib/gnu_gama/xml/localnetworkxml.cpp"
OCT = "lib/gnu_gama/xml/localnetworkoctave.cpp"
HTML = "lib/gnu_gama/local/html.cpp"
TXT = "lib/gnu_gama/local/results/text/"


def sel(raw, occ=0):
    return ("raw", raw, occ)


# point / orientation quantities: (format label, file, function pattern, initial env, textual aliases, scoped aliases,
#                                  {quantity: selector})
POINT_REGIONS = [
    ("xml", XML, r"void\s+LocalNetworkXML::coordinates\s*\(", {"p": "pt"}, PT_TEXTUAL, {}, {
        "pt.fix.x": sel("x", 0), "pt.fix.y": sel("y", 0), "pt.fix.z": sel("z", 0),
        "pt.apx.x": sel("x", 1), "pt.apx.y": sel("y", 1), "pt.apx.z": sel("z", 1),
        "pt.adj.x": sel("x", 2), "pt.adj.y": sel("y", 2), "pt.adj.z": sel("z", 2)}),
    ("xml", XML, r"void\s+LocalNetworkXML::coordinates\s*\(", {"p": "pt", "i": "i", "j": "j"}, PT_TEXTUAL, {}, {
        "cov(i,j)": sel("m2*netinfo->qxx(ind[i], ind[j])", 0)}),
    ("xml", XML, r"void\s+LocalNetworkXML::orientation_shifts\s*\(", {}, [], {}, {
        "ori.apx": sel("z", 0), "ori.adj": sel("z", 1)}),
    ("text", TXT + "fixed_points.h", r"void\s+FixedPoints\s*\(", {}, PT_TEXTUAL, {}, {
        "pt.fix.x": sel("pt.x()", 0), "pt.fix.y": sel(r"re:^[^-+]*pt\.y\(\)[^-+]*$", 0), "pt.fix.z": sel("pt.z()", 0)}),
    ("text", TXT + "adjusted_unknowns.h", r"void\s+AdjustedUnknowns\s*\(", {}, PT_TEXTUAL, {}, {
        "pt.apx.x": sel("b.x_0()", 0), "pt.adj.x": sel("adj_x", 0), "pt.sd.x": sel("mx", 0), "pt.ci.x": sel("mx*kki", 0),
        "pt.apx.y": sel(r"re:^[^-+]*b\.y_0\(\)[^-+]*$", 0), "pt.adj.y": sel("adj_y", 0), "pt.sd.y": sel("my", 0), "pt.ci.y": sel("my*kki", 0),
        "pt.apx.z": sel("b.z_0()", 0), "pt.adj.z": sel("adj_z", 0), "pt.sd.z": sel("mz", 0), "pt.ci.z": sel("mz*kki", 0),
        "ori.apx": sel("z", 0), "ori.cor": sel("cor", 0), "ori.adj": sel("z", 1), "ori.sd": sel("mz", 1),
        "ori.ci": sel("mz*kki", 1)}),
    # the table of a levelling-only network: unknown i of type 'Z' is index_z() of the point unknown_pointid(i)
    ("text/heights", TXT + "adjusted_unknowns.h", r"void\s+AdjustedUnknowns\s*\(", {}, PT_TEXTUAL,
     {"vysky && !sour": {"i": "pt.index_z()", "b": "pt"}}, {
        "pt.apx.z": sel("b.z_0()", 1), "pt.adj.z": sel("adj_z", 1), "pt.sd.z": sel("mv", 0), "pt.ci.z": sel("mv*kki", 0)}),
    ("html", HTML, r"void\s+GamaLocalHTML::htmlUnknowns\s*\(", {}, PT_TEXTUAL, {}, {
        "pt.fix.x": sel("pt.x()", 0), "pt.fix.y": sel(r"re:^[^-+]*pt\.y\(\)[^-+]*$", 0), "pt.fix.z": sel("pt.z()", 0),
        "pt.apx.x": sel("b.x_0()", 0), "pt.adj.x": sel("adj_x", 0), "pt.sd.x": sel("mx", 0), "pt.ci.x": sel("mx*kki", 0),
        "pt.apx.y": sel(r"re:^[^-+]*b\.y_0\(\)[^-+]*$", 0), "pt.adj.y": sel("adj_y", 0), "pt.sd.y": sel("my", 0), "pt.ci.y": sel("my*kki", 0),
        "pt.apx.z": sel("b.z_0()", 0), "pt.adj.z": sel("adj_z", 0), "pt.sd.z": sel("mz", 0), "pt.ci.z": sel("mz*kki", 0),
        "ori.apx": sel("z", 0), "ori.cor": sel("cor", 0), "ori.adj": sel("z", 1), "ori.sd": sel("mz", 1),
        "ori.ci": sel("mz*kki", 1)}),
    ("html/heights", HTML, r"void\s+GamaLocalHTML::htmlUnknowns\s*\(", {}, PT_TEXTUAL, {}, {
        "pt.apx.z": sel("b.z_0()", 1), "pt.adj.z": sel("adj_z", 1), "pt.sd.z": sel("mv", 0), "pt.ci.z": sel("mv*kki", 0)}),
    ("octave", OCT, r"void\s+LocalNetworkOctave::write\s*\(", {"p": "pt"}, PT_TEXTUAL, {}, {
        "pt.fix.x": sel("x", 0), "pt.fix.y": sel("y", 0), "pt.fix.z": sel("z", 0),
        "pt.apx.x": sel(r"re:\bx_0\(\)", 0), "pt.apx.y": sel(r"re:\by_0\(\)", 0), "pt.apx.z": sel(r"re:\bz_0\(\)", 0),
        "pt.adj.x": sel(r"re:X\(p\.index_x\(\)\)", 0), "pt.adj.y": sel(r"re:X\(p\.index_y\(\)\)", 0),
        "pt.adj.z": sel(r"re:X\(p\.index_z\(\)\)", 0)}),
    ("octave", OCT, r"void\s+LocalNetworkOctave::write\s*\(", {"p": "pt", "i": "i", "j": "j"}, PT_TEXTUAL, {}, {
        "cov(i,j)": sel("m2*netinfo->qxx(ind[i], ind[j])", 0)}),
]

# a coordinate is reported for a point that has it: these guards are taken
PRESENT = ("p.fixed_xy()", "p.fixed_z()", "p.index_x()", "p.index_y()", "p.index_z()")

# member bindings of the visitor classes (constructor arguments at their only construction site)
VIS_ENV = {"v": "net.residuals()", "y_sign": "net.y_sign()", "i": "i", "index": "i", "element": "obs", "pm": "obs"}

OBS_FIELDS = ["observed", "adjusted", "sd", "ci", "residual", "f", "studres", "err-obs", "err-adj"]


def body_of_class(text, cls):
    m = re.search(rf"\bclass\s+{cls}\b", text)
    if not m:
        raise FormatsError(f"class {cls} not found")
    i = text.index("{", m.end())
    j = SK.match_close(text, i, "{", "}")
    return text[i + 1:j]


def method_body(cls_text, pattern, what):
    m = re.search(pattern, cls_text)
    if not m:
        raise FormatsError(f"method not found: {what}")
    i = cls_text.index("{", m.end() - 1)
    j = SK.match_close(cls_text, i, "{", "}")
    return cls_text[i + 1:j]


def run_region(text, pattern, cfg, env0, textual, scoped, where, body=None, assume=(), pinned=()):
    if body is None:
        body = SK.function_body(text, pattern)
    stmts = LParser(body).stmts()
    env = {k: ("atom", v) for k, v in env0.items()}
    ex = Exec(cfg, env, textual, scoped, where, assume)
    ex.pinned = set(pinned)
    ex.run(stmts)
    return ex


def pick(ex, selector, where, q):
    kind = selector[0]
    if kind == "raw":
        want = SK.squeeze(selector[1])
        if want.startswith("re:"):
            rx = re.compile(want[3:])
            hits = [s for s in ex.sites if rx.search(s.raw)]
        else:
            hits = [s for s in ex.sites if s.raw == want]
        if len(hits) <= selector[2]:
            raise FormatsError(f"{where}: operand `{want}` (occurrence {selector[2]}) for quantity {q} is not streamed "
                               f"any more ({len(hits)} found)")
        return hits[selector[2]]
    if kind == "idx":
        hits = [s for s in ex.sites if s.stream == selector[1]] if selector[1] else ex.sites
        if len(hits) <= selector[2]:
            raise FormatsError(f"{where}: numeric operand #{selector[2]} for quantity {q} not found ({len(hits)} streamed)")
        return hits[selector[2]]
    raise FormatsError("selector")


def collect(repo):
    """-> rows: list of dict(q, cfg, fmt, expr(lowered), wrap, disp, raw)"""
    src = {}

    def text_of(rel):
        if rel not in src:
            src[rel] = S.strip_cpp_comments((Path(repo) / rel).read_text(encoding="utf-8", errors="replace"))
        return src[rel]

    rows = []
    cfgs = [Cfg(g, y) for g in (True, False) for y in (False, True)]

    def add(q, cfg, fmt, site, where):
        try:
            e = lower(site.value, cfg)
        except FormatsError as err:
            raise FormatsError(f"{where}: quantity {q} ({fmt}, {cfg.name()}): {err}")
        rows.append({"q": q, "cfg": cfg.name(), "fmt": fmt, "expr": e, "wrap": site.wrap, "disp": site.disp, "raw": site.raw})

    # ---- points, orientations, covariance
    for fmt, rel, pat, env0, textual, scoped, quantities in POINT_REGIONS:
        for cfg in cfgs:
            ex = run_region(text_of(rel), pat, cfg, env0, textual, scoped, f"{rel} [{fmt}]", assume=PRESENT,
                            pinned=tuple(k for k in env0 if k in ("i", "j")))
            for q, selector in quantities.items():
                add(q, cfg, fmt, pick(ex, selector, f"{rel} [{fmt}]", q), rel)

    # ---- observations, kind by kind
    xml = text_of(XML)
    xml_vis = body_of_class(xml, "WriteXMLVisitor")
    t_adj = text_of(TXT + "adjusted_observations.h")
    t_vis = body_of_class(t_adj, "AdjustedObservationsTextVisitor")
    t_res = text_of(TXT + "residuals_observations.h")
    html = text_of(HTML)
    h_base = body_of_class(html, "HtmlAdjustedObservationsBaseVisitor")
    h_adj = body_of_class(html, "HtmlAdjustedObservationsVisitor")
    h_res = body_of_class(html, "HtmlAdjustedResidualsVisitor")
    for tag, cls in KINDS:
        visit_pat = rf"void\s+visit\s*\(\s*(?:GNU_gama::local::)?{cls}\s*\*[^)]*\)"
        # which of linear() / angular() the HTML base visitor calls for this kind
        hb = method_body(h_base, visit_pat, f"html visit({cls}*)")
        calls = re.findall(r"\b(linear|angular)\s*\(\s*\)", hb)
        if len(calls) != 1:
            raise FormatsError(f"html.cpp: visit({cls}*) of the base visitor calls {calls} (expected one of linear/angular)")
        h_method = calls[0]
        # argument of observation(scale) in the residual visitor's linear()/angular()
        hr = method_body(h_res, rf"void\s+{h_method}\s*\(\s*\)", f"html residuals {h_method}()")
        margs = re.findall(r"\bobservation\s*\((.*)\)\s*;", hr)
        if len(margs) != 1:
            raise FormatsError(f"html.cpp: HtmlAdjustedResidualsVisitor::{h_method}() does not call observation(scale) once")
        for cfg0 in cfgs:
            cfg = Cfg(cfg0.gons, cfg0.ysneg, cls)
            venv = dict(VIS_ENV)
            # XML
            ex = run_region(None, None, cfg, venv, [], {}, f"{XML} visit({cls}*)", body=method_body(xml_vis, visit_pat, f"xml visit({cls}*)"))
            add(f"obs.{tag}.observed", cfg, "xml", pick(ex, ("idx", "*ostr", 0), XML, "observed"), XML)
            add(f"obs.{tag}.adjusted", cfg, "xml", pick(ex, ("idx", "*ostr", 1), XML, "adjusted"), XML)
            ex = run_region(xml, r"void\s+LocalNetworkXML::observations\s*\(", cfg, {"pm": "obs"}, [], {}, f"{XML} observations")
            for fld, raw in (("sd", "ml"), ("f", "f"), ("studres", "no"), ("err-obs", "em*sc"), ("err-adj", "ev*sc")):
                add(f"obs.{tag}.{fld}", cfg, "xml", pick(ex, sel(raw), XML, fld), XML)
            # text
            ex = run_region(None, None, cfg, venv, [], {}, f"text visit({cls}*)", body=method_body(t_vis, visit_pat, f"text visit({cls}*)"))
            add(f"obs.{tag}.observed", cfg, "text", pick(ex, ("idx", None, 0), TXT, "observed"), TXT)
            add(f"obs.{tag}.adjusted", cfg, "text", pick(ex, ("idx", None, 1), TXT, "adjusted"), TXT)
            ex = run_region(t_adj, r"void\s+AdjustedObservations\s*\(", cfg, {"pm": "obs"}, [], {}, "text AdjustedObservations")
            add(f"obs.{tag}.sd", cfg, "text", pick(ex, sel("ml"), TXT, "sd"), TXT)
            add(f"obs.{tag}.ci", cfg, "text", pick(ex, sel("ml*kki"), TXT, "ci"), TXT)
            ex = run_region(t_res, r"void\s+ResidualsObservations\s*\(", cfg, {"pm": "obs", "i": "i"}, [], {}, "text ResidualsObservations",
                            pinned=("i",))
            for fld, raw in (("residual", "v(i)*sc"), ("f", "f"), ("studres", "no"), ("err-obs", "em*sc"), ("err-adj", "ev*sc")):
                add(f"obs.{tag}.{fld}", cfg, "text", pick(ex, sel(raw), TXT, fld), TXT)
            # html
            henv = dict(VIS_ENV)
            henv["kki"] = "net.conf_int_coef()"
            ex = run_region(None, None, cfg, henv, [], {}, f"html {h_method}()", body=method_body(h_adj, rf"void\s+{h_method}\s*\(\s*\)", f"html {h_method}()"))
            if h_method == "linear":
                picks = (("observed", "val"), ("adjusted", "adj"), ("sd", "ml"), ("ci", "ml*kki"))
            else:
                picks = (("observed", "val"), ("adjusted", "adj"), ("sd", "scale*ml"), ("ci", "scale*ml*kki"))
            for fld, raw in picks:
                add(f"obs.{tag}.{fld}", cfg, "html", pick(ex, sel(raw), HTML, fld), HTML)
            ex2 = Exec(cfg, {k: ("atom", v) for k, v in henv.items()}, [], {}, "html observation(scale)")
            ex2.env["scale"] = parse_expr(margs[0], ex2.env, cfg)
            ex2.run(LParser(method_body(h_res, r"void\s+observation\s*\(\s*double\s+scale\s*\)", "html observation(scale)")).stmts())
            for fld, raw in (("residual", "lnet->residuals()(index)*scale"), ("f", "f"), ("studres", "no"),
                             ("err-obs", "em*scale"), ("err-adj", "ev*scale")):
                add(f"obs.{tag}.{fld}", cfg, "html", pick(ex2, sel(raw), HTML, fld), HTML)
    return rows


# ------------------------------------------------------------------ rendering

def lean_str(s):
    return '"' + s.replace("\\", "\\\\").replace('"', '\\"') + '"'


def render_expr(e, ids):
    k = e[0]
    if k == "atom":
        return f"(.atom {ids[e[1]]})"
    if k == "lit":
        return f"(.lit ({e[1]}))"
    if k == "inv":
        return f"(.inv {e[1]})"
    if k == "neg":
        return f"(.neg {render_expr(e[1], ids)})"
    return f"(.{k} {render_expr(e[1], ids)} {render_expr(e[2], ids)})"


def atoms_of(e, acc):
    if e[0] == "atom":
        acc.add(e[1])
    elif e[0] in ("neg",):
        atoms_of(e[1], acc)
    elif e[0] in ("add", "sub", "mul"):
        atoms_of(e[1], acc)
        atoms_of(e[2], acc)


# formats that gama-local writes in the unit the user asked for; XML and Octave are written after IS->set_gons()
ALWAYS_GON = ("xml", "octave")


def generate(repo):
    rows = collect(repo)
    atoms = set()
    for r in rows:
        atoms_of(r["expr"], atoms)
    names = sorted(atoms)
    ids = {a: i for i, a in enumerate(names)}
    groups, xml_deg = {}, {}
    for r in rows:
        base = r["fmt"].split("/")[0]
        if base in ALWAYS_GON and r["cfg"].startswith("deg"):
            if base == "xml":
                xml_deg[(r["q"], r["cfg"])] = r
            continue
        groups.setdefault((r["q"], r["cfg"]), []).append(r)
    L = []
    L.append("/-")
    L.append("  GENERATED by tools/gen/c12_formats.py — do not edit.")
    L.append("  What each output format of gama-local prints for every reported quantity (symbolic value of the streamed operand,")
    L.append("  wrap signature), grouped by quantity and configuration (angular unit / y_sign).")
    L.append("-/")
    L.append("import Gama.Model.FormatExpr")
    L.append("namespace Gama.Gen.FormatSites")
    L.append("open Gama.FormatExpr")
    L.append("")
    L.append("/-- accessor atoms (index = atom number) -/")
    L.append("def atomNames : List String := [")
    L.append(",\n".join("  " + lean_str(n) for n in names))
    L.append("]")
    L.append("")
    L.append("def groups : List Group := [")
    items = []
    for (q, cfg), rs in sorted(groups.items()):
        ents = ",\n      ".join(f"⟨{lean_str(r['fmt'])}, {lean_str(r['fmt'].split('/')[0])}, {render_expr(r['expr'], ids)}, {lean_str(r['wrap'])}, {'true' if r['disp'] else 'false'}⟩"
                                for r in rs)
        items.append(f"  ⟨{lean_str(q)}, {lean_str(cfg)}, [\n      {ents}]⟩")
    L.append(",\n".join(items))
    L.append("]")
    L.append("")
    L.append("/-- the XML writer evaluated with `gons() = false` (never done by gama-local) next to the text writer -/")
    L.append("def xmlDegrees : List Group := [")
    items = []
    for (q, cfg), r in sorted(xml_deg.items()):
        peers = [p for p in groups.get((q, cfg), []) if p["fmt"] == "text"]
        if not peers:
            continue
        ents = ",\n      ".join(f"⟨{lean_str(p['fmt'])}, {lean_str(p['fmt'].split('/')[0])}, {render_expr(p['expr'], ids)}, {lean_str(p['wrap'])}, {'true' if p['disp'] else 'false'}⟩"
                                for p in [r] + peers)
        items.append(f"  ⟨{lean_str(q)}, {lean_str(cfg)}, [\n      {ents}]⟩")
    L.append(",\n".join(items))
    L.append("]")
    L.append("")
    L.append("end Gama.Gen.FormatSites")
    info = {"rows": len(rows), "groups": len(groups), "atoms": len(names), "xml_degrees": len(xml_deg)}
    return "\n".join(L) + "\n", info, rows


if __name__ == "__main__":
    repo = sys.argv[1] if len(sys.argv) > 1 else "/repo"
    txt, info, rows = generate(repo)
    if len(sys.argv) > 2 and sys.argv[2] == "--dump":
        for r in rows:
            print(r["q"], r["cfg"], r["fmt"], poly_text(poly_l(r["expr"])), "| wrap", r["wrap"], "| disp", r["disp"])
    else:
        print(info)
